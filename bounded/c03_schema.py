"""C03 bounded drivers: a typed pg.List / pg.Dict / pg.Object never holds a state
its schema rejects; a rejected write raises TypeError/ValueError/KeyError and
leaves the target unchanged.

The oracle is an *independent model* of the value-spec vocabulary (class `Desc`:
what a spec accepts is written down here from the documented meaning of the
spec, not computed by pyglove), cross-checked with a re-application of the real
spec to a plain copy of the stored state.

For every step of every history
  * if the model says the write is schema-rejected (invalid value, undeclared
    key, frozen field, removal of a required field, size bound exceeded) the
    call must raise TypeError/ValueError/KeyError and the container (and the
    tree it lives in) must be unchanged (a batch may have applied earlier valid
    elements),
  * whatever happened, every stored member must satisfy the model of its spec,
    only declared keys may be present, required fields present unless partial,
    frozen fields equal their frozen value, list sizes within bounds; and the
    real spec re-applied to a plain copy of the state must accept it and map it
    to itself,
  * any exception raised must be one of the three classes (IndexError only for
    an out-of-range index) and must leave the state unchanged,
  * a rejected write is immediately repeated (it must be rejected again), and
    after an accepted call an invalid follow-up write is aimed at everything the
    schema governs (the container, its typed children, a returned copy): the
    schema must still be in force.

Besides the write-path x spec-vocabulary drivers and the history drivers:
  * drv_spec_modifiers_*: every base spec under every chain of the modifiers
    noneable / set_default / freeze (frozen at a value, at None, at the current
    default) as a field of a typed Dict and of an Object, every write path of
    that field, one case id per input class of the written value (None, other
    value the base accepts, value it rejects), and writes into the content of a
    frozen container field;
  * drv_*_resets: clear / popitem / empty construction / removal of a field /
    replacement by an empty value when the value that cannot be defaulted sits
    1..3 levels below the container the call is made on (nested Dict fields,
    noneable Dict fields, List-of-Dict fields), at every level of the tree;
  * drv_boilerplate_*: schemas that are *derived from a live value*
    (pg.boilerplate_class freezes the fields of a new class at the values of a
    template object, also boilerplate of boilerplate).  The template stays an
    ordinary mutable value: every write path into the content of every kind of
    container-valued field of the template (list, list of dict/list, dict with
    and without nested schema, dynamic keys, object, Any/Tuple/Union holding
    containers, a value copied from a class default), at every depth, must leave
    the instances of the derived classes (created before and after the write) in
    a state their class schema accepts: frozen fields equal the frozen value =
    the template's value when the class was derived (the model), the class
    schema re-applied to a plain copy accepts it; the template and instances of
    the base class keep satisfying the base schema.  And the instances of a
    boilerplate class go through every object write path like any other class.
  * drv_pretyped_values: the written value is a pg.Dict / pg.List that already
    carries a value spec S2 of its own (or a plain container holding one).  For
    every location spec S1 of a container vocabulary, S2 ranges over the specs
    of the same shape that differ from S1 in exactly one respect, at any depth
    (weaker_specs: a bound / regex / enum member dropped, frozen at an outside
    value, noneable added, a list size bound dropped, the keys of two members
    exchanged while the sequence of value specs is kept, one more key, wider
    dynamic-key pattern or value, one more union candidate), with a value S2
    accepts and S1 (by the model) rejects.  Whatever the value claims, the
    write must raise and leave the state unchanged.
  * drv_ref_values: the written value is pg.Ref(v) for every kind of referent
    (plain list, plain dict, pg.List, pg.Dict, typed ones, pg.Object), valid and
    invalid for the location spec, directly and one level inside a plain
    container.  The location stands for v (plain() reads a Ref as its referent):
    a reference to a value the spec rejects must raise and leave the state
    unchanged; after an accepted reference the model and the re-applied spec
    must accept the state.

Class definitions / spec objects of a subject are shared between the runs of
that subject for speed; every failure is re-confirmed on a completely fresh
build (new classes, new spec objects) before it is recorded, so state leaked
through a shared spec cannot produce a failure whose witness passes.
"""
import itertools
import re

import pyglove as pg
from pyvc.bounded import Recorder, rng

T = pg.typing
M = pg.MISSING_VALUE
Ins = pg.Insertion
REJECT_CLASSES = (TypeError, ValueError, KeyError)


def is_missing(v):
  return isinstance(v, type(M)) or (pg.MISSING_VALUE == v and not isinstance(v, (int, float, str, bool, list, dict, tuple, type(None))))


def plain(v):
  """Plain, comparable image of a stored value (same function as in witnesses).

  A pg.Ref stands for the value it refers to (what reading the field returns);
  a referenced plain list/dict is descended into."""
  if isinstance(v, pg.Ref):
    v = v.value
    if not isinstance(v, pg.Symbolic):
      return _dp(v)
  if isinstance(v, pg.Object):
    return (type(v).__name__, plain(v.sym_init_args))
  if isinstance(v, pg.Dict):
    return {k: plain(c) for k, c in v.sym_items()}
  if isinstance(v, pg.List):
    return [plain(c) for c in v.sym_values()]
  return v


def _dp(v):
  """Like plain(), but also descends into raw dict/list/tuple (driver only)."""
  if isinstance(v, pg.Ref):
    v = v.value
  if isinstance(v, pg.Object):
    return (type(v).__name__, _dp(v.sym_init_args))
  if isinstance(v, pg.Dict):
    return {k: _dp(c) for k, c in v.sym_items()}
  if isinstance(v, pg.List):
    return [_dp(c) for c in v.sym_values()]
  if isinstance(v, dict):
    return {k: _dp(c) for k, c in v.items()}
  if isinstance(v, (list, tuple)):
    return type(v)(_dp(c) for c in v)
  return v


def unsym(v, objs):
  """Plain copy for re-application of the real spec; objects kept, collected."""
  if isinstance(v, pg.Ref):
    v = v.value
  if isinstance(v, pg.Dict):
    return {k: unsym(c, objs) for k, c in v.sym_items()}
  if isinstance(v, pg.List):
    return [unsym(c, objs) for c in v.sym_values()]
  if isinstance(v, pg.Object):
    objs.append(v)
    return v
  if isinstance(v, dict):
    return {k: unsym(c, objs) for k, c in v.items()}
  if isinstance(v, list):
    return [unsym(c, objs) for c in v]
  if isinstance(v, tuple):
    return tuple(unsym(c, objs) for c in v)
  return v


PLAIN_SRC = '''def plain(v):
 if isinstance(v,pg.Object):return(type(v).__name__,plain(v.sym_init_args))
 if isinstance(v,pg.Dict):return{k:plain(c)for k,c in v.sym_items()}
 if isinstance(v,pg.List):return[plain(c)for c in v.sym_values()]
 return v'''
PLAIN_SRC_REF = '''def plain(v):
 if isinstance(v,pg.Ref):v=v.value
 if isinstance(v,pg.Object):return(type(v).__name__,plain(v.sym_init_args))
 if isinstance(v,pg.Dict):return{k:plain(c)for k,c in v.sym_items()}
 if isinstance(v,pg.List):return[plain(c)for c in v.sym_values()]
 if isinstance(v,dict):return{k:plain(c)for k,c in v.items()}
 if isinstance(v,list):return[plain(c)for c in v]
 return v'''
RUN_SRC = '''def run(s):
 try:exec(s,globals())
 except Exception as e:return e'''
RUN_SRC_PARTIAL = '''def run(s):
 try:
  with pg.allow_partial(True):exec(s,globals())
 except Exception as e:return e'''


# ---------------------------------------------------------------------------
# The model of the value-spec vocabulary.
# ---------------------------------------------------------------------------

class Desc:
  """Independent description of one value spec.

  src      source of the pg.typing expression
  name     label used in messages
  valid    [(label, value-source)]  values the spec accepts
  invalid  [(label, value-source)]  values the spec rejects
  ok(v, partial)  model predicate on the plain image of a *stored* value
  """

  def __init__(self, name, src, ok, valid, invalid, pre=''):
    self.name, self.src, self._ok = name, src, ok
    self.valid, self.invalid = list(valid), list(invalid)
    self.pre = pre                 # class definitions the spec source needs
    self.noneable = False
    self.has_default = False
    self.default = None            # plain image of the default
    self.frozen = False
    # [(label, source of a spec of the same kind that is wider in one respect,
    #   source of a value only the wider spec accepts)]
    self.wider = []

  def ok(self, v, partial=False):
    if is_missing(v):
      return partial
    if self.frozen:
      return v == self.default
    if v is None:
      return self.noneable
    return self._ok(v, partial)


_STRUCT_KEYS = ('elem', 'lo', 'hi', 'fields', 'cls_name', 'elems', 'cands', 'wider')


def _isint(v):
  return isinstance(v, int) and not isinstance(v, bool)


def d_int(lo=None, hi=None):
  args = ', '.join(f'{k}={v}' for k, v in (('min_value', lo), ('max_value', hi)) if v is not None)
  def ok(v, partial):
    del partial
    return isinstance(v, int) and (lo is None or v >= lo) and (hi is None or v <= hi)
  mid = 3 if (lo is None or lo <= 3) and (hi is None or hi >= 3) else (lo if lo is not None else hi)
  valid = [('in-range', str(x)) for x in ({lo, hi, mid} - {None})]
  invalid = [('wrong-type', "'s'"), ('wrong-type', '1.5'), ('wrong-type', '[1]'), ('None', 'None')]
  if lo is not None:
    invalid.append(('below-min', str(lo - 1)))
  if hi is not None:
    invalid.append(('above-max', str(hi + 1)))
  d = Desc(f'Int[{lo},{hi}]', f'T.Int({args})', ok, sorted(valid, key=lambda t: t[1]), invalid)
  if hi is not None:
    d.wider.append(('no-max', f'T.Int(min_value={lo})' if lo is not None else 'T.Int()', str(hi + 1)))
  if lo is not None:
    d.wider.append(('no-min', f'T.Int(max_value={hi})' if hi is not None else 'T.Int()', str(lo - 1)))
  return d


def d_float(lo=None, hi=None):
  args = ', '.join(f'{k}={v}' for k, v in (('min_value', lo), ('max_value', hi)) if v is not None)
  def ok(v, partial):
    del partial
    return isinstance(v, (int, float)) and (lo is None or v >= lo) and (hi is None or v <= hi)
  valid = [('in-range', '0.5')] + [('boundary', repr(x)) for x in (lo, hi) if x is not None]
  invalid = [('wrong-type', "'s'"), ('wrong-type', '[0.5]'), ('None', 'None')]
  if lo is not None:
    invalid.append(('below-min', repr(lo - 0.25)))
  if hi is not None:
    invalid.append(('above-max', repr(hi + 0.25)))
  d = Desc(f'Float[{lo},{hi}]', f'T.Float({args})', ok, valid, invalid)
  if hi is not None:
    d.wider.append(('no-max', f'T.Float(min_value={lo})' if lo is not None else 'T.Float()', repr(hi + 0.25)))
  if lo is not None:
    d.wider.append(('no-min', f'T.Float(max_value={hi})' if hi is not None else 'T.Float()', repr(lo - 0.25)))
  return d


def d_str(regex=None):
  def ok(v, partial):
    del partial
    return isinstance(v, str) and (regex is None or re.match(regex, v) is not None)
  valid = [('str', "'abc'"), ('str', "'a'")]
  invalid = [('wrong-type', '1'), ('wrong-type', "['a']"), ('None', 'None')]
  if regex is None:
    valid.append(('empty-str', "''"))
  else:
    invalid += [('regex-mismatch', "'abd'"), ('regex-mismatch', "''")]
  d = Desc('Str' + (f'({regex})' if regex else ''),
           f'T.Str(regex={regex!r})' if regex else 'T.Str()', ok, valid, invalid)
  if regex is not None:
    d.wider.append(('no-regex', 'T.Str()', "'abd'"))
  return d


def d_bool():
  return Desc('Bool', 'T.Bool()', lambda v, p: isinstance(v, bool),
              [('bool', 'True'), ('bool', 'False')],
              [('wrong-type', '1'), ('wrong-type', '0'), ('wrong-type', "'True'"), ('None', 'None')])


def d_enum(default='a'):
  d = Desc('Enum' + ('' if default == 'a' else f'={default}'), f"T.Enum({default!r}, ['a', 'b', 3])", lambda v, p: (isinstance(v, str) or _isint(v)) and v in ('a', 'b', 3),
              [('member', "'b'"), ('member', '3'), ('member', "'a'")],
              [('non-member', "'c'"), ('non-member', '4'), ('non-member', "['a']"), ('None', 'None')])
  d.has_default, d.default = True, default     # an Enum's first argument is its default
  d.wider.append(('more-members', f"T.Enum({default!r}, ['a', 'b', 3, 'c'])", "'c'"))
  return d


def d_any():
  d = Desc('Any', 'T.Any()', lambda v, p: True,
              [('any', '1'), ('any', "'s'"), ('any', '[1, {"k": 2}]'), ('any', 'None')], [])
  d.noneable = True
  return d


def d_list(elem, lo=0, hi=None):
  args = elem.src + (f', min_size={lo}' if lo else '') + (f', max_size={hi}' if hi is not None else '')
  def ok(v, partial):
    return (isinstance(v, list) and len(v) >= lo and (hi is None or len(v) <= hi)
            and all(elem.ok(e, partial) for e in v))   # a missing element only in a partial list
  ev = [s for _, s in elem.valid]
  base_n = max(lo, 1)
  valid = [('list', '[' + ', '.join((ev * 4)[:base_n]) + ']')]
  if hi is None or hi > base_n:
    valid.append(('list', '[' + ', '.join((ev[::-1] * 4)[:base_n + 1]) + ']'))
  if lo == 0:
    valid.append(('empty-list', '[]'))
  invalid = [('wrong-type', '5'), ('wrong-type', "'s'"), ('wrong-type', '(' + ev[0] + ',)'), ('None', 'None')]
  for lab, s in elem.invalid[:3]:
    invalid.append((f'bad-element:{lab}', '[' + ', '.join([ev[0]] * (base_n - 1) + [s]) + ']'))
  if lo > 0:
    invalid.append(('too-short', '[' + ', '.join((ev * 4)[:lo - 1]) + ']'))
  if hi is not None:
    invalid.append(('too-long', '[' + ', '.join((ev * 8)[:hi + 1]) + ']'))
  # symbolic inputs: untyped, typed with the same spec, typed with another spec
  good = '[' + ', '.join((ev * 4)[:base_n]) + ']'
  valid.append(('symbolic-untyped', f'pg.List({good})'))
  valid.append(('symbolic-same-spec', f'pg.List({good},value_spec=T.List({args}))'))
  if elem.invalid:
    bad = '[' + ', '.join([ev[0]] * (base_n - 1) + [elem.invalid[0][1]]) + ']'
    invalid.append(('symbolic-untyped-bad-element', f'pg.List({bad})'))
    invalid.append(('symbolic-other-spec-bad-element', f'pg.List({bad},value_spec=T.List(T.Any()))'))
  if hi is not None:
    too_long = '[' + ', '.join((ev * 8)[:hi + 1]) + ']'
    invalid.append(('symbolic-other-spec-too-long', f'pg.List({too_long},value_spec=T.List({elem.src}))'))
  # a list that was validated against a spec of the same shape whose element
  # spec is wider in one respect (no upper bound, no regex, more members ...)
  for lab, wsrc, wbad in elem.wider:
    body = '[' + ', '.join([ev[0]] * (base_n - 1) + [wbad]) + ']'
    invalid.append((f'symbolic-wider-spec:{lab}', f'pg.List({body},value_spec=T.List({wsrc}{args[len(elem.src):]}))'))
  if getattr(elem, 'fields', None) and not hasattr(elem, 'cls_name') and any(
      not dd.has_default for k, dd in elem.fields if not isinstance(k, tuple)):
    invalid.append(('missing-required:symbolic-partial-same-spec',
                    f'pg.List([{{}}],value_spec=T.List({args}),allow_partial=True)'))
  d = Desc(f'List({elem.name},{lo},{hi})', f'T.List({args})', ok, valid, invalid, pre=elem.pre)
  d.elem, d.lo, d.hi = elem, lo, hi
  return d


def d_tuple(elems):
  def ok(v, partial):
    return isinstance(v, tuple) and len(v) == len(elems) and all(e.ok(x, partial) for e, x in zip(elems, v))
  ev = [e.valid[0][1] for e in elems]
  tup = lambda parts: '(' + ', '.join(parts) + (',)' if len(parts) == 1 else ')')
  valid = [('tuple', tup(ev)), ('tuple', tup([e.valid[-1][1] for e in elems]))]
  invalid = [('wrong-type', '[' + ', '.join(ev) + ']'), ('wrong-type', '5'), ('None', 'None'),
             ('too-short', tup(ev[:-1])), ('too-long', tup(ev + ev[:1]))]
  for i, e in enumerate(elems):
    for lab, s in e.invalid[:2]:
      invalid.append((f'bad-element:{lab}', tup(ev[:i] + [s] + ev[i + 1:])))
  d = Desc('Tuple(' + ','.join(e.name for e in elems) + ')',
           'T.Tuple([' + ', '.join(e.src for e in elems) + '])', ok, valid, invalid,
           pre=''.join(e.pre for e in elems))
  d.elems = list(elems)
  return d


def _field_src(key, d):
  k = f"T.StrKey({key[1]!r})" if isinstance(key, tuple) else repr(key)
  return f'({k}, {d.src})'


def _dict_ok(fields):
  """fields: [(key | ('re', regex), Desc)]."""
  consts = [(k, d) for k, d in fields if not isinstance(k, tuple)]
  dyns = [(k[1], d) for k, d in fields if isinstance(k, tuple)]
  def ok(v, partial):
    if not isinstance(v, dict):
      return False
    for k, d in consts:
      if k not in v:
        return False                      # declared const keys are always present
      if not d.ok(v[k], partial):
        return False
    for k, x in v.items():
      if any(k == c for c, _ in consts):
        continue
      for rx, d in dyns:
        if isinstance(k, str) and re.match(rx, k):
          if not d.ok(x, partial) or is_missing(x):
            return False
          break
      else:
        return False                      # undeclared key
    return True
  return ok


def d_dict(fields, name=None):
  ok = _dict_ok(fields)
  consts = [(k, d) for k, d in fields if not isinstance(k, tuple)]
  dyns = [(k[1], d) for k, d in fields if isinstance(k, tuple)]
  req = [(k, d) for k, d in consts if not d.has_default]
  def lit(pairs):
    return '{' + ', '.join(f'{k!r}: {s}' for k, s in pairs) + '}'
  full = [(k, d.valid[0][1]) for k, d in consts if not d.frozen]
  valid = [('dict', lit([(k, d.valid[0][1]) for k, d in req])), ('dict', lit(full))]
  invalid = [('wrong-type', '5'), ('wrong-type', '[1]'), ('None', 'None'),
             ('undeclared-key', lit([(k, d.valid[0][1]) for k, d in req] + [('zz', '1')]))]
  if req:
    invalid.append(('missing-required', lit([(k, d.valid[0][1]) for k, d in req[1:]])))
  for k, d in consts:
    if d.frozen:
      continue
    for lab, s in d.invalid[:2]:
      invalid.append((f'bad-member:{lab}', lit([(kk, s if kk == k else dd.valid[0][1]) for kk, dd in consts
                                                if kk == k or not dd.has_default])))
  if dyns:
    valid.append(('dict-dyn', lit([(k, d.valid[0][1]) for k, d in req] + [('x1', dyns[0][1].valid[0][1])])))
    if dyns[0][1].invalid:
      invalid.append(('bad-dynamic-member', lit([(k, d.valid[0][1]) for k, d in req] + [('x1', dyns[0][1].invalid[0][1])])))
  own = 'T.Dict([' + ', '.join(_field_src(k, dd) for k, dd in fields) + '])'
  good = lit([(k, d.valid[0][1]) for k, d in req])
  valid.append(('symbolic-untyped', f'pg.Dict({good})'))
  valid.append(('symbolic-same-spec', f'pg.Dict({good},value_spec={own})'))
  invalid.append(('symbolic-untyped-undeclared-key', 'pg.Dict(' + lit([(k, d.valid[0][1]) for k, d in req] + [('zz', '1')]) + ')'))
  invalid.append(('symbolic-other-spec-undeclared-key',
                  'pg.Dict(' + lit([(k, d.valid[0][1]) for k, d in req] + [('zz', '1')]) + ',value_spec=T.Dict([(T.StrKey(),T.Any())]))'))
  if req:
    invalid.append(('missing-required:symbolic-partial-same-spec', f'pg.Dict.partial({{}},value_spec={own})'))
    first_bad = [(k, d) for k, d in req if d.invalid]
    if first_bad:
      k0, d0 = first_bad[0]
      invalid.append(('symbolic-other-spec-bad-member',
                      'pg.Dict(' + lit([(k, d0.invalid[0][1] if k == k0 else d.valid[0][1]) for k, d in req])
                      + ',value_spec=T.Dict([(T.StrKey(),T.Any())]))'))
  # a dict that was validated against the same schema but for one member whose
  # spec is wider in one respect
  for k0, d0 in consts:
    if d0.wider and not d0.frozen:
      for lab, wsrc, wbad in d0.wider:
        wspec = 'T.Dict([' + ', '.join(f'({k0!r}, {wsrc})' if kk == k0 else _field_src(kk, dd) for kk, dd in fields) + '])'
        items = lit([(kk, dd.valid[0][1]) for kk, dd in req if kk != k0] + [(k0, wbad)])
        invalid.append((f'symbolic-wider-spec:{lab}', f'pg.Dict({items},value_spec={wspec})'))
      break
  d = Desc(name or ('Dict(' + ','.join(str(k) for k, _ in fields) + ')'),
           'T.Dict([' + ', '.join(_field_src(k, dd) for k, dd in fields) + '])', ok, valid, invalid,
           pre=''.join(dd.pre for _, dd in fields))
  d.fields = fields
  if not req:
    d.has_default = True   # a Dict spec whose fields all have defaults has a default
    d.default = {k: dd.default for k, dd in consts}
  return d


def d_object(cls_name, fields, assignable=True):
  """A pg.Object subclass `cls_name` with the given [(key, Desc)] fields."""
  ok_fields = _dict_ok(fields)
  def ok(v, partial):
    return (isinstance(v, tuple) and len(v) == 2 and v[0] == cls_name and isinstance(v[1], dict)
            and ok_fields(v[1], partial))
  pre = ''.join(d.pre for _, d in fields) + (
      f"@pg.members([{', '.join(_field_src(k, d) for k, d in fields)}])\n"
      f"class {cls_name}(pg.Object):\n  allow_symbolic_assignment = {assignable}\n"
      f"class {cls_name}Other(pg.Object):\n  pass\n")
  req = [(k, d) for k, d in fields if not d.has_default]
  kw = lambda pairs: ', '.join(f'{k}={s}' for k, s in pairs)
  valid = [('object', f'{cls_name}({kw([(k, d.valid[0][1]) for k, d in req])})'),
           ('object', f'{cls_name}({kw([(k, d.valid[-1][1]) for k, d in fields if not d.frozen])})')]
  invalid = [('wrong-type', '5'), ('wrong-class', f'{cls_name}Other()'), ('None', 'None'),
             ('wrong-type', '{' + ', '.join(f'{k!r}: {d.valid[0][1]}' for k, d in req) + '}')]
  d = Desc(f'Object({cls_name})', f'T.Object({cls_name})', ok, valid, invalid, pre=pre)
  d.fields, d.cls_name = fields, cls_name
  return d


def d_union(cands):
  def ok(v, partial):
    return any(c.ok(v, partial) for c in cands)
  valid = [(f'union:{c.name}', c.valid[0][1]) for c in cands]
  invalid = []
  for c in cands:
    for lab, s in c.invalid:
      try:
        val = eval(s, dict(_ENV))  # pylint: disable=eval-used
      except Exception:  # pylint: disable=broad-except
        continue
      if not any(o.ok(plain(val)) for o in cands) and (lab, s) not in invalid:
        invalid.append((lab, s))
  d = Desc('Union(' + ','.join(c.name for c in cands) + ')',
           'T.Union([' + ', '.join(c.src for c in cands) + '])', ok, valid, invalid,
           pre=''.join(c.pre for c in cands))
  d.cands = list(cands)
  return d


def noneable(d):
  n = Desc(d.name + '?', d.src + '.noneable()', d._ok,  # pylint: disable=protected-access
           d.valid + [('None', 'None')], [t for t in d.invalid if t[1] != 'None'], pre=d.pre)
  n.__dict__.update({k: v for k, v in d.__dict__.items() if k in _STRUCT_KEYS})
  n.noneable = True
  n.has_default, n.default = True, None
  return n


def with_default(d, value_src):
  src = d.src[:-1] + (', ' if not d.src[:-1].endswith('(') else '') + f'default={value_src})'
  n = Desc(d.name + f'={value_src}', src, d._ok, d.valid, d.invalid, pre=d.pre)  # pylint: disable=protected-access
  n.__dict__.update({k: v for k, v in d.__dict__.items() if k in _STRUCT_KEYS + ('noneable',)})
  n.has_default = True
  n.default = plain(eval(value_src, dict(_ENV)))  # pylint: disable=eval-used
  return n


def frozen(d, value_src):
  n = with_default(d, value_src)
  n.name = d.name + f'!{value_src}'
  n.src = n.src + '.freeze()'
  n.frozen = True
  n.invalid = [(('frozen-other-value' if not any(s == s2 for _, s2 in d.invalid) else lab), s)
               for lab, s in (d.valid + d.invalid) if s != value_src]
  n.invalid = [('frozen-other-value' if (lab, s) in d.valid else lab, s) for lab, s in (d.valid + d.invalid) if s != value_src]
  n.valid = [('frozen-value', value_src)]
  return n


def _same_value(a_src, b_src, pre=''):
  """Whether two value sources denote equal values (1 == True == 1.0 ...)."""
  if a_src == b_src:
    return True
  try:
    env = dict(_ENV)
    if pre:
      exec(pre, env)  # pylint: disable=exec-used
    return bool(eval(a_src, env) == eval(b_src, env))  # pylint: disable=eval-used
  except Exception:  # pylint: disable=broad-except
    return False


def modified(base, none=False, default=None, freeze=None):
  """`base` with the spec modifiers chained in source order
  `.noneable()` `.set_default(default)` `.freeze(freeze)`.

  default: value source or None; freeze: None (not frozen), '' (freeze at the
  current default) or a value source.  Model, from the documented meaning of
  the modifiers: a noneable spec also accepts None (and has default None when
  it had none; `Dict.noneable()` always resets the default to None); a default
  makes the field optional; a frozen spec accepts nothing but its frozen value
  -- whatever else the spec would accept, None included.
  """
  src = base.src + ('.noneable()' if none else '')
  name = base.name + ('?' if none else '')
  is_dict_spec = hasattr(base, 'fields') and not hasattr(base, 'cls_name')
  has_default, dflt = base.has_default, base.default
  dflt_src = getattr(base, 'default_src', None) or (repr(base.default) if has_default else None)
  if none and (not has_default or is_dict_spec):
    has_default, dflt, dflt_src = True, None, 'None'
  if default is not None:
    src += f'.set_default({default})'
    name += f'={default}'
    has_default, dflt_src = True, default
  if freeze is not None:
    src += f'.freeze({freeze})'
    name += f'!{freeze}'
    if freeze:
      has_default, dflt_src = True, freeze
    if not has_default or dflt_src is None:
      raise ValueError(f'{src}: nothing to freeze at')
  if dflt_src is not None:
    env = dict(_ENV)
    if base.pre:
      exec(base.pre, env)  # pylint: disable=exec-used
    dflt = plain(eval(dflt_src, env))  # pylint: disable=eval-used
  can_none = none or base.noneable
  valid = list(base.valid) + ([('None', 'None')] if can_none and ('None', 'None') not in base.valid else [])
  invalid = [t for t in base.invalid if not (can_none and t[1] == 'None')]
  if freeze is not None:
    others = ([('frozen-other-value:None' if s == 'None' else 'frozen-other-value', s) for _, s in valid]
              + [(lab, s) for lab, s in invalid])
    invalid = [(lab, s) for lab, s in others if not _same_value(s, dflt_src, base.pre)]
    valid = [('frozen-value', dflt_src)]
  n = Desc(name, src, base._ok, valid, invalid, pre=base.pre)  # pylint: disable=protected-access
  n.__dict__.update({k: v for k, v in base.__dict__.items() if k in _STRUCT_KEYS})
  n.noneable = can_none
  n.has_default, n.default, n.default_src = has_default, dflt, dflt_src
  n.frozen = freeze is not None
  return n


NC = dict(raise_on_no_change=False)
_ENV = dict(pg=pg, T=T, M=M, Ins=Ins, NC=NC)
_CODE = {}


def _exec(src, env):
  c = _CODE.get(src)
  if c is None:
    c = _CODE[src] = compile(src, '<c03>', 'exec')
  exec(c, env)  # pylint: disable=exec-used


def _eval(src, env):
  c = _CODE.get(('e', src))
  if c is None:
    c = _CODE[('e', src)] = compile(src, '<c03>', 'eval')
  return eval(c, env)  # pylint: disable=eval-used


def vocabulary(tier):
  """The element/field specs every write path is crossed with."""
  i05 = d_int(0, 5)
  inner_dict = d_dict([('p', i05), ('q', with_default(d_str(), "'d'"))], name='Dict(p,q=d)')
  inner_obj = d_object('Inner', [('p', i05), ('q', with_default(d_str(), "'d'"))])
  voc = [
      i05,
      d_int(),
      d_float(0.0, 1.0),
      d_str(),
      d_str('^[a-c]+$'),
      d_bool(),
      d_enum(),
      noneable(d_int(0, 5)),
      with_default(d_int(0, 5), '2'),
      frozen(d_int(0, 5), '4'),
      d_list(i05, 1, 2),
      d_list(d_str(), 0, None),
      d_tuple([i05, d_str()]),
      inner_dict,
      d_dict([(('re', '^x.*'), i05), ('k', with_default(d_int(), '0'))], name='Dict(x*,k=0)'),
      inner_obj,
      d_union([i05, d_str('^[a-c]+$')]),
      d_any(),
      d_list(inner_dict, 0, 2),
      d_union([d_bool(), d_list(i05, 0, 1), inner_dict]),
  ]
  if tier != 'quick':
    voc += [
        d_int(-3, -1),
        d_float(),
        noneable(d_str('^[a-c]+$')),
        noneable(d_list(i05, 1, 2)),
        d_list(d_list(i05, 0, 2), 0, 2),
        d_tuple([d_bool()]),
        d_dict([('n', inner_dict), ('m', noneable(d_list(i05, 0, 1)))], name='Dict(n{p,q},m?)'),
        d_enum('b'),
        frozen(d_str(), "'z'"),
        d_list(inner_obj, 0, 2),
    ]
  return voc


# ---------------------------------------------------------------------------
# Subjects: a root value, the typed container `x` under test inside it, and the
# model of both.
# ---------------------------------------------------------------------------

_PRE_ENV = {}


class Subject:
  """How to build the container under test (source), and its model."""

  def __init__(self, kind, setup, root_desc, x_desc, partial=False, scope_partial=False):
    self.kind = kind              # 'list' | 'dict' | 'object'
    self.setup = setup            # source defining `root` and `x`
    self.root_desc, self.x_desc = root_desc, x_desc
    self.partial = partial        # the value was explicitly made partial
    self.scope_partial = scope_partial   # ops run under `with pg.allow_partial(True)`

  @property
  def shared_src(self):
    """Class definitions and the spec `S`: built once, shared between runs
    (a failure is always re-confirmed on a completely fresh build)."""
    pre = self.root_desc.pre
    if not self.setup.startswith(pre):
      return ''
    rest = self.setup[len(pre):]
    if rest.startswith('S='):
      pre += rest.split('\n', 1)[0] + '\n'
    return pre

  def build(self, fresh=False):
    shared = self.shared_src
    if fresh:
      _PRE_ENV.pop(shared, None)
    base = _PRE_ENV.get(shared)
    if base is None:
      base = dict(_ENV)
      base['__specs__'] = {}
      if shared:
        _exec(shared, base)
      if not fresh:
        _PRE_ENV[shared] = base
    env = dict(base)
    _exec(self.setup[len(shared):], env)
    return env

  def forget(self):
    _PRE_ENV.pop(self.shared_src, None)


def _spec_of(desc, env):
  """The real spec for `desc`, used only to re-apply to plain copies."""
  cache = env['__specs__']
  spec = cache.get(desc.src)
  if spec is None:
    spec = cache[desc.src] = _eval(desc.src, env)
  return spec


def _check_real(value, spec, partial):
  """Re-applies the real spec to a plain copy; returns None or a message."""
  objs = []
  try:
    copy = unsym(value, objs)
    applied = spec.apply(copy, allow_partial=partial)
    if _dp(applied) != _dp(value):
      return f'spec maps stored state to a different value: {_dp(applied)!r}'
    for o in objs:
      inner = []
      attrs = {k: unsym(c, inner) for k, c in o.sym_items()}
      applied = type(o).sym_fields.apply(dict(attrs), allow_partial=partial)
      if _dp(applied) != _dp(attrs):
        return f'{type(o).__name__} schema maps stored attributes to {_dp(applied)!r}'
      objs.extend(inner)
  except Exception as e:  # pylint: disable=broad-except
    return f'own spec rejects stored state: {type(e).__name__}: {str(e)[:160]}'
  return None


class Run:
  """One live subject driven through a history of ops."""

  def __init__(self, rec, subject, repeat=True, fresh=False):
    self.rec, self.sub, self.repeat, self.fresh = rec, subject, repeat, fresh
    self.prefix = []
    self.done = []
    self.broken = self.dead = False
    try:
      self.env = subject.build(fresh)
    except Exception as e:  # pylint: disable=broad-except
      # Not even the valid initial value can be built.
      self.env = dict(root=None, x=[] if subject.kind == 'list' else {}, __specs__={})
      self.broken = self.dead = True
      if rec is not None:
        rec.case(f'{subject.kind}.initial-valid-value', subject.setup, False,
                 f'constructing a valid initial value raised {type(e).__name__}: {str(e)[:200]}',
                 'import pyglove as pg\nT=pg.typing;M=pg.MISSING_VALUE\n' + subject.setup)

  @property
  def root(self):
    return self.env['root']

  @property
  def x(self):
    return self.env['x']

  def witness(self, op_src, check):
    s = self.sub
    has_ref = 'pg.Ref(' in op_src or any('pg.Ref(' in p for p in self.prefix)
    lines = ['import pyglove as pg', 'T=pg.typing;M=pg.MISSING_VALUE;Ins=pg.Insertion;NC=dict(raise_on_no_change=False)',
             PLAIN_SRC_REF if has_ref else PLAIN_SRC,
             RUN_SRC_PARTIAL if s.scope_partial else RUN_SRC, self._setup_for(op_src)]
    lines += [f'run({p!r})' for p in self.prefix]
    lines += ['before=plain(root)', f'raised=run({op_src!r})', check]
    w = '\n'.join(lines)
    if len(w) > 1190:       # Recorder keeps 1200 characters: drop the optional blanks of the sources
      w = w.replace(', ', ',').replace(': ', ':').replace('  allow_symbolic_assignment = True\n', '  pass\n')   # (the default)
    return w

  def _setup_for(self, op_src):
    setup = self.sub.setup
    if 'Other(' not in op_src and not any('Other(' in p for p in self.prefix):
      setup = re.sub(r'class \w+Other\(pg\.Object\):\n  pass\n', '', setup)
    return setup

  def room(self):
    """Whether one more step still fits the witness size kept by Recorder."""
    return 640 + len(self.sub.setup) + sum(len(repr(p)) + 6 for p in self.prefix) < 1000

  def invariant(self, target=None, desc=None):
    """None or a message: model + real-spec check of root (or of a result)."""
    s = self.sub
    partial = s.partial or s.scope_partial
    value = self.root if target is None else target
    desc = s.root_desc if desc is None else desc
    img = plain(value)
    if not desc.ok(img, partial) or is_missing(img):
      return f'model of {desc.name} rejects stored state {img!r}'
    spec = _spec_of(desc, self.env)
    return _check_real(value, spec, partial)

  def step(self, op, key):
    """Runs op, judges it, records the case.  Returns (ok, raised)."""
    if self.broken:      # an earlier step of this history failed: state is off
      return False, None
    try:
      return self._step(op, key)
    except Exception as e:  # pylint: disable=broad-except
      # Observation itself blew up (reading the state back, re-applying...).
      self.broken = True
      self.rec.case(op['cid'] + '/observation-error', key, False,
                    f'{op["src"]}: observing the state raised {type(e).__name__}: {str(e)[:200]}',
                    self.witness(op['src'], 'plain(root)'))
      return False, None

  def _step(self, op, key):
    ok, cid, msg, wit, raised = self._judge(op)
    cached = not self.fresh
    if not ok and cached:
      # Class definitions (and the default values inside their specs) are
      # shared between runs of one subject: confirm the failure on freshly
      # built classes so that state leaked by an earlier run cannot cause it.
      self.sub.forget()
      fresh = Run(None, self.sub, repeat=False, fresh=True)
      for o in self.done:
        fresh._judge(o)  # pylint: disable=protected-access
        fresh.prefix.append(o['src'])
      ok, cid, msg, wit, raised = fresh._judge(op)  # pylint: disable=protected-access
      self.env, self.prefix, self.fresh = fresh.env, fresh.prefix, True
    elif cached and any(t in op['src'] for t in ('M', 'Obj()', 'clear()', 'partial(')):
      self.sub.forget()   # spec defaults were (re)applied
    self.rec.case(cid, key, ok, msg, wit)
    self.done.append(op)
    self.broken = not ok
    if ok:
      self.prefix.append(op['src'])
      if op['expect'] == 'reject' and not op.get('_repeat') and self.repeat:
        # A rejection must not make the same write acceptable the next time.
        kindname, _, cls = op['cid'].partition('/')
        again = dict(op, _repeat=True, cid=f'{kindname.split(".")[0]}.repeat-after-rejection/{cls}')
        self.step(again, key + ('again',))
      elif raised is None and not op.get('_repeat') and self.repeat:
        # The schema must still be in force on whatever the accepted call
        # produced or touched: an invalid follow-up write must be rejected.
        for i, src in enumerate(self._probes(op)):
          probe = dict(src=src, cid=op['cid'] + '/then-invalid-write', expect='reject', _repeat=True,
                       why='invalid write after an accepted call')
          if not self.step(probe, key + ('probe', i))[0]:
            break
    return ok and not self.broken, raised

  def _probes(self, op):
    """Invalid writes aimed at the values the schema governs after `op`."""
    out = []
    def on(var, value, desc):
      if isinstance(value, pg.List) and hasattr(desc, 'elem') and desc.elem.invalid:
        if value.value_spec is None and var == 'y':
          return
        bad = desc.elem.invalid[0][1]
        out.append(f'{var}[0]={bad}' if len(value) else f'{var}.rebind({{0:{bad}}})')
      elif isinstance(value, (pg.Dict, pg.Object)) and hasattr(desc, 'fields'):
        if isinstance(value, pg.Dict) and value.value_spec is None and var == 'y':
          return
        if any(isinstance(k, tuple) and k[1] == '^x.*' for k, _ in desc.fields):
          out.append(f'{var}.rebind(y1=1)')
        else:
          out.append(f'{var}.rebind(zz=1)')
        for k, d in desc.fields:
          if isinstance(k, str) and k in ('f', 'l', 'd') and not d.frozen:   # frozen content: own case id
            try:
              child = value.sym_getattr(k)
            except Exception:  # pylint: disable=broad-except
              continue
            on(f'{var}.sym_getattr({k!r})', child, d)
    on('x', self.x, self.sub.x_desc)
    if op.get('result') and self.env.get('y') is not None:
      on('y', self.env['y'], op['result'])
    return out[:3]

  def _judge(self, op):
    """op: dict(src, cid, expect, index_error, batch_ok, result)."""
    s = self.sub
    cid = op['cid']
    before = plain(self.root)
    raised = None
    if op.get('result'):
      self.env.pop('y', None)
    try:
      if s.scope_partial:
        with pg.allow_partial(True):
          _exec(op['src'], self.env)
      else:
        _exec(op['src'], self.env)
    except Exception as e:  # pylint: disable=broad-except
      raised = e
    after = plain(self.root)
    ok, msg, wit = True, '', ''
    allowed = REJECT_CLASSES + ((IndexError,) if op.get('index_error') else ())
    unchanged = after == before or (op.get('batch_ok') is not None and op['batch_ok'](before, after))
    if op['expect'] == 'reject':
      if raised is None:
        res = self.env.get('y') if op.get('result') else None
        if op.get('result') and not (isinstance(res, (pg.List, pg.Dict)) and res.value_spec is not None) \
           and not isinstance(res, pg.Object):
          pass          # result does not carry a schema: nothing to violate
        else:
          shown = plain(res) if op.get('result') else after
          ok, msg = False, f'schema-rejected write accepted ({op["why"]}): {op["src"]} on {before!r} -> {shown!r}'
      elif not isinstance(raised, REJECT_CLASSES):
        ok, msg = False, (f'schema-rejected write ({op["why"]}) raised {type(raised).__name__} instead of '
                          f'TypeError/ValueError/KeyError: {op["src"]} on {before!r}: {raised}')
      elif not unchanged:
        ok, msg = False, (f'rejected write ({op["why"]}, {type(raised).__name__}) changed the state: '
                          f'{op["src"]}: {before!r} -> {after!r}')
      if not ok:
        wit = self.witness(op['src'],
                           'assert isinstance(raised,(TypeError,ValueError,KeyError)),("accepted",raised,plain(root))\n'
                           'assert plain(root)==before,plain(root)')
    else:
      if raised is not None and not isinstance(raised, allowed):
        ok, msg = False, f'{op["src"]} on {before!r} raised {type(raised).__name__}: {raised}'
        wit = self.witness(op['src'], 'assert isinstance(raised,(type(None),TypeError,ValueError,KeyError)),raised')
      elif raised is not None and not unchanged:
        ok, msg = False, f'failed call ({type(raised).__name__}) changed the state: {op["src"]}: {before!r} -> {after!r}'
        wit = self.witness(op['src'], 'assert raised is None or plain(root)==before,(raised,plain(root))')
    if ok:
      bad = self.invariant()
      where = 'root'
      if bad is None and op.get('result') and raised is None:
        res = self.env.get('y')
        rdesc = op['result']
        if isinstance(res, pg.Object) or (isinstance(res, (pg.List, pg.Dict)) and res.value_spec is not None):
          bad = self.invariant(res, rdesc)
          where = 'y'
      if bad is not None:
        ok = False
        cid = cid + '/invariant' if op['expect'] == 'reject' else cid
        msg = f'after {op["src"]} on {before!r}: {bad}'
        tgt = 'root' if where == 'root' else 'y'
        img = plain(self.root if where == 'root' else self.env.get('y'))
        wit = self.witness(op['src'], f'assert repr(plain({tgt}))!={repr(img)!r},"schema-violating state"')
    return ok, cid, msg, wit, raised


# ---------------------------------------------------------------------------
# Typed list: subjects and operations.
# ---------------------------------------------------------------------------

def list_subjects(elem, lo, hi, n0, where='top', partial=False):
  """A typed list with n0 valid elements, stand-alone or as a child."""
  ld = d_list(elem, lo, hi)
  vals = [s for _, s in elem.valid]
  init = '[' + ', '.join((vals * 8)[:n0]) + ']'
  if where == 'top':
    setup = f'{ld.pre}S={ld.src}\nroot=x=pg.List({init},value_spec=S' + (',allow_partial=True)' if partial else ')')
    return Subject('list', setup, ld, ld, partial=partial)
  if where == 'dict':
    rd = d_dict([('l', ld), ('g', with_default(d_int(), '1'))])
    setup = f'{rd.pre}S={rd.src}\nroot=pg.Dict({{"l":{init}}},value_spec=S)\nx=root.l'
    return Subject('list', setup, rd, ld)
  if where == 'object':
    rd = d_object('Holder', [('l', ld), ('g', with_default(d_int(), '1'))])
    setup = f'{rd.pre}root=Holder(l={init})\nx=root.l'
    return Subject('list', setup, rd, ld)
  if where == 'list':
    rd = d_list(ld, 0, None)
    setup = f'{rd.pre}S={rd.src}\nroot=pg.List([{init}],value_spec=S)\nx=root[0]'
    return Subject('list', setup, rd, ld)
  raise ValueError(where)


def _subseq(a, b):
  it = iter(b)
  return all(any(x == y for y in it) for x in a)


def _edit_distance(a, b):
  prev = list(range(len(b) + 1))
  for i, x in enumerate(a, 1):
    cur = [i]
    for j, y in enumerate(b, 1):
      cur.append(min(prev[j] + 1, cur[j - 1] + 1, prev[j - 1] + (0 if x == y else 1)))
    prev = cur
  return prev[-1]


def _list_batch_ok(n_valid):
  """A failed batch may have applied some of its n_valid valid elements: each
  applied element replaces or inserts one item."""
  def g(xb, xa):
    return len(xa) >= len(xb) - n_valid and _edit_distance(xb, xa) <= n_valid
  return g


def list_ops(sub, n, elem_samples):
  """All list write paths for current length n.

  elem_samples: [(label, src, is_valid)] for the element spec.
  Returns op dicts; `expect` is derived from the model (size bounds + element).
  """
  ld = sub.x_desc
  lo, hi = ld.lo, ld.hi
  ops = []
  kindname = 'list[partial]' if sub.partial else 'list'

  def add(name, src, new_len, vals=(), batch=False, index_error=False, result=None, delete=False):
    """vals: [(label, src, valid)] written by the op."""
    if sub.partial and delete and name in _MISSING_DELETES:
      name = 'delete-via-MISSING'      # one mechanism in a partial list
    why = None
    bad = [lab for lab, _, v in vals if not v]
    if bad:
      why, cls = f'invalid element ({bad[0]})', 'invalid-element'
    elif new_len is not None and hi is not None and new_len > hi and not delete:
      why, cls = f'size {new_len} > max_size {hi}', 'above-max-size'
    elif new_len is not None and new_len < lo:
      why, cls = f'size {new_len} < min_size {lo}', 'below-min-size'
    else:
      cls = 'valid'
    op = dict(src=src, cid=f'{kindname}.{name}/{cls}', expect='reject' if why else 'any', why=why,
              index_error=index_error, result=result)
    if bad and 'symbolic-partial' in bad[0]:
      op['cid'] = f'{kindname}.write/partial-symbolic-value-into-non-partial'   # one input class, any path
    if bad and 'symbolic-wider-spec' in bad[0]:
      op['cid'] = f'{kindname}.write/symbolic-value-typed-with-wider-spec'       # one input class, any path
    if bad and bad[0].startswith(_CARRIED):
      op['cid'] = f'{kindname}.write/{_carried_class(bad[0])}'                   # one input class, any path
    if batch:
      g = _list_batch_ok(sum(1 for _, _, v in vals if v))
      op['batch_ok'] = lambda b, a, g=g: _on_x(sub, b, a, g)
    ops.append(op)

  e1 = elem_samples
  valid_srcs = [s for _, s, v in elem_samples if v]
  v0 = ('valid', valid_srcs[0], True)
  for lab, s, v in e1:
    t = (lab, s, v)
    add('append', f'x.append({s})', n + 1, [t])
    add('insert', f'x.insert(0,{s})', n + 1, [t])
    add('insert', f'x.insert({n},{s})', n + 1, [t])
    add('extend', f'x.extend([{s}])', n + 1, [t], batch=True)
    add('extend', f'x.extend([{v0[1]},{s}])', n + 2, [v0, t], batch=True)
    add('iadd', f'x+=[{s}]', n + 1, [t], batch=True)
    add('iadd', f'x+=({v0[1]},{s})', n + 2, [v0, t], batch=True)
    add('rebind-grow', f'x.rebind({{{n + 3}:{s}}})', n + 1, [t])
    add('rebind-grow', f'x.rebind({{0:Ins({s})}})', n + 1, [t])
    add('rebind-grow', f'x.rebind({{{n}:Ins({s})}})', n + 1, [t])
    add('setitem-slice-grow', f'x[{n}:{n}]=[{s}]', n + 1, [t], batch=True)
    add('setitem-slice-grow', f'x[0:0]=[{v0[1]},{s}]', n + 2, [v0, t], batch=True)
    add('add', f'y=x+[{s}]', n + 1, [t], result=ld)
    add('use_value_spec', 'y=pg.List(list(x.sym_values())+[' + s + ']).use_value_spec(x.value_spec' + (',True)' if sub.partial else ')'),
        n + 1, [t], result=ld)
    add('rebinder', f'x.rebind(lambda k,v:({s}) if k.key=={max(n - 1, 0)} else v,**NC)', n, [t] if n else [])
    add('ctor', 'y=pg.List(list(x.sym_values())+[' + s + '],value_spec=x.value_spec)', n + 1, [t], result=ld)
    if n >= 1:
      add('setitem', f'x[0]={s}', n, [t])
      add('setitem', f'x[-1]={s}', n, [t])
      add('rebind-replace', f'x.rebind({{{n - 1}:{s}}})', n, [t])
      add('rebind-replace', f'x.rebind({{"[0]":{s}}})', n, [t])
      add('setitem-slice-same', f'x[0:1]=[{s}]', n, [t], batch=True)
      add('setitem-slice-grow', f'x[0:1]=[{s},{v0[1]}]', n + 1, [t, v0], batch=True)
      add('setitem-slice-grow', f'x[-1:]=[{v0[1]},{v0[1]},{s}]', n + 2, [v0, v0, t], batch=True)
      add('setitem-slice-step', f'x[::2]=[{s}]*len(x[::2])', n, [t], batch=True)
      add('rebind-grow', f'x.rebind({{0:{v0[1]},{n + 1}:{s}}})', n + 1, [v0, t], batch=True)
    if n >= 2:
      add('setitem-slice-shrink', f'x[0:2]=[{s}]', n - 1, [t], batch=True)
      add('rebind-multi', f'x.rebind({{0:{s},1:{v0[1]}}})', n, [t, v0], batch=True)
      add('rebind-multi', f'x.rebind({{0:Ins({s}),{n - 1}:M}})', n, [t, ('delete', 'M', True)], batch=True)
  # size-only operations
  add('append-MISSING', 'x.append(M)', n)
  add('copy', 'y=x.copy()', n, result=ld)
  add('clone', 'y=x.clone()', n, result=ld)
  add('clone', 'y=x.clone(deep=True)', n, result=ld)
  add('clone', 'y=__import__("copy").deepcopy(x)', n, result=ld)
  add('clone', 'y=__import__("copy").copy(x)', n, result=ld)
  add('clone-override', f'y=x.clone(override={{{n + 1}:{v0[1]}}})', n + 1, result=ld)
  for k in (0, 1, 2, 3):
    add('imul', f'x*={k}', n * k, [('copy', '', True)] * (n * max(k - 1, 0)), delete=(k == 0), batch=True)
    add('mul', f'y=x*{k}', n * k, result=ld, delete=(k == 0))
    add('rmul', f'y={k}*x', n * k, result=ld, delete=(k == 0))
  add('add', 'y=x+[]', n, result=ld)
  add('add', 'y=x+x', 2 * n, result=ld)
  add('iadd', 'x+=x', 2 * n)
  add('extend', 'x.extend(x)', 2 * n)
  add('extend', 'x.extend([])', n)
  add('clear', 'x.clear()', 0, delete=True)
  add('sort', 'x.sort(key=repr)', n)
  add('reverse', 'x.reverse()', n)
  add('setitem-slice-clear', 'x[:]=[]', 0, [('delete', 'M', True)] * n, delete=True, batch=True)
  add('pop', 'x.pop()', n - 1 if n else None, delete=True, index_error=(n == 0))
  add('pop', 'x.pop(0)', n - 1 if n else None, delete=True, index_error=(n == 0))
  add('delitem', 'del x[0]', n - 1 if n else None, delete=True, index_error=(n == 0))
  add('delitem', 'del x[-1]', n - 1 if n else None, delete=True, index_error=(n == 0))
  add('delitem-slice', 'del x[0:1]', max(n - 1, 0), delete=True)
  add('delitem-slice', 'del x[:]', 0, [('delete', 'M', True)] * n, delete=True, batch=True)
  add('setitem-MISSING', 'x[0]=M', n - 1 if n else None, delete=True, index_error=(n == 0))
  add('rebind-delete', 'x.rebind({0:M},**NC)', max(n - 1, 0), delete=True)
  add('rebind-delete', f'x.rebind({{{n - 1 if n else 0}:M}},**NC)', max(n - 1, 0), delete=True)
  if n >= 1:
    add('remove', 'x.remove(x[0])', n - 1, delete=True)
    add('setitem-slice-delete', 'x[0:1]=[]', n - 1, delete=True, batch=True)
    add('setitem-slice-delete', 'x[-1:]=[]', n - 1, delete=True, batch=True)
  if n >= 2:
    add('rebind-multi-delete', f'x.rebind({{0:M,{n - 1}:M}})', n - 2, [('delete', 'M', True)] * 2, delete=True, batch=True)
    add('delitem-slice', 'del x[::2]', n - len(range(0, n, 2)), [('delete', 'M', True)] * len(range(0, n, 2)), delete=True, batch=True)
  return ops


def _classes(sub):
  env = {}
  if sub.root_desc.pre:
    env = sub.build()
  return {k: v for k, v in env.items() if isinstance(v, type)}


def _x_image(sub, root_img):
  """Image of x inside the image of root (from the subject's setup)."""
  m = re.search(r'\nx=root((?:\.\w+|\[\d+\])*)$', sub.setup)
  if m is None or 'root=x=' in sub.setup:
    return root_img
  img = root_img
  for name, idx in re.findall(r'\.(\w+)|\[(\d+)\]', m.group(1)):
    if isinstance(img, tuple) and len(img) == 2 and isinstance(img[1], dict):
      img = img[1]          # image of a pg.Object: (class name, attributes)
    img = img[name] if name else img[int(idx)]
  return img


def _on_x(sub, before, after, g):
  try:
    return g(_x_image(sub, before), _x_image(sub, after))
  except Exception:  # pylint: disable=broad-except
    return False


def _elem_samples(elem, partial=False):
  """[(label, source, valid)]; a value that merely lacks required members is
  acceptable when the container was explicitly made partial."""
  return ([(lab, s, True) for lab, s in elem.valid]
          + [(lab, s, partial and 'missing-required' in lab) for lab, s in elem.invalid])


_SIZE_CONFIGS = [(0, None, 1), (1, 3, 2), (2, 2, 2), (0, 2, 0), (1, 3, 3), (1, 3, 1), (0, 1, 1)]


def drv_list_writes(tier, seed):
  """Every list write path x element spec x size bounds x valid/invalid value."""
  del seed
  voc = vocabulary(tier)
  rec = Recorder(
      'C03', 'typed pg.List: every write path x spec vocabulary',
      scope=f'{len(voc)} element specs x size bounds {[(a, b) for a, b, _ in _SIZE_CONFIGS]} (at/below/above each bound) x '
            'all list write paths (ctor, append, insert, extend, +=, *=, item/slice assignment, pop, del, remove, clear, '
            'rebind replace/append/insert/delete/multi, +, *, copy, clone) x every valid and invalid sample of the element '
            'spec (plain, symbolic untyped, symbolic with same/other spec, partial); list stand-alone, explicitly partial, '
            'and as child of a typed Dict / Object / List; single steps from a valid state, each rejected write repeated, '
            'each accepted call followed by an invalid probe write')
  for ei, elem in enumerate(voc):
    samples = _elem_samples(elem)
    if elem.frozen:
      continue
    for ci, (lo, hi, n0) in enumerate(_SIZE_CONFIGS):
      with_partial = ci in (1, 5) and bool(getattr(elem, 'fields', None)) and not hasattr(elem, 'cls_name')
      if tier == 'quick' and ei >= 3 and ci not in (1, 2) and not with_partial:
        continue
      wheres = ['top']
      if ci in (1, 2) and (tier != 'quick' or ei in (0, 10, 13)):
        wheres += ['dict', 'object', 'list']
      if with_partial:
        wheres.append('top-partial')
      for where in wheres:
        is_partial = where == 'top-partial'
        sub = list_subjects(elem, lo, hi, n0, 'top' if is_partial else where, partial=is_partial)
        samples = _elem_samples(elem, is_partial)
        probe = Run(rec, sub)
        if probe.dead:
          continue
        n = len(probe.x)
        for op in list_ops(sub, n, samples):
          r = Run(rec, sub)
          r.step(op, (elem.name, lo, hi, n0, where, op['src']))
  return rec.result()


def drv_list_histories(tier, seed):
  """Histories over the list write paths (sizes walk across both bounds)."""
  rec = Recorder(
      'C03', 'typed pg.List: mutation histories',
      scope='element specs Int[0,5], Dict(p,q=d), List(Int,1,2); bounds (1,3) and (0,2); all histories of length 2 over '
            'a 40-op alphabet of valid/invalid writes and removals; seeded random histories of length <=10; '
            'invariant and rejected-write-unchanged checked after every step')
  i05 = d_int(0, 5)
  elems = [i05, d_dict([('p', i05), ('q', with_default(d_str(), "'d'"))], name='Dict(p,q=d)'), d_list(i05, 1, 2)]
  rnd = rng(seed, 'c03-list-hist')
  for elem in elems:
    samples = [(lab, s, True) for lab, s in elem.valid[:2]] + [(lab, s, False) for lab, s in elem.invalid[:2]]
    for lo, hi, n0 in ((1, 3, 2), (0, 2, 1)):
      for where in (('top', 'object') if elem is i05 else ('top',)):
        sub = list_subjects(elem, lo, hi, n0, where)
        if Run(rec, sub).dead:
          continue
        # exhaustive length 2 over a reduced alphabet
        pick = lambda ops: [o for o in ops if o['cid'].split('/')[0] in _HIST_OPS]
        first = pick(list_ops(sub, n0, samples))
        seen = set()
        first = [o for o in first if not (o['src'] in seen or seen.add(o['src']))]
        if tier == 'quick':
          first = first[::2]
        for i, op1 in enumerate(first):
          r = Run(rec, sub)
          r.step(op1, (elem.name, lo, hi, where, op1['src']))
          n = len(r.x)
          second = pick(list_ops(sub, n, samples))
          if tier == 'quick':
            second = second[(i % 3)::3]
          for op2 in second:
            r2 = Run(rec, sub)
            ok, _ = r2.step(op1, (elem.name, lo, hi, where, op1['src']))
            r2.step(op2, (elem.name, lo, hi, where, op1['src'], op2['src']))
        # random long histories
        for h in range(30 if tier == 'quick' else 600):
          r = Run(rec, sub)
          for j in range(rnd.randint(3, 10)):
            ops = list_ops(sub, len(r.x), samples)
            op = rnd.choice(ops)
            if len(r.x) > 12 and ('*' in op['src'] or 'x+=x' in op['src'] or 'extend(x)' in op['src']):
              continue
            ok, _ = r.step(op, ('rand', elem.name, lo, hi, where, seed, h, j))
            if not ok or not r.room():
              break
  return rec.result()


_CARRIED = ('pretyped:', 'ref-to:')     # labels of drv_pretyped_values / drv_ref_values samples


def _carried_class(label):
  """Case-id class of such a sample: how the value's own claim relates to the
  location's spec / what is referenced; where in the value it sits (@member,
  @nested, /in-plain-<container>) is the same mechanism and stays in the message."""
  return label.split('/')[0].split('@')[0]


_MISSING_DELETES = {'setitem-MISSING', 'rebind-delete', 'rebind-multi-delete', 'setitem-slice-delete',
                    'setitem-slice-clear', 'setitem-slice-shrink', 'delitem-slice'}

_HIST_OPS = {'list.append', 'list.insert', 'list.extend', 'list.iadd', 'list.imul', 'list.setitem', 'list.pop',
             'list.delitem', 'list.delitem-slice', 'list.remove', 'list.clear', 'list.rebind-grow', 'list.rebind-delete', 'list.rebind-replace', 'list.setitem-slice-grow',
             'list.setitem-slice-shrink', 'list.setitem-slice-delete',
             'list.setitem-MISSING', 'list.rebind-multi', 'list.rebind-multi-delete'}


# ---------------------------------------------------------------------------
# Typed dict / object: subjects and operations.
# ---------------------------------------------------------------------------

def _dict_schema(fd):
  """Schema used for dict/object subjects: field f under test + fixed others."""
  return [('f', fd), ('g', with_default(d_int(), '1')), ('h', frozen(d_int(0, 9), '7')),
          ('r', d_int(0, 5)), (('re', '^x.*'), d_int(0, 5))]


def _slim_schema(fd):
  """f under test, the batch partner g and the required r: nothing else."""
  return [('f', fd), ('g', with_default(d_int(), '1')), ('r', d_int(0, 5))]


def dict_subject(fd, where='top', mode='full', schema=_dict_schema):
  """mode: full | partial (f and r missing) | scope (ops under allow_partial)."""
  fields = schema(fd)
  dd = d_dict(fields, name=f'Dict(f:{fd.name},g=1,h!7,r,x*)' if schema is _dict_schema else f'Dict(f:{fd.name},g=1,r)')
  if fd.frozen:
    init_items = '"r":1'
  else:
    init_items = f'"f":{fd.valid[0][1]},"r":1'
  partial = mode == 'partial'
  if partial:
    init_items = ''
  init = '{' + init_items + '}'
  if where == 'top':
    setup = f'{dd.pre}S={dd.src}\nroot=x=pg.Dict({init},value_spec=S' + (',allow_partial=True)' if partial else ')')
    return Subject('dict', setup, dd, dd, partial=partial, scope_partial=(mode == 'scope'))
  if where == 'list':
    rd = d_list(dd, 0, None)
    setup = f'{rd.pre}S={rd.src}\nroot=pg.List([{init}],value_spec=S' + (',allow_partial=True)' if partial else ')') + '\nx=root[0]'
    return Subject('dict', setup, rd, dd, partial=partial, scope_partial=(mode == 'scope'))
  if where == 'object':
    rd = d_object('Holder', [('d', dd)])
    setup = f'{rd.pre}root=Holder' + ('.partial' if partial else '') + f'(d={init})\nx=root.d'
    return Subject('dict', setup, rd, dd, partial=partial, scope_partial=(mode == 'scope'))
  raise ValueError(where)


def object_subject(fd, where='top', mode='full', schema=_dict_schema):
  fields = [(k, d) for k, d in schema(fd) if not isinstance(k, tuple)]
  od = d_object('Obj', fields)
  partial = mode == 'partial'
  if partial:
    args = ''
  elif fd.frozen:
    args = 'r=1'
  else:
    args = f'f={fd.valid[0][1]},r=1'
  ctor = 'Obj.partial' if partial else 'Obj'
  if where == 'top':
    return Subject('object', f'{od.pre}root=x={ctor}({args})', od, od, partial=partial, scope_partial=(mode == 'scope'))
  if where == 'list':
    rd = d_list(od, 0, None)
    setup = f'{rd.pre}S={rd.src}\nroot=pg.List([{ctor}({args})],value_spec=S' + (',allow_partial=True)' if partial else ')') + '\nx=root[0]'
    return Subject('object', setup, rd, od, partial=partial, scope_partial=(mode == 'scope'))
  raise ValueError(where)


def _dict_batch_ok(keys_valid):
  """keys_valid: {key: plain valid value} that a batch may already have applied."""
  def g(xb, xa):
    xb = xb[1] if isinstance(xb, tuple) else xb
    xa = xa[1] if isinstance(xa, tuple) else xa
    if set(xa) - set(xb) - set(keys_valid):
      return False
    for k in set(xa) | set(xb):
      if xa.get(k, M) == xb.get(k, M):
        continue
      if k in keys_valid and (xa.get(k, M) == keys_valid[k] or keys_valid[k] is _ANY):
        continue
      return False
    return True
  return g


_ANY = object()


class _OpList:
  """Builds op dicts for a dict/object subject: `add` one op, `paths` every
  single-location write path for (key, value source)."""

  def __init__(self, sub, img, ops, partner=('g', '2', 2)):
    self.sub, self.kind, self.img, self.ops = sub, sub.kind, img, ops
    self.partner = partner      # (key, source, value): a valid write batched with the one under test

  def add(self, name, src, cls, why=None, batch=None, result=None):
    sub, kind = self.sub, self.kind
    op = dict(src=src, cid=f'{kind}.{name}/{cls}', expect='reject' if why else 'any', why=why, result=result)
    if why and 'symbolic-partial' in why:
      op['cid'] = f'{kind}.write/partial-symbolic-value-into-non-partial'   # one input class, any path
    if why and 'symbolic-wider-spec' in why:
      op['cid'] = f'{kind}.write/symbolic-value-typed-with-wider-spec'       # one input class, any path
    m = re.search(r'\(((?:pretyped:|ref-to:)[^()]*)\)$', why or '')
    if m:
      op['cid'] = f'{kind}.write/{_carried_class(m.group(1))}'               # one input class, any path
    if batch is not None:
      g = _dict_batch_ok(batch)
      op['batch_ok'] = lambda b, a, g=g: _on_x(sub, b, a, g)
    self.ops.append(op)

  def paths(self, key, s, cls, why, tag=''):
    """Every single-location write path for (key, value source)."""
    add, kind, sub, img = self.add, self.kind, self.sub, self.img
    ident = isinstance(key, str) and key.isidentifier()
    if kind == 'dict':
      add('setitem' + tag, f'x[{key!r}]={s}', cls, why)
      add('update' + tag, f'x.update({{{key!r}:{s}}})', cls, why)
      add('update-pairs' + tag, f'x.update([({key!r},{s})])', cls, why)
      add('ior' + tag, f'x|={{{key!r}:{s}}}', cls, why)
      if ident:
        add('setattr' + tag, f'x.{key}={s}', cls, why)
        add('update-kwargs' + tag, f'x.update({key}={s})', cls, why)
    else:
      if ident:
        add('setattr' + tag, f'x.{key}={s}', cls, why)
      add('sym_init_args-setitem' + tag, f'x.sym_init_args[{key!r}]={s}', cls, why)
      add('sym_init_args-ior' + tag, f'x.sym_init_args.__ior__({{{key!r}:{s}}})', cls, why)
      add('sym_init_args-update' + tag, f'x.sym_init_args.update({{{key!r}:{s}}})', cls, why)
    add('rebind' + tag, f'x.rebind({{{key!r}:{s}}},**NC)', cls, why)
    if ident:
      add('rebind-kwargs' + tag, f'x.rebind({key}={s},**NC)', cls, why)
    add('rebinder' + tag, f'x.rebind(lambda k,v:({s}) if k.key=={key!r} and len(k)==len(x.sym_path)+1 else v,**NC)',
        cls if key in img else 'absent-key-no-op', why if key in img else None)
    add('clone-override' + tag, f'y=x.clone(override={{{key!r}:{s}}})', cls, why, result=sub.x_desc)
    add('clone-override' + tag, f'y=x.clone(deep=True,override={{{key!r}:{s}}})', cls, why, result=sub.x_desc)
    # batches: a valid write to the partner key first / after
    pk, ps, pv = self.partner
    if pk == key:
      return
    vg = {pk: pv}
    if kind == 'dict':
      add('update-multi' + tag, f'x.update({{"{pk}":{ps},{key!r}:{s}}})', cls, why, batch=vg)
      add('update-multi' + tag, f'x.update({{{key!r}:{s},"{pk}":{ps}}})', cls, why, batch=vg)
      add('ior-multi' + tag, f'x|={{"{pk}":{ps},{key!r}:{s}}}', cls, why, batch=vg)
    add('rebind-multi' + tag, f'x.rebind({{"{pk}":{ps},{key!r}:{s}}},**NC)', cls, why, batch=vg)
    add('rebind-multi' + tag, f'x.rebind({{{key!r}:{s},"{pk}":{ps}}},**NC)', cls, why, batch=vg)


def _value_class(lab):
  """Input class of an invalid sample, for case ids (fine mode)."""
  if lab.startswith('frozen-other-value') or lab == 'None':
    return 'invalid-value:' + lab
  return 'invalid-value'


def dict_ops(sub, fd, present, focus=False, fine=False, partner=None):
  """All dict/object write paths aimed at field `f` (spec fd) and friends.

  present: plain image of x before (to know what is missing / present).
  focus: only the operations that involve field f.
  fine: the class of an invalid value (None / frozen-other-value / other) is
    part of the case id.
  """
  kind = sub.kind
  partial = sub.partial or sub.scope_partial
  ops = []
  img = present[1] if isinstance(present, tuple) else present

  b = _OpList(sub, img, ops, partner=partner or ('g', '2', 2))
  add, paths = b.add, b.paths

  # 1. field f: valid and invalid values (a value that merely lacks required
  # members is acceptable when partial values are allowed)
  f_valid = list(fd.valid) + ([t for t in fd.invalid if 'missing-required' in t[0]] if partial else [])
  f_invalid = [t for t in fd.invalid if t not in f_valid]
  for lab, s in f_valid:
    paths('f', s, 'valid-value', None)
  for lab, s in f_invalid:
    paths('f', s, _value_class(lab) if fine else 'invalid-value', f'invalid value for f ({lab})')
  # 2. constructor / from_json / nested paths
  req_r = '"r":1'
  for lab, s, valid in [(l, s, True) for l, s in f_valid] + [(l, s, False) for l, s in f_invalid]:
    cls, why = ('valid-value', None) if valid else (_value_class(lab) if fine else 'invalid-value',
                                                    f'invalid value for f ({lab})')
    pcls, pwhy = (cls, why) if 'missing-required' not in lab else ('valid-value', None)
    if kind == 'dict':
      add('ctor', f'y=pg.Dict({{"f":{s},{req_r}}},value_spec=x.value_spec)', cls, why, result=sub.x_desc)
      add('ctor-kwargs', f'y=pg.Dict(f={s},r=1,value_spec=x.value_spec)', cls, why, result=sub.x_desc)
      add('ctor-partial', f'y=pg.Dict.partial({{"f":{s}}},value_spec=x.value_spec)', pcls, pwhy, result=_PARTIAL)
      add('use_value_spec', f'y=pg.Dict({{"f":{s},{req_r}}}).use_value_spec(x.value_spec)', cls, why, result=sub.x_desc)
    else:
      add('ctor', f'y=Obj(f={s},r=1)', cls, why, result=sub.x_desc)
      add('ctor-positional', f'y=Obj({s},r=1)' if not fd.frozen else f'y=Obj(r=1,f={s})', cls, why, result=sub.x_desc)
      add('ctor-partial', f'y=Obj.partial(f={s})', pcls, pwhy, result=_PARTIAL)
      add('from_json', f'y=pg.from_json({{"_type":Obj.__type_name__,"f":pg.to_json({s}),"r":1}})', cls,
          why if not _json_lossy(s) else None, result=sub.x_desc)
  # 3. MISSING / deletion of f, g (default), r (required), h (frozen)
  def removal(key, d):
    if d.frozen or d.has_default or partial:
      return 'valid-removal', None
    return 'required-removal', f'{key} is required (no default, not partial)'
  for key, d in (('f', fd), ('g', None), ('r', None), ('h', None))[:1 if focus else 4]:
    d = d or dict((k, dd) for k, dd in sub.x_desc.fields if not isinstance(k, tuple))[key]
    cls, why = removal(key, d)
    paths(key, 'M', cls, why, tag='-MISSING')
    if kind == 'dict':
      add('delitem', f'del x[{key!r}]', cls, why)
      add('delattr', f'del x.{key}', cls, why)
      add('pop', f'x.pop({key!r})', cls, why)
      add('pop', f'x.pop({key!r},None)', cls, why)
  # 4. other fields: frozen h, required r, undeclared, dynamic, non-str keys
  others = not focus
  if others:
    paths('h', '7', 'frozen-same-value', None)
    paths('h', '8', 'frozen-other-value', 'h is frozen at 7')
    paths('r', '5', 'valid-value', None)
    paths('r', '6', 'invalid-value', 'r: 6 > max 5')
    paths('zz', '1', 'undeclared-key', 'zz is not declared')
  if kind == 'object':
    # `obj.zz = 1` on an undeclared name is an ordinary Python attribute, not a
    # write into the schema-governed state: only the generic checks apply.
    for o in ops:
      if o['src'] == 'x.zz=1':
        o.update(expect='any', why=None, cid='object.setattr/undeclared-name-plain-attribute')
  if kind == 'dict':
    if others:
      paths('x1', '5', 'dynamic-key-valid', None)
      paths('x1', '6', 'dynamic-key-invalid-value', 'x*: 6 > max 5')
      paths('y1', '1', 'undeclared-key', 'y1 matches no key spec')
      add('setitem', 'x[1]=1', 'non-str-key', 'int key is not declared')
      add('ctor', 'y=pg.Dict({"f":1,"r":1,"zz":1},value_spec=x.value_spec)' if not fd.frozen else
          'y=pg.Dict({"r":1,"zz":1},value_spec=x.value_spec)', 'undeclared-key', 'zz is not declared', result=sub.x_desc)
      add('setdefault', 'x.setdefault("zz",1)', 'undeclared-key', 'zz is not declared')
      add('setdefault', 'x.setdefault("x2",6)', 'dynamic-key-invalid-value', 'x*: 6 > max 5')
      add('setdefault', 'x.setdefault("x2",5)', 'dynamic-key-valid')
      add('setdefault', 'x.setdefault("r",6)', 'invalid-value' if is_missing(img.get('r', M)) else 'present-key',
          'r: 6 > max 5' if is_missing(img.get('r', M)) else None)
    for lab, s in fd.invalid[:3]:
      miss = is_missing(img.get('f', M))
      add('setdefault', f'x.setdefault("f",{s})', 'invalid-value' if miss else 'present-key',
          f'invalid value for f ({lab})' if miss else None)
    if 'x1' in img:
      add('delitem', 'del x["x1"]', 'dynamic-key-removal')
      add('pop', 'x.pop("x1")', 'dynamic-key-removal')
      add('setitem-MISSING', 'x["x1"]=M', 'dynamic-key-removal')
    add('popitem', 'x.popitem()', 'typed')
    all_default = all(d.has_default or d.frozen for k, d in sub.x_desc.fields if not isinstance(k, tuple))
    add('clear', 'x.clear()', ('valid:container-default-of-noneable-or-union-spec' if getattr(fd, 'fragile_default', False)
                               else 'valid') if (all_default or partial) else 'required-field',
        None if (all_default or partial) else 'required fields have no default')
    add('copy', 'y=x.copy()', 'valid', result=sub.x_desc)
  elif others:
    add('ctor', 'y=Obj(r=1,zz=1' + ('' if fd.frozen else f',f={fd.valid[0][1]}') + ')', 'undeclared-key', 'zz is not declared', result=sub.x_desc)
    add('ctor', 'y=Obj()', 'valid' if sub.scope_partial else 'missing-required',
        None if sub.scope_partial else 'r is required', result=sub.x_desc)
    add('ctor-partial', 'y=Obj.partial()', 'valid', result=_PARTIAL)
  add('clone', 'y=x.clone()', 'valid', result=sub.x_desc)
  add('clone', 'y=x.clone(deep=True)', 'valid', result=sub.x_desc)
  add('clone', 'y=__import__("copy").deepcopy(x)', 'valid', result=sub.x_desc)
  # 5. nested paths when f is a container
  f_now = img.get('f', M)
  if fd.frozen:
    # Writes into the content of a frozen container field: whatever changes the
    # content makes the field differ from its frozen value.
    why = 'f is frozen'
    fkind = 'list' if hasattr(fd, 'elem') else 'object' if hasattr(fd, 'cls_name') else 'dict'
    cw = lambda name, src: add('child-write', src, f'frozen-{fkind}-field', why + ', ' + name)
    if hasattr(fd, 'elem') and isinstance(f_now, list):
      other = [s for _, s in fd.elem.valid if not (f_now and _same_value(s, repr(f_now[0]), fd.pre))][0]
      cw('child-append', f'x.f.append({other})')
      cw('child-iadd', f'x.f.__iadd__([{other}])')
      cw('child-insert', f'x.f.insert(0,{other})')
      cw('rebind-path', f'x.rebind({{"f[{len(f_now)}]":{other}}})')
      if f_now:
        cw('child-setitem', f'x.f[0]={other}')
        cw('rebind-path', f'x.rebind({{"f[0]":{other}}})')
        cw('child-delitem', 'del x.f[0]')
        cw('child-pop', 'x.f.pop()')
        cw('child-clear', 'x.f.clear()')
    elif hasattr(fd, 'fields') and isinstance(f_now, (dict, tuple)) and fd.name.startswith(('Dict(p', 'Object(Inner')):
      cur = f_now[1] if isinstance(f_now, tuple) else f_now
      other = '4' if cur.get('p') != 4 else '5'
      cw('rebind-path', f'x.rebind({{"f.p":{other}}})')
      cw('child-rebind', f'x.f.rebind(p={other})')
      cw('child-rebind', 'x.f.rebind(q="e")')
      cw('child-setattr', f'x.f.p={other}')
      if isinstance(f_now, dict):
        cw('child-setitem', f'x.f["p"]={other}')
        cw('child-update', f'x.f.update(p={other})')
        cw('child-ior', f'x.f.__ior__({{"p":{other}}})')
        cw('child-clear', 'x.f.clear()')
  elif hasattr(fd, 'elem') and isinstance(f_now, list) and f_now:
    e = fd.elem
    for lab, s in e.invalid[:3]:
      why = f'invalid element ({lab})'
      add('rebind-path', f'x.rebind({{"f[0]":{s}}})', 'invalid-element', why)
      add('child-append', f'x.f.append({s})', 'invalid-element', why)
      add('child-iadd', f'x.f.__iadd__([{s}])', 'invalid-element', why)
      add('child-setitem', f'x.f[0]={s}', 'invalid-element', why)
    for lab, s in e.valid[:1]:
      add('rebind-path', f'x.rebind({{"f[0]":{s}}},**NC)', 'valid-element')
  elif hasattr(fd, 'fields') and isinstance(f_now, dict) and fd.name.startswith('Dict(p'):
    add('rebind-path', 'x.rebind({"f.p":9})', 'invalid-member', 'p: 9 > max 5')
    add('rebind-path', 'x.rebind({"f.zz":1})', 'undeclared-key', 'zz not declared in f')
    add('child-setitem', 'x.f["p"]=9', 'invalid-member', 'p: 9 > max 5')
    add('child-ior', 'x.f.__ior__({"p":9})', 'invalid-member', 'p: 9 > max 5')
    add('child-delitem', 'del x.f["p"]', 'required-removal' if not partial else 'valid-removal',
        None if partial else 'p is required')
    add('rebind-path', 'x.rebind({"f.p":5})', 'valid-member')
  elif hasattr(fd, 'fields') and isinstance(f_now, tuple) and fd.name.startswith('Object(Inner'):
    add('rebind-path', 'x.rebind({"f.p":9})', 'invalid-member', 'p: 9 > max 5')
    add('rebind-path', 'x.rebind({"f.zz":1})', 'undeclared-key', 'zz not declared in f')
    add('child-rebind', 'x.f.rebind(p=9)', 'invalid-member', 'p: 9 > max 5')
    add('child-setattr', 'x.f.p=9', 'invalid-member', 'p: 9 > max 5')
    add('child-rebind', 'x.f.rebind(p=M)', 'required-removal' if not partial else 'valid-removal',
        None if partial else 'p is required')
    add('rebind-path', 'x.rebind({"f.p":5})', 'valid-member')
  return ops


class _Partial:
  pass


_PARTIAL = _Partial()


def _json_lossy(s):
  return '(' in s and 'Inner(' not in s   # tuples do not survive pg.to_json -> value is not the sample


def _run_dict_like(rec, sub, fd, key, repeat=True, ops_filter=None, **opts):
  probe = Run(rec, sub)
  if probe.dead:
    return
  present = plain(probe.x)
  ops = dict_ops(sub, fd, present, **opts)
  if ops_filter is not None:
    ops = ops_filter(ops)
  for op in ops:
    if op.get('result') is _PARTIAL:
      # result is an explicitly partial value: check it against a partial model
      psub = Subject(sub.kind, sub.setup, sub.root_desc, sub.x_desc, partial=True)
      op = dict(op, result=sub.x_desc)
      r = Run(rec, sub, repeat=repeat)
      r.sub = sub
      ok, raised = _step_partial_result(r, op, key + (op['src'],))
      del psub
      continue
    r = Run(rec, sub, repeat=repeat)
    r.step(op, key + (op['src'],))


def _step_partial_result(run, op, key):
  """Like Run.step but the result `y` is judged as an explicitly partial value."""
  orig = run.invariant
  def inv(target=None, desc=None):
    if target is None:
      return orig()
    s = run.sub
    img = plain(target)
    if not desc.ok(img, True):
      return f'model of {desc.name} rejects stored partial state {img!r}'
    return _check_real(target, _spec_of(desc, run.env), True)
  run.invariant = inv
  return run.step(op, key)


def drv_dict_writes(tier, seed):
  del seed
  voc = vocabulary(tier)
  rec = Recorder(
      'C03', 'typed pg.Dict: every write path x spec vocabulary',
      scope=f'schema {{f: SPEC, g: Int default, h: frozen Int, r: required Int[0,5], StrKey(x.*): Int[0,5]}} for {len(voc)} '
            'SPECs; write paths ctor/partial ctor/[]=/attr/update (dict, pairs, kwargs, multi)/|=/setdefault/rebind '
            '(dict, kwargs, multi, nested path)/clone(override)/del/pop/popitem/clear/MISSING x every valid+invalid '
            'sample, undeclared/dynamic/non-str keys, frozen and required fields; modes full, partial, allow_partial scope; '
            'dict stand-alone and as child of typed List / Object; single steps from a valid state')
  for fi, fd in enumerate(voc):
    for mode in ('full', 'partial', 'scope'):
      wheres = ['top']
      if mode == 'full' and (tier != 'quick' or fi in (0, 10, 13)):
        wheres += ['list', 'object']
      if tier == 'quick' and mode != 'full' and fi not in (0, 3, 8, 9, 10, 13, 15):
        continue
      for where in wheres:
        sub = dict_subject(fd, where, mode)
        _run_dict_like(rec, sub, fd, (fd.name, mode, where))
  return rec.result()


def drv_object_writes(tier, seed):
  del seed
  voc = vocabulary(tier)
  rec = Recorder(
      'C03', 'pg.Object: every write path x spec vocabulary',
      scope=f'class Obj(f: SPEC, g: Int default, h: frozen Int, r: required Int[0,5]) for {len(voc)} SPECs; write paths '
            '__init__ (kwargs, positional), partial, from_json, setattr, rebind (dict, kwargs, multi, nested path), '
            'clone(override), sym_init_args []=/update/|=, MISSING x every valid+invalid sample, undeclared key, frozen and '
            'required fields; modes full, partial, allow_partial scope; object stand-alone and as element of a typed List')
  for fi, fd in enumerate(voc):
    if fd.name.startswith('Object('):
      continue      # Obj's own helper classes would clash; covered as list element
    for mode in ('full', 'partial', 'scope'):
      wheres = ['top']
      if mode == 'full' and (tier != 'quick' or fi in (0, 10)):
        wheres.append('list')
      if tier == 'quick' and mode != 'full' and fi not in (0, 3, 8, 9, 10, 13):
        continue
      for where in wheres:
        sub = object_subject(fd, where, mode)
        _run_dict_like(rec, sub, fd, (fd.name, mode, where))
  return rec.result()


# ---------------------------------------------------------------------------
# Spec modifiers: every base spec x every combination of noneable / default /
# frozen, as field f of a typed Dict and of a pg.Object.
# ---------------------------------------------------------------------------

def _modifier_bases(tier):
  i05 = d_int(0, 5)
  inner_dict = d_dict([('p', i05), ('q', with_default(d_str(), "'d'"))], name='Dict(p,q=d)')
  inner_obj = d_object('Inner', [('p', i05), ('q', with_default(d_str(), "'d'"))])
  # (base, a valid non-None value to use as default / frozen value)
  bases = [
      (i05, '4'),
      (d_str('^[a-c]+$'), "'abc'"),
      (d_bool(), 'True'),
      (d_float(0.0, 1.0), '0.5'),
      (d_enum(), "'b'"),
      (d_list(i05, 1, 2), '[1, 2]'),
      (d_tuple([i05, d_str()]), "(1, 'abc')"),
      (inner_dict, "{'p': 1, 'q': 'd'}"),
      (inner_obj, 'Inner(p=1)'),
      (d_union([i05, d_str('^[a-c]+$')]), "'abc'"),
      (d_any(), "'s'"),
  ]
  if tier != 'quick':
    bases += [(d_str(), "''"), (d_int(), '0'), (d_list(d_str(), 0, None), '[]'),
              (d_list(inner_dict, 0, 2), "[{'p': 1, 'q': 'd'}]"),
              (d_union([d_bool(), d_list(i05, 0, 1), inner_dict]), '[1]')]
  return bases


# (label, noneable, default?, freeze: None | 'v' (at the value) | '' (at the current default))
_MODIFIER_COMBOS = [
    ('noneable', True, False, None),
    ('default', False, True, None),
    ('noneable+default', True, True, None),
    ('frozen', False, False, 'v'),
    ('noneable+frozen', True, False, 'v'),
    ('noneable+frozen-at-None', True, False, 'None'),
    ('noneable+frozen-at-own-default', True, False, ''),
    ('default+frozen-at-default', False, True, ''),
    ('noneable+default+frozen-at-default', True, True, ''),
]


def modifier_vocabulary(tier):
  out = []
  for base, v in _modifier_bases(tier):
    for label, none, dflt, frz in _MODIFIER_COMBOS:
      if tier == 'quick' and label == 'default+frozen-at-default':
        continue      # the same spec as 'frozen', built another way
      if label == 'noneable+frozen-at-own-default' and base.has_default and not hasattr(base, 'fields'):
        continue      # same spec as noneable+frozen at that default
      # pyglove cannot turn a list/dict default into a symbolic value when the
      # spec is noneable or a Union ('Source spec ... is not compatible' when
      # the default is used; for an Object already at class definition).  Such
      # a spec is kept only where a valid value can be built at all: not frozen,
      # field of a typed Dict that is given explicitly, never explicitly partial.
      fragile = (none or base.name.startswith('Union')) and (dflt or frz == 'v') and v[0] in '[{'
      if fragile and frz is not None:
        continue
      try:
        d = modified(base, none=none, default=v if dflt else None, freeze=v if frz == 'v' else frz)
      except ValueError:
        continue
      d.fragile_default = bool(fragile)
      out.append((label, d))
  return out


def _one_per_class(d):
  """Copy of d keeping one sample per label (input class); first/last valid."""
  n = Desc(d.name, d.src, d._ok, d.valid, d.invalid, pre=d.pre)  # pylint: disable=protected-access
  n.__dict__.update(d.__dict__)      # (keeps fragile_default etc.)
  seen = set()
  n.invalid = [t for t in d.invalid if not (t[0] in seen or seen.add(t[0]))]
  keep = [d.valid[0]] + [t for t in d.valid[1:] if t[1] == 'None'] + d.valid[-1:]
  n.valid = [t for i, t in enumerate(keep) if t not in keep[:i]]
  return n


def _spec_modifiers(tier, mk, title):
  """Field f carries base spec x modifier combination; all write paths of f."""
  voc = modifier_vocabulary(tier)
  if tier == 'quick':
    voc = [(label, _one_per_class(d)) for label, d in voc]
  rec = Recorder(
      'C03', title + ': value-spec modifier combinations on a field',
      scope=f'{len(voc)} field specs = base specs (Int, Str regex, Bool, Float, Enum, List, Tuple, Dict, Object, Union, Any) x '
            f'modifier chains {[c[0] for c in _MODIFIER_COMBOS]} (a noneable/Union spec with a list/dict default only as a given field of a typed '
            'Dict, not frozen: pyglove cannot build such a default); field f of the schema {f, g: Int default, h: frozen Int, r: required, StrKey(x.*)}; '
            'every write path of f (ctor, partial ctor, from_json, []=, attr, update, |=, setdefault, rebind, clone(override), '
            'MISSING/del/pop, clear, popitem) x one sample per input class of the modified spec in quick, all in thorough '
            '(None, the frozen value, another value the base spec accepts, values it rejects); writes into the content of a '
            'frozen container field; modes full and, for noneable+frozen chains (all chains in thorough), partial and/or '
            'allow_partial scope; single steps from a valid state (in thorough each rejected write repeated / accepted call probed)')
  for label, fd in voc:
    if mk is object_subject and (fd.name.startswith('Object(') or fd.fragile_default):
      continue
    modes = ['full']
    if tier != 'quick' or label == 'noneable+frozen':
      modes += ['partial', 'scope']
    elif label == 'noneable+frozen-at-None' or fd.fragile_default:
      modes += ['scope']
    for mode in modes:
      if fd.fragile_default and mode == 'partial':
        continue
      sub = mk(fd, 'top', mode)
      _run_dict_like(rec, sub, fd, (fd.name, sub.kind, mode), repeat=(tier != 'quick'), focus=True, fine=True)
  return rec.result()


def drv_spec_modifiers_dict(tier, seed):
  del seed
  return _spec_modifiers(tier, dict_subject, 'typed pg.Dict')


def drv_spec_modifiers_object(tier, seed):
  del seed
  return _spec_modifiers(tier, object_subject, 'pg.Object')


# ---------------------------------------------------------------------------
# Resets: clear / popitem / removal of fields whose default has to be derived
# from a nested schema (the value that cannot be defaulted sits below the
# container the call is made on).
# ---------------------------------------------------------------------------

def nested_desc(depth, req_depth, via='dict', level=0):
  """Schema of level `level`: k (Str: required iff level == req_depth, else
  default 'z'), lr (Float[0,1] default 0.5) and, above the last level, o: the
  next level, held `via` a Dict field (derived default), a noneable Dict field
  (default None) or a List-of-Dict field with default []."""
  k = d_str() if level == req_depth else with_default(d_str(), "'z'")
  fields = [('k', k), ('lr', with_default(d_float(0.0, 1.0), '0.5'))]
  if level < depth:
    inner = nested_desc(depth, req_depth, via, level + 1)
    if via == 'noneable-dict':
      inner = noneable(inner)
    elif via == 'list':
      inner = with_default(d_list(inner, 0, 2), '[]')
    fields.append(('o', inner))
  return d_dict(fields, name=f'Nested(depth={depth},required@{req_depth},via={via},level={level})')


def _nested_init(desc, partial):
  """Source of a complete (or, partial: empty) plain value for desc."""
  if partial:
    return '{}'
  items = []
  for k, d in desc.fields:
    if k == 'k':
      items.append("'k':'a'")
    elif k == 'o':
      inner = _nested_init(d.elem if hasattr(d, 'elem') else d, False)
      items.append("'o':" + (f'[{inner}]' if hasattr(d, 'elem') else inner))
  return '{' + ','.join(items) + '}'


def nested_subject(depth, req_depth, via, x_level, kind, where, mode):
  """x: the typed Dict (kind 'dict') or the pg.Object whose members are those
  of level `x_level`; it sits `x_level` levels below the root (Dict root), or
  is the root itself (object / list / holder roots only with x_level == 0)."""
  partial = mode == 'partial'
  top = nested_desc(depth, req_depth, via)
  levels = [top]
  while any(k == 'o' for k, _ in levels[-1].fields):
    d = dict(levels[-1].fields)['o']
    levels.append(d.elem if hasattr(d, 'elem') else d)
  acc = ''.join('.o[0]' if via == 'list' else '.o' for _ in range(x_level))
  scope = mode == 'scope'
  if kind == 'object':
    fields = nested_desc(depth, req_depth, via).fields
    od = d_object('Obj', fields)
    init = _nested_init(top, partial)
    setup = f'{od.pre}root=x=Obj' + ('.partial' if partial else '') + f'(**{init})'
    return Subject('object', setup, od, od, partial=partial, scope_partial=scope), od
  xd = levels[x_level]
  init = _nested_init(top, partial and x_level == 0)
  if where == 'top':
    setup = f'{top.pre}S={top.src}\nroot=pg.Dict({init},value_spec=S' + (',allow_partial=True)' if partial else ')') + f'\nx=root{acc}'
    if not acc:
      setup = setup.replace('\nroot=', '\nroot=x=').rsplit('\nx=root', 1)[0]
    return Subject('dict', setup, top, xd, partial=partial, scope_partial=scope), xd
  if where == 'list':
    rd = d_list(top, 0, None)
    setup = f'{rd.pre}S={rd.src}\nroot=pg.List([{init}],value_spec=S' + (',allow_partial=True)' if partial else ')') + f'\nx=root[0]{acc}'
    return Subject('dict', setup, rd, xd, partial=partial, scope_partial=scope), xd
  if where == 'object':
    rd = d_object('Holder', [('d', top)])
    setup = f'{rd.pre}root=Holder' + ('.partial' if partial else '') + f'(d={init})\nx=root.d{acc}'
    return Subject('dict', setup, rd, xd, partial=partial, scope_partial=scope), xd
  raise ValueError(where)


def _needs(d):
  """'' if the spec can produce a complete default; else where the value that
  cannot be defaulted sits: 'required' (the field itself is a value without
  default) or 'nested-required' (it is somewhere inside this Dict-typed field)."""
  if d.frozen or d.has_default:
    return ''
  return 'nested-required' if hasattr(d, 'fields') and not hasattr(d, 'cls_name') else 'required'


def reset_ops(sub, xd, present, light=False):
  """Whole-container resets and per-field removals of x (schema xd).

  light: a leaf field that has a default is removed through four representative
  paths only (every path of such a field is covered by drv_dict_writes)."""
  partial = sub.partial or sub.scope_partial
  img = present[1] if isinstance(present, tuple) else present
  ops = []
  b = _OpList(sub, img, ops, partner=('lr', '0.25', 0.25))
  add, paths, kind = b.add, b.paths, sub.kind
  consts = [(k, d) for k, d in xd.fields if not isinstance(k, tuple)]
  blocked = sorted({_needs(d) for _, d in consts} - {''})
  if partial:
    whole, why = 'partial', None
  elif not blocked:
    whole, why = 'all-defaults', None
  else:
    whole = '+'.join(blocked) + '-field'
    why = 'a value without default ' + ('sits in a nested Dict field' if blocked == ['nested-required'] else 'exists')
  if kind == 'dict':
    add('clear', 'x.clear()', whole, why)
    add('popitem', 'x.popitem()', whole)       # may refuse or reset the field; judged by the invariant
    add('ctor-empty', 'y=pg.Dict({},value_spec=x.value_spec)', whole, why, result=xd)
    add('ctor-empty', 'y=pg.Dict(value_spec=x.value_spec)', whole, why, result=xd)
    add('use_value_spec-empty', 'y=pg.Dict().use_value_spec(x.value_spec' + (',True)' if sub.partial else ')'), whole, why, result=xd)
    add('ctor-partial-empty', 'y=pg.Dict.partial({},value_spec=x.value_spec)', 'partial', None, result=_PARTIAL)
    add('copy', 'y=x.copy()', 'valid', result=xd)
  else:
    add('ctor-empty', 'y=Obj()', whole, why, result=xd)
    add('ctor-partial-empty', 'y=Obj.partial()', 'partial', None, result=_PARTIAL)
    add('sym_init_args-clear', 'x.sym_init_args.clear()', whole, why)
  add('clone', 'y=x.clone(deep=True)', 'valid', result=xd)
  for key, d in consts:
    need = '' if partial else _needs(d)
    cls = 'valid-removal' if not need else f'{need}-removal'
    kwhy = None if not need else f'{key} cannot be defaulted ({need}) and the value is not partial'
    if light and not need and key != 'o':
      add('rebind-MISSING', f'x.rebind({{{key!r}:M}},**NC)', cls, kwhy)
      add('setattr-MISSING', f'x.{key}=M', cls, kwhy)
      if kind == 'dict':
        add('delitem', f'del x[{key!r}]', cls, kwhy)
        add('pop', f'x.pop({key!r})', cls, kwhy)
      continue
    paths(key, 'M', cls, kwhy, tag='-MISSING')
    if kind == 'dict':
      add('delitem', f'del x[{key!r}]', cls, kwhy)
      add('delattr', f'del x.{key}', cls, kwhy)
      add('pop', f'x.pop({key!r})', cls, kwhy)
      add('pop', f'x.pop({key!r},None)', cls, kwhy)
    m = re.search(r'\nx=root((?:\.\w+|\[\d+\])+)$', sub.setup)
    if m:
      add('rebind-path-MISSING', f'root.rebind({{"{m.group(1).lstrip(".")}.{key}":M}},**NC)', cls, kwhy)
    if key == 'o':
      # replacing the nested container by an empty one: the same question
      is_list = hasattr(d, 'elem')
      inner = d.elem if is_list else d
      lacks = {_needs(dd) for _, dd in inner.fields} - {''}
      ineed = '' if partial or not lacks else 'required' if 'required' in lacks else 'nested-required'
      icls = 'valid-value' if not ineed else f'empty-value-lacks-{ineed}'
      iwhy = None if not ineed else f'the empty value lacks a {ineed} member'
      paths('o', '[{}]' if is_list else '{}', icls, iwhy, tag='-empty')
      e = '[pg.Dict()]' if is_list else 'pg.Dict()'
      if light:
        add('rebind-empty', f'x.rebind(o={e},**NC)', icls, iwhy)
        add('setattr-empty', f'x.o={e}', icls, iwhy)
      else:
        paths('o', e, icls, iwhy, tag='-empty')
  return ops


def _reset_driver(tier, kinds, title):
  rec = Recorder(
      'C03', title,
      scope='schemas level_i = {k: Str (required at one level or nowhere), lr: Float default, o: level_i+1} with 1..2 nested '
            'levels (3 in thorough), nested level held via a Dict field, a noneable Dict field or a List-of-Dict field with '
            'default []; x = the typed Dict at every level (root stand-alone, element of a typed List, member of an Object) or a '
            'pg.Object with these members; clear, popitem, empty ctor / use_value_spec, sym_init_args.clear, removal of every '
            'field through every write path (MISSING via []=/attr/update/|=/rebind/rebinder/clone override, del, pop, path '
            'rebind from the root, batches with a valid write; in quick a defaulted leaf field through 4 representative paths), '
            'replacement of the nested value by an empty one; modes full, '
            'partial, allow_partial scope; single steps from a valid state, rejected call repeated, accepted call probed')
  max_depth = 2 if tier == 'quick' else 3
  for depth in range(1, max_depth + 1):
    for req_depth in [None] + list(range(depth + 1)):
      for via in ('dict', 'noneable-dict', 'list'):
        for kind in kinds:
          for mode in ('full', 'partial', 'scope'):
            if kind == 'object':
              places = [(0, 'top')]
            else:
              places = [(lv, 'top') for lv in range(depth + 1)]
              if mode == 'full':
                places += [(0, 'list'), (0, 'object')] + ([(1, 'object')] if tier != 'quick' or depth == 1 else [])
            if mode != 'full' and tier == 'quick' and (depth > 1 or via != 'dict'):
              continue
            for x_level, where in places:
              if mode == 'partial' and x_level > 0:
                continue
              sub, xd = nested_subject(depth, req_depth, via, x_level, kind, where, mode)
              probe = Run(rec, sub)
              if probe.dead:
                continue
              key = (depth, req_depth, via, x_level, kind, where, mode)
              for op in reset_ops(sub, xd, plain(probe.x), light=(tier == 'quick')):
                if op.get('result') is _PARTIAL:
                  _step_partial_result(Run(rec, sub), dict(op, result=xd), key + (op['src'],))
                else:
                  Run(rec, sub).step(op, key + (op['src'],))
  return rec.result()


def drv_dict_resets(tier, seed):
  del seed
  return _reset_driver(tier, ('dict',), 'typed pg.Dict: clear / removal when the default is derived from a nested schema')


def drv_object_resets(tier, seed):
  del seed
  return _reset_driver(tier, ('object',), 'pg.Object: empty construction / removal when the default is derived from a nested schema')


def drv_dict_histories(tier, seed):
  """Histories on typed Dict / Object: partial -> filled -> removal etc."""
  rec = Recorder(
      'C03', 'typed pg.Dict / pg.Object: mutation histories',
      scope='field specs Int[0,5], Int default, List(Int,1,2), Dict(p,q=d); modes full/partial/scope; all histories of '
            'length 2 over the per-state op alphabet restricted to single-location writes/removals (sampled 1/17 x 1/17 in quick, 1/5 x 1/5 in thorough), '
            'seeded random histories of length <=8 over the whole alphabet; checks after every step')
  i05 = d_int(0, 5)
  fds = [i05, with_default(d_int(0, 5), '2'), d_list(i05, 1, 2),
         d_dict([('p', i05), ('q', with_default(d_str(), "'d'"))], name='Dict(p,q=d)')]
  rnd = rng(seed, 'c03-dict-hist')
  for fd in fds:
    for mk in (dict_subject, object_subject):
      for mode in ('full', 'partial', 'scope'):
        sub = mk(fd, 'top', mode)
        probe = Run(rec, sub)
        if probe.dead:
          continue
        first = [o for o in dict_ops(sub, fd, plain(probe.x)) if not o.get('result')]
        stride = 17 if tier == 'quick' else 5
        for i, op1 in enumerate(first):
          if i % stride:
            continue
          r = Run(rec, sub)
          r.step(op1, (fd.name, sub.kind, mode, op1['src']))
          second = [o for o in dict_ops(sub, fd, plain(r.x)) if not o.get('result')]
          for op2 in second[(i // stride) % stride::stride]:
            r2 = Run(rec, sub)
            r2.step(op1, (fd.name, sub.kind, mode, op1['src']))
            r2.step(op2, (fd.name, sub.kind, mode, op1['src'], op2['src']))
        for h in range(8 if tier == 'quick' else 120):
          r = Run(rec, sub)
          for j in range(rnd.randint(3, 8)):
            ops = [o for o in dict_ops(sub, fd, plain(r.x)) if not o.get('result')]
            ok, _ = r.step(rnd.choice(ops), ('rand', fd.name, sub.kind, mode, seed, h, j))
            if not ok or not r.room():
              break
  return rec.result()


# ---------------------------------------------------------------------------
# Schemas derived from a live value: pg.boilerplate_class.
# ---------------------------------------------------------------------------

_BP_HEAD = ('import pyglove as pg\nT=pg.typing;M=pg.MISSING_VALUE\n'
            'def I():return T.Int(min_value=0,max_value=5)\n')
_BP_INNER = ("@pg.members([('p',I()),('q',T.Str(default='d')),('l',T.List(I(),default=[]))])\n"
             "class Inner(pg.Object):\n  pass\n")
_BP_RAW = '''def raw(v):
 if isinstance(v,pg.Dict):return{k:raw(c)for k,c in v.sym_items()}
 if isinstance(v,pg.List):return[raw(c)for c in v.sym_values()]
 if isinstance(v,tuple):return tuple(raw(c)for c in v)
 return v
'''


def _bp_list_writes(acc, e):
  """Every write path into the pg.List `acc` (e: source of a valid element)."""
  return [f'{acc}.append({e})', f'{acc}.insert(0,{e})', f'{acc}.extend([{e}])', f'{acc}.__iadd__([{e}])',
          f'{acc}.__imul__(2)', f'{acc}[0]={e}', f'{acc}[-1]={e}', f'{acc}[0:1]=[{e},{e}]', f'del {acc}[0]',
          f'{acc}.pop()', f'{acc}.remove({acc}[0])', f'{acc}.reverse()', f'{acc}.clear()', f'{acc}[0]=M',
          f'{acc}.rebind({{0:{e}}})', f'{acc}.rebind({{0:pg.Insertion({e})}})', f'{acc}.rebind({{9:{e}}})',
          f'{acc}.rebind({{0:M}})']


def _bp_dict_writes(acc, k, v):
  """Every write path into key k of the pg.Dict `acc` (v: source of a valid value)."""
  return [f'{acc}[{k!r}]={v}', f'{acc}.{k}={v}', f'{acc}.update({{{k!r}:{v}}})', f'{acc}.__ior__({{{k!r}:{v}}})',
          f'{acc}.rebind({{{k!r}:{v}}})', f'{acc}.rebind({k}={v})', f'{acc}.pop({k!r},None)', f'del {acc}[{k!r}]',
          f'{acc}[{k!r}]=M', f'{acc}.clear()']


def _bp_object_writes(acc, k, v):
  return [f'{acc}.rebind({k}={v})', f'{acc}.rebind({{{k!r}:{v}}})', f'{acc}.{k}={v}',
          f'{acc}.sym_init_args[{k!r}]={v}', f'{acc}.sym_init_args.update({{{k!r}:{v}}})']


def _bp_path_writes(path, v):
  """Writes addressed from the template root."""
  return [f't.rebind({{{path!r}:{v}}})', f't.rebind(lambda k,v:({v}) if str(k)=={path!r} else v)']


def _bp_whole_writes(v2):
  """Replacement / removal of the whole field value."""
  return [f't.rebind(f={v2})', f't.f={v2}', f't.sym_init_args["f"]={v2}', 't.rebind(f=M)', 't.f=M']


def _bp_fields(tier):
  """Field kinds of the template: (kind, spec source, template value source or
  None = taken from the class default, model image of that value, another valid
  value, writes into the content of the template's field)."""
  lw, dw, ow, pw = _bp_list_writes, _bp_dict_writes, _bp_object_writes, _bp_path_writes
  inner_img = ('Inner', {'p': 1, 'q': 'd', 'l': [1]})
  pq = "T.Dict([('p',I()),('q',T.Str(default='d'))])"
  out = [
      ('list', 'T.List(I(),min_size=1,max_size=3)', '[1, 2]', [1, 2], '[3]',
       lw('t.f', '3') + pw('f[0]', '3') + pw('f[2]', '3')),
      ('list-of-dict', f'T.List({pq},max_size=2)', "[{'p': 1, 'q': 'd'}]", [{'p': 1, 'q': 'd'}], "[{'p': 3}]",
       lw('t.f', "{'p': 2}") + dw('t.f[0]', 'p', '2') + pw('f[0].p', '2') + pw('f[0].q', "'e'")),
      ('list-of-list', 'T.List(T.List(I(),max_size=2),max_size=2)', '[[1]]', [[1]], '[[3]]',
       lw('t.f', '[2]') + lw('t.f[0]', '2') + pw('f[0][0]', '2')),
      ('noneable-list', 'T.List(I()).noneable()', '[1, 2]', [1, 2], '[3]',
       lw('t.f', '3') + pw('f[0]', '3') + ['t.rebind(f=None)']),
      ('list-from-class-default', 'T.List(I(),default=[1, 2])', None, [1, 2], '[3]',
       lw('t.f', '3') + pw('f[0]', '3')),
      ('dict', pq, "{'p': 1, 'q': 'd'}", {'p': 1, 'q': 'd'}, "{'p': 3}",
       dw('t.f', 'p', '2') + dw('t.f', 'q', "'e'") + pw('f.p', '2')),
      ('dict-holding-list', "T.Dict([('p',I()),('l',T.List(I()))])", "{'p': 1, 'l': [1]}", {'p': 1, 'l': [1]},
       "{'p': 3, 'l': []}", dw('t.f', 'p', '2') + dw('t.f', 'l', '[2]') + lw('t.f.l', '2') + pw('f.l[0]', '2')),
      ('dynamic-key-dict', "T.Dict([(T.StrKey('^x.*'),T.List(I()))])", "{'x1': [1]}", {'x1': [1]}, "{'x3': []}",
       dw('t.f', 'x1', '[2]') + dw('t.f', 'x2', '[2]') + lw('t.f.x1', '2') + pw('f.x1[0]', '2')),
      ('untyped-dict', 'T.Dict()', "{'k': [1]}", {'k': [1]}, "{'j': 1}",
       dw('t.f', 'k', '[2]') + dw('t.f', 'z', '1') + lw('t.f.k', '2') + pw('f.k[0]', '2')),
      ('object', 'T.Object(Inner)', 'Inner(p=1,l=[1])', inner_img, 'Inner(p=3)',
       ow('t.f', 'p', '2') + ow('t.f', 'l', '[2]') + lw('t.f.l', '2') + pw('f.p', '2') + pw('f.l[0]', '2')),
      ('any-holding-list', 'T.Any()', "[1, {'k': 2}]", [1, {'k': 2}], "'s'",
       lw('t.f', '3') + dw('t.f[1]', 'k', '3') + pw('f[1].k', '3')),
      ('any-holding-object', 'T.Any()', 'Inner(p=1,l=[1])', inner_img, "'s'",
       ow('t.f', 'p', '2') + lw('t.f.l', '2') + pw('f.l[0]', '2')),
      ('tuple-holding-list', 'T.Tuple([T.Int(),T.List(I())])', '(1, [1])', (1, [1]), '(3, [])',
       lw('t.f[1]', '2') + pw('f[1][0]', '2')),
      ('union-holding-list', 'T.Union([T.Bool(),T.List(I(),max_size=2)])', '[1]', [1], 'True',
       lw('t.f', '2') + pw('f[0]', '2')),
      ('scalar', 'I()', '1', 1, '3', []),
  ]
  # Case-id class: a field whose spec is a Dict with a schema is frozen member by
  # member (one mechanism, whatever the members are); every other value is
  # frozen as a whole.
  # The other ids name the type of the frozen value (what has to be copied).
  def idc(k, s):
    if s.startswith('T.Dict(['):
      return 'schema-dict'
    return ('object' if 'object' in k else 'tuple' if 'tuple' in k else 'untyped-dict' if 'dict' in k.replace('-of-dict', '')
            else 'list' if 'list' in k else k)
  return [dict(kind=k, idc=idc(k, s), spec=s, v=v, img=img, v2=v2, writes=w + _bp_whole_writes(v2),
               inner='Inner' in s + str(v) + v2)
          for k, s, v, img, v2, w in out]


def _bp_setup(e, full):
  """Base class, an instance b0 of it, the template t, class B derived from t
  with instance x, class B2 derived from a template of B with instance x2
  (template partially bound: B2 = B).  A fully bound template is an instance
  of a subclass Sub of Base whose schema is itself derived from Base's
  (inherited; a Dict field re-declared as a bare T.Dict() that extends it)."""
  args = ([] if e['v'] is None else [f"f={e['v']}"]) + (['r=1'] if full else [])
  inst = '' if full else 'r=1'
  sub = ("@pg.members([('f',T.Dict())])\n" if e['idc'] == 'schema-dict' else '') + 'class Sub(Base):\n  pass\n'
  return ((_BP_INNER if e['inner'] else '')
          + f"@pg.members([('f',{e['spec']}),('r',I())])\nclass Base(pg.Object):\n  pass\n"
          + f"b0=Base(f={e['v2']},r=2)\n"
          + (sub if full else '')
          + f"t={'Sub' if full else 'Base.partial'}({','.join(args)})\n"
          + f"B=pg.boilerplate_class('B',t)\nx=B({inst})\n"
          + ("B2=pg.boilerplate_class('B2',B.partial())\n" if full else 'B2=B\n') + f"x2=B2({inst})\n")


def _bp_witness(e, full, writes, target):
  inst = '' if full else 'r=1'
  run = ('with pg.allow_writable_accessors(True):\n'
         f' for w in {writes!r}:\n  try:exec(w)\n  except Exception:pass\n') if writes else ''
  if target == 'instance':
    vsrc = e['v'] if e['v'] is not None else repr(e['img'])
    check = (f'for o in (x,x2,B({inst}),B2({inst})):\n'
             f' assert pg.eq(o.f,{vsrc}) and o.r==1,o.sym_init_args\n'
             ' type(o).sym_fields.apply({k:raw(v)for k,v in o.sym_items()})')
  elif target == 'base':
    check = ('assert pg.eq(b0,b)\n'
             'Base.sym_fields.apply({k:raw(v)for k,v in b0.sym_items()})')
    run = 'b=b0.clone(deep=True)\n' + run
  else:
    check = 'type(t).sym_fields.apply({k:raw(v)for k,v in t.sym_items()},allow_partial=True)'
  return _BP_HEAD + _BP_RAW + _bp_setup(e, full) + run + check


def _bp_run(e, full, writes):
  """Builds everything afresh, runs the writes on the template; returns
  (env, changed) where changed tells whether the template's image changed."""
  env = {}
  _exec(_BP_HEAD + _bp_setup(e, full), env)
  env['b0_img'] = plain(env['b0'])
  t_img = plain(env['t'])
  for w in writes:
    before = plain(env['t'])
    try:
      with pg.allow_writable_accessors(True):
        _exec(w, env)
    except Exception as ex:  # pylint: disable=broad-except
      # An ordinary write on an ordinary object (all its paths are the subject
      # of the other drivers); here: a failed write leaves the template as is.
      if plain(env['t']) != before:
        env['t_failed'] = f'failed write {w} ({type(ex).__name__}) changed the template'
  return env, plain(env['t']) != t_img


def _bp_violations(env, e, full):
  """[(target, message)]: what the statement demands after any history of
  writes on the template."""
  out = []
  inst = {} if full else {'r': 1}
  try:
    env['y'], env['y2'] = env['B'](**inst), env['B2'](**inst)
  except Exception as ex:  # pylint: disable=broad-except
    out.append(('instance', f'creating an instance of the derived class raised {type(ex).__name__}: {str(ex)[:200]}'))
  want = {'f': e['img'], 'r': 1}
  for name in ('x', 'x2', 'y', 'y2'):
    o = env.get(name)
    if o is None:
      continue
    cls = type(o).__name__
    when = 'created before the writes' if name[0] == 'x' else 'created after the writes'
    img = plain(o)
    bad = None
    if img != (cls, want):
      bad = (f'holds {img[1]!r}; its fields are frozen at the template\'s values when the class was derived, '
             f'{want!r}')
    else:
      bad = _check_real(o, T.Object(type(o)), False)
    if bad:
      out.append(('instance', f'instance of {cls} ({when}): {bad}'))
      break
  b0 = env['b0']
  bad = None if plain(b0) == env['b0_img'] else f'changed from {env["b0_img"]!r} to {plain(b0)!r}'
  bad = bad or _check_real(b0, T.Object(env['Base']), False)
  if bad:
    out.append(('base', f'instance of the base class (f={e["v2"]}): {bad}'))
  bad = env.get('t_failed') or _check_real(env['t'], T.Object(env['Base']), True)
  if bad:
    out.append(('template', f'the template: {bad}'))
  return out


def drv_boilerplate_template_isolation(tier, seed):
  """The schema of a boilerplate class is derived from a live template object
  that stays mutable: no write on the template may put the instances of the
  derived classes at odds with their (frozen) schema."""
  fields = _bp_fields(tier)
  rec = Recorder(
      'C03', 'pg.boilerplate_class: instances keep satisfying the frozen class schema whatever happens to the template',
      scope=f'{len(fields)} kinds of template field value ({", ".join(e["kind"] for e in fields)}) x template partially bound (instance of Base) / '
            'fully bound (instance of a subclass of Base) x classes B = boilerplate(template) and (template fully bound) B2 = boilerplate(B.partial()); every write path into the '
            'template field content at every depth (list: append/insert/extend/+=/*=/item/slice/del/pop/remove/reverse/clear/'
            'MISSING/rebind replace+insert+append+delete; dict: []=/attr/update/|=/rebind/pop/del/MISSING/clear; object: '
            'rebind/attr/sym_init_args; path rebind and rebinder from the template root; replacement and removal of the whole '
            'field), single writes from a fresh build and histories of 2 writes (thorough: all single writes + 300 seeded pairs per kind and template; quick: template partially '
            'bound: all single writes + 6 seeded pairs per kind, fully bound: 5 seeded single writes + 2 pairs); after each history: instances created before and after it equal the model of the frozen '
            'values and are accepted (mapped to themselves) by their class schema, the base-class instance and the template '
            'still satisfy the base schema')
  rnd = rng(seed, 'c03-boilerplate')
  for e in fields:
    for full in (False, True):
      mode = 'full' if full else 'partial'
      singles = [(w,) for w in e['writes']]
      pairs = [(a, b) for a in e['writes'] for b in e['writes']]
      if tier == 'quick':
        pairs = rnd.sample(pairs, min(2 if full else 6, len(pairs)))
        if full:
          singles = rnd.sample(singles, min(5, len(singles)))
      else:
        pairs = rnd.sample(pairs, min(300, len(pairs)))
      histories = [()] + singles + pairs
      for h in histories:
        try:
          env, changed = _bp_run(e, full, h)
        except Exception as ex:  # pylint: disable=broad-except
          rec.case(f'boilerplate.class-creation/raised:{e["idc"]}-field', (e['kind'], mode, h), False,
                   f'deriving the classes from a valid template raised {type(ex).__name__}: {str(ex)[:200]}',
                   _BP_HEAD + _bp_setup(e, full))
          break
        found = dict(_bp_violations(env, e, full))
        stage = 'template-write' if h else 'class-creation'
        for target, cid in (('instance', f'boilerplate.{stage}/frozen-{e["idc"]}-field'),
                            ('base', f'boilerplate.{stage}/base-class-instance'),
                            ('template', f'boilerplate.{stage}/template-state')):
          rec.case(cid, (e['kind'], mode, h), target not in found,
                   f'{e["kind"]} field f: {e["spec"]}, template {"fully" if full else "partially"} bound, after {list(h)} on '
                   f'the template: {found.get(target)}',
                   _bp_witness(e, full, list(h), target), nontrivial=(changed or not h))
  return rec.result()


def boilerplate_subject(base, fd, v_src, mode):
  """x: instance of Obj = pg.boilerplate_class('Obj', ObjBase.partial(f=v)):
  f frozen at v, g frozen at its default 1, h frozen at 7, r required."""
  others = lambda g: [('g', g), ('h', frozen(d_int(0, 9), '7')), ('r', d_int(0, 5))]
  bd = d_object('ObjBase', [('f', base)] + others(with_default(d_int(), '1')))
  od = d_object('Obj', [('f', fd)] + others(frozen(d_int(), '1')))
  od.pre = (bd.pre + f"tmpl=ObjBase.partial(f={v_src})\nObj=pg.boilerplate_class('Obj',tmpl)\n"
            "class ObjOther(pg.Object):\n  pass\n")
  partial = mode == 'partial'
  setup = od.pre + ('root=x=Obj.partial()' if partial else 'root=x=Obj(r=1)')
  return Subject('object', setup, od, od, partial=partial, scope_partial=(mode == 'scope'))


def _bp_ops(ops):
  """The op alphabet of an object, for an instance of a boilerplate class: own
  case ids; writes into the content of a frozen container field are left to
  drv_spec_modifiers_* (the same code, nothing specific to the derived class)."""
  return [dict(o, cid='boilerplate-' + o['cid']) for o in ops if '.child-write/' not in o['cid']]


def drv_boilerplate_object_writes(tier, seed):
  """An instance of a boilerplate class under every object write path."""
  del seed
  bases = [(b, v) for b, v in _modifier_bases(tier) if not b.name.startswith('Object(')]
  rec = Recorder(
      'C03', 'instance of a pg.boilerplate_class: every write path',
      scope=f'class Obj = boilerplate_class(ObjBase.partial(f=V)) for ObjBase(f: SPEC, g: Int default, h: frozen Int, r: required '
            f'Int[0,5]); {len(bases)} SPECs (Int, Str regex, Bool, Float, Enum, List, Tuple, Dict, Union, Any) with V a valid '
            'value, and SPEC.noneable() with V = None; all object write paths of drv_object_writes aimed at f (now frozen at V) and (quick: for every fourth SPEC) '
            'g (frozen at the default), h, r and undeclared keys x one sample per input class (all samples in thorough); modes '
            'full, partial (quick: the noneable chain for every third SPEC, mode partial for every third SPEC); single steps '
            'from a valid state')
  for bi, (base, v) in enumerate(bases):
    for label, none, frz in (('frozen', False, v), ('noneable+frozen-at-None', True, 'None'), ('noneable+frozen', True, v)):
      if label == 'noneable+frozen' and tier == 'quick':
        continue
      if (none or base.name.startswith('Union')) and frz[0] in '[{':
        continue      # pyglove cannot build a list/dict default of a noneable / Union spec (see modifier_vocabulary)
      if none and base.noneable:
        continue      # Any: already noneable
      if frz == 'None' and hasattr(base, 'fields') and not hasattr(base, 'cls_name'):
        # boilerplate_class itself crashes (AttributeError) on a template whose
        # noneable Dict-with-schema field is None: no class, no state to judge.
        continue
      if tier == 'quick' and none and bi % 3:
        continue
      fd = modified(base, none=none, freeze=frz)
      fd.fragile_default = False
      if tier == 'quick':
        fd = _one_per_class(fd)
      b = modified(base, none=True) if none else base
      for mode in (('full',) if tier == 'quick' and (none or bi % 3 != 1) else ('full', 'partial')):
        sub = boilerplate_subject(b, fd, frz, mode)
        _run_dict_like(rec, sub, fd, (fd.name, 'boilerplate', mode), repeat=(tier != 'quick'), ops_filter=_bp_ops,
                       fine=True, partner=('r', '2', 2), focus=(tier == 'quick' and bi % 4 != 0))
  return rec.result()


# ---------------------------------------------------------------------------
# Values that reach a typed location *with a claim of their own*:
#   * a pg.Dict / pg.List that already carries a value spec S2 (it was validated
#     against S2, not against the spec S1 of the location it is written to);
#   * a pg.Ref: the location stands for the referenced value.
# The statement does not know these short cuts: whatever the value claims, the
# location may only end up holding what S1 accepts.
# ---------------------------------------------------------------------------

def _kind(d):
  for attr, k in (('elem', 'list'), ('cls_name', 'object'), ('fields', 'dict'), ('elems', 'tuple'), ('cands', 'union')):
    if hasattr(d, attr):
      return k
  return 'leaf'


def _env_for(d):
  env = dict(_ENV)
  if d.pre:
    _exec(d.pre, env)
  return env


def _lit(pairs):
  return '{' + ', '.join(f'{k!r}: {s}' for k, s in pairs) + '}'


def _tup(parts):
  return '(' + ', '.join(parts) + (',)' if len(parts) == 1 else ')')


def _list_args(elem_src, lo, hi):
  return elem_src + (f', min_size={lo}' if lo else '') + (f', max_size={hi}' if hi is not None else '')


def weaker_specs(d):
  """[(relation class, depth, source of a spec S2, source of a plain value)]:
  specs S2 of the same shape as d's that differ from it in ONE respect, each
  with a value S2 accepts and d (by the model) rejects.  depth: how many
  container levels below the top of the spec the difference sits.

  Relation classes: a leaf constraint dropped (no-max / no-min / no-regex /
  more-members), the same with S2 frozen at the outside value, noneable added,
  a list bound dropped, the keys of two dict members exchanged (same keys,
  same sequence of value specs), one more declared key, a wider dynamic-key
  pattern, a weaker dynamic-key value spec, a base class, one more / a weaker
  union candidate."""
  if d.frozen:
    return []
  out, kind = [], _kind(d)
  if kind == 'leaf':
    for lab, wsrc, wbad in d.wider:
      out.append((lab, 0, wsrc, wbad))
      out.append((lab + '-frozen', 0, f'{wsrc}.freeze({wbad})', wbad))
  elif kind == 'list':
    e, lo, hi = d.elem, d.lo, d.hi
    ev = [s for _, s in e.valid]
    n = max(lo, 1)
    for cls, dep, w, b in weaker_specs(e):
      out.append((cls, dep + 1, f'T.List({_list_args(w, lo, hi)})', '[' + ', '.join([ev[0]] * (n - 1) + [b]) + ']'))
    if hi is not None:
      out.append(('no-max-size', 0, f'T.List({_list_args(e.src, lo, None)})', '[' + ', '.join((ev * 8)[:hi + 1]) + ']'))
    if lo:
      out.append(('no-min-size', 0, f'T.List({_list_args(e.src, 0, hi)})', '[' + ', '.join((ev * 8)[:lo - 1]) + ']'))
  elif kind == 'dict':
    fields = d.fields
    consts = [(k, dd) for k, dd in fields if not isinstance(k, tuple)]
    req = [(k, dd.valid[0][1]) for k, dd in consts if not dd.has_default]
    def spec(repl, extra=()):
      parts = [repl[k] if k in repl else _field_src(k, dd) for k, dd in fields]
      return 'T.Dict([' + ', '.join(parts + list(extra)) + '])'
    def value(over):
      return _lit([(k, s) for k, s in req if k not in over] + list(over.items()))
    for k0, d0 in consts:
      for cls, dep, w, b in weaker_specs(d0):
        out.append((cls, dep + 1, spec({k0: f'({k0!r}, {w})'}), value({k0: b})))
    env = _env_for(d)
    live = [(k, dd) for k, dd in consts if not dd.frozen]
    for i, (ki, di) in enumerate(live):
      for kj, dj in live[i + 1:]:
        # S2: ki governed by dj's spec and kj by di's, declared at each other's place
        for (ka, da), (kb, db) in (((ki, di), (kj, dj)), ((kj, dj), (ki, di))):
          # a value db accepts and da rejects (models), from the samples of both
          pick = [sv for _, sv in db.valid + da.invalid
                  if not da.ok(plain(_eval(sv, env))) and db.ok(plain(_eval(sv, env)))]
          if pick:
            # when db is a weakening of da in a respect that has a class of its
            # own (Str without the regex, Int without the bound), that respect
            # is part of the class: the exchange then relies on it as well
            same = da.name.split('[')[0].split('(')[0] == db.name.split('[')[0].split('(')[0]
            resp = [lab for lab, _, wbad in da.wider if same and db.ok(plain(_eval(wbad, env)))]
            out.append(('keys-exchanged' + (f'+{resp[0]}' if resp else ''), 0, spec({ka: f'({kb!r}, {da.src})', kb: f'({ka!r}, {db.src})'}),
                        value({ka: pick[0], kb: da.valid[0][1]})))
            break
    out.append(('one-more-key', 0, spec({}, ["('zz', T.Int())"]), value({'zz': '1'})))
    for k, dd in fields:
      if isinstance(k, tuple):
        out.append(('wider-key-pattern', 0, spec({k: f'(T.StrKey(), {dd.src})'}), value({'y1': dd.valid[0][1]})))
        for cls, dep, w, b in weaker_specs(dd):
          out.append((cls, dep + 1, spec({k: f'(T.StrKey({k[1]!r}), {w})'}), value({'x1': b})))
  elif kind == 'tuple':
    ev = [e.valid[0][1] for e in d.elems]
    for i, e in enumerate(d.elems):
      for cls, dep, w, b in weaker_specs(e):
        out.append((cls, dep + 1, 'T.Tuple([' + ', '.join(w if j == i else x.src for j, x in enumerate(d.elems)) + '])',
                    _tup(ev[:i] + [b] + ev[i + 1:])))
  elif kind == 'object':
    out.append(('base-class', 0, 'T.Object(pg.Object)', f'{d.cls_name}Other()'))
  elif kind == 'union':
    for i, c in enumerate(d.cands):
      for cls, dep, w, b in weaker_specs(c):
        out.append((cls, dep + 1, 'T.Union([' + ', '.join(w if j == i else x.src for j, x in enumerate(d.cands)) + '])', b))
    out.append(('one-more-candidate', 0, 'T.Union([' + ', '.join([x.src for x in d.cands] + ['T.Tuple([T.Bool()])']) + '])', '(True,)'))
  if not d.noneable and kind != 'union':
    out.append(('noneable', 0, d.src + '.noneable()', 'None'))
  # keep what the model of d really rejects and the real S2 really accepts
  env, keep = _env_for(d), []
  for cls, dep, w, b in out:
    try:
      if d.ok(plain(_eval(b, env))):
        continue
      _eval(w, env).apply(_eval(b, env))
    except Exception:  # pylint: disable=broad-except
      continue
    keep.append((cls, dep, w, b))
  return keep


def pretyped_samples(d, per_class=None):
  """[(label, value source)]: values d's spec rejects (model) that arrive as, or
  contain, a pg.Dict / pg.List bound to a weaker spec of the same shape.
  Label = pretyped:<relation class>[@nested][/in-plain-<container>]."""
  out, kind = [], _kind(d)
  if d.frozen:
    return out
  if kind in ('list', 'dict'):
    ctor = 'pg.List' if kind == 'list' else 'pg.Dict'
    for cls, dep, w, b in weaker_specs(d):
      if b != 'None':
        out.append((f'pretyped:{cls}' + ('@nested' if dep > 1 else '@member' if dep else ''), f'{ctor}({b},value_spec={w})'))
  inner = []
  if kind == 'list':
    ev = [s for _, s in d.elem.valid]
    n = max(d.lo, 1)
    inner = [(lab, '[' + ', '.join([ev[0]] * (n - 1) + [c]) + ']', 'list') for lab, c in pretyped_samples(d.elem)]
  elif kind == 'dict':
    consts = [(k, dd) for k, dd in d.fields if not isinstance(k, tuple)]
    req = [(k, dd.valid[0][1]) for k, dd in consts if not dd.has_default]
    for k0, d0 in consts:
      inner += [(lab, _lit([(k, s) for k, s in req if k != k0] + [(k0, c)]), 'dict') for lab, c in pretyped_samples(d0)]
  elif kind == 'tuple':
    ev = [e.valid[0][1] for e in d.elems]
    for i, e in enumerate(d.elems):
      inner += [(lab, _tup(ev[:i] + [c] + ev[i + 1:]), 'tuple') for lab, c in pretyped_samples(e)]
  elif kind == 'union':
    for c in d.cands:
      inner += [(lab, s, None) for lab, s in pretyped_samples(c)]
  env = _env_for(d)
  for lab, s, cont in inner:
    try:
      if d.ok(plain(_eval(s, env))):
        continue
    except Exception:  # pylint: disable=broad-except
      continue
    out.append((lab if cont is None or '/in-plain-' in lab else f'{lab}/in-plain-{cont}', s))
  if per_class:
    seen = {}
    out = [t for t in out if seen.setdefault(t[0], []).append(t) or len(seen[t[0]]) <= per_class]
  return out


_REF_EXTRAS = ["[1]", "{'k': 1}", 'pg.List([1])', 'pg.Dict(k=1)', 'pg.DNA(1)']


def _referent_kind(v):
  if isinstance(v, pg.List):
    return 'typed-pg.List' if v.value_spec is not None else 'pg.List'
  if isinstance(v, pg.Dict):
    return 'typed-pg.Dict' if v.value_spec is not None else 'pg.Dict'
  if isinstance(v, pg.Object):
    return 'pg.Object'
  if isinstance(v, list):
    return 'plain-list'
  if isinstance(v, dict):
    return 'plain-dict'
  return None


def ref_samples(d, per_kind=2, nested=True):
  """[(label, value source, valid)]: pg.Ref(v) for every list / dict / symbolic
  sample v of d (valid or not as v is) plus one referent of each kind d may
  never have seen; and the same one level inside a plain container value.
  Label = ref-to:<kind of the referenced value>[/in-plain-<container>].
  A valid referent is complete (nothing for the spec to fill in)."""
  env = _env_for(d)
  out, count = [], {}
  def consider(s, claimed):
    try:
      v = _eval(s, env)
      rk = _referent_kind(v)
      if rk is None:
        return
      valid = bool(d.ok(plain(v))) and not is_missing(plain(v))
    except Exception:  # pylint: disable=broad-except
      return
    if claimed is not None and valid != claimed:
      return            # e.g. a value the spec completes with defaults: not "maps to itself"
    if valid and d.frozen:
      return
    n = count.setdefault((rk, valid), 0)
    if n >= per_kind:
      return
    count[(rk, valid)] = n + 1
    out.append((f'ref-to:{rk}', f'pg.Ref({s})', valid))
  for lab, s in d.invalid:
    if 'missing-required' not in lab:     # acceptable where partial values are: not an input class of its own here
      consider(s, False)
  for s in _REF_EXTRAS:
    consider(s, None)
  for _, s in d.valid:
    consider(s, True)
  # a valid sample must be complete: re-applying the model to what the spec
  # would store is the identity only then (defaults are not filled into a
  # referenced value)
  kind = _kind(d)
  if kind in ('dict', 'list', 'object'):
    out = [t for t in out if not t[2] or _complete(d, _eval(t[1][7:-1], env))]
  if nested and not d.frozen:
    if kind == 'list':
      ev = [s for _, s in d.elem.valid]
      n = max(d.lo, 1)
      for lab, s, valid in ref_samples(d.elem, 1, False):
        out.append((lab + '/in-plain-list', '[' + ', '.join([ev[0]] * (n - 1) + [s]) + ']', valid))
    elif kind == 'dict':
      consts = [(k, dd) for k, dd in d.fields if not isinstance(k, tuple)]
      req = [(k, dd.valid[0][1]) for k, dd in consts if not dd.has_default]
      for k0, d0 in consts:
        if d0.frozen:
          continue
        for lab, s, valid in ref_samples(d0, 1, False):
          out.append((lab + '/in-plain-dict', _lit([(k, x) for k, x in req if k != k0] + [(k0, s)]), valid))
    elif kind == 'tuple':
      ev = [e.valid[0][1] for e in d.elems]
      for i, e in enumerate(d.elems):
        for lab, s, valid in ref_samples(e, 1, False):
          out.append((lab + '/in-plain-tuple', _tup(ev[:i] + [s] + ev[i + 1:]), valid))
  return out


def _complete(d, v):
  """Whether every declared const key of every dict level of v is present."""
  kind = _kind(d)
  if v is None or is_missing(v):
    return True
  if kind == 'list':
    return all(_complete(d.elem, e) for e in v)
  if kind in ('dict', 'object'):
    items = dict(v.sym_init_args.sym_items()) if isinstance(v, pg.Object) else (
        dict(v.sym_items()) if isinstance(v, pg.Dict) else v)
    if not isinstance(items, dict):
      return True
    return all(k in items and _complete(dd, items[k]) for k, dd in d.fields if not isinstance(k, tuple))
  return True


def carried_vocabulary(tier):
  """Container specs whose values can carry a spec of their own, at 1..3 levels."""
  i05 = d_int(0, 5)
  pq = d_dict([('p', i05), ('q', with_default(d_str(), "'d'"))], name='Dict(p,q=d)')
  ab = d_dict([('a', d_int(0, None)), ('b', d_int())], name='Dict(a>=0,b)')
  voc = [
      ab,
      pq,
      d_dict([('a', d_str('^[a-c]+$')), ('m', with_default(d_float(0.0, 1.0), '0.5')), ('b', d_str())], name='Dict(a:re,m=.5,b)'),
      d_dict([(('re', '^x.*'), i05), ('k', with_default(d_int(), '0'))], name='Dict(x*,k=0)'),
      d_list(i05, 1, 2),
      d_list(d_enum(), 0, None),
      d_list(pq, 0, 2),
      d_dict([('n', ab), ('m', noneable(d_list(i05, 0, 1)))], name='Dict(n{a,b},m?)'),
      d_union([d_bool(), d_list(i05, 0, 1), pq]),
      d_tuple([i05, ab]),
      noneable(ab),
  ]
  if tier != 'quick':
    voc += [
        d_list(d_list(i05, 0, 2), 0, 2),
        d_list(d_tuple([d_str(), ab]), 0, 2),
        d_dict([('o', d_dict([('n', ab), ('k', with_default(d_int(), '0'))], name='Dict(n{a,b},k=0)'))], name='Dict(o{n{a,b},k})'),
        d_list(d_union([i05, pq]), 0, 2),
        with_default(d_list(i05, 0, 2), '[]'),
        d_dict([(('re', '^x.*'), ab)], name='Dict(x*:{a,b})'),
    ]
  return voc


def _with_samples(fd, valid, invalid):
  n = Desc(fd.name, fd.src, fd._ok, valid, invalid, pre=fd.pre)  # pylint: disable=protected-access
  keep = dict(n.__dict__)
  n.__dict__.update(fd.__dict__)
  n.valid, n.invalid = keep['valid'], keep['invalid']
  n.fragile_default = False
  return n


def _carried_driver(rec, tier, voc, samples_of, object_too=True):
  """Field f of a typed Dict / of a pg.Object and element of a typed List carry
  spec fd; the samples are aimed at them through every write path."""
  for fi, fd in enumerate(voc):
    valid, invalid = samples_of(fd)
    if not invalid and len(valid) <= 1:
      continue
    sd = _with_samples(fd, valid, invalid)
    subjects = [(dict_subject(sd, 'top', 'full', _slim_schema), 'top')]
    if object_too and not fd.name.startswith('Object('):
      subjects.append((object_subject(sd, 'top', 'full', _slim_schema), 'top'))
    if tier != 'quick' or fi % 4 == 0:
      subjects.append((dict_subject(sd, 'list', 'full', _slim_schema), 'list'))
    if tier != 'quick' or fi % 4 == 2:
      subjects.append((dict_subject(sd, 'object', 'full', _slim_schema), 'object'))
    if tier != 'quick' or fi % 4 == 1:
      subjects.append((dict_subject(sd, 'top', 'scope', _slim_schema), 'scope'))
    for sub, where in subjects:
      extra = None
      if where == 'top' and sub.kind == 'dict' and _kind(fd) in ('list', 'dict'):
        # the whole value of a new typed container is taken from the sample
        def extra(ops, sub=sub):
          b = _OpList(sub, {}, ops)
          ctor = 'pg.List' if _kind(fd) == 'list' else 'pg.Dict'
          for lab, s in invalid:
            if s.startswith(('pg.Dict(', 'pg.List(', 'pg.Ref(')):
              b.add('ctor-whole', f'y={ctor}({s},value_spec=x.value_spec.schema.get_field("f").value)', 'invalid-value',
                    f'invalid value ({lab})', result=sd)
          return ops
      _run_dict_like(rec, sub, sd, (fd.name, sub.kind, where), repeat=(tier != 'quick'), focus=True, ops_filter=extra)
    if fd.frozen or (tier == 'quick' and fi % 2 and _kind(fd) == 'leaf'):
      continue
    samples = [(lab, s, True) for lab, s in valid] + [(lab, s, False) for lab, s in invalid]
    for lo, hi, n0 in ((0, 3, 1), (1, 2, 2)) if tier != 'quick' else ((0, 3, 1),):
      for where in ('top', 'object') if tier != 'quick' else ('top',) if fi % 4 != 3 else ('object',):
        sub = list_subjects(fd, lo, hi, n0, where)
        probe = Run(rec, sub)
        if probe.dead:
          continue
        for op in list_ops(sub, len(probe.x), samples):
          if op['cid'].endswith('/valid') and not any(s in op['src'] for _, s, _ in samples[1:]):
            continue          # size-only operations: drv_list_writes
          Run(rec, sub, repeat=(tier != 'quick')).step(op, (fd.name, 'elem', lo, hi, where, op['src']))


def drv_pretyped_values(tier, seed):
  """A pg.Dict / pg.List that is already bound to another spec is written to a
  typed location: what the location ends up holding is governed by the
  location's spec alone."""
  del seed
  voc = carried_vocabulary(tier)
  rec = Recorder(
      'C03', 'typed locations: a value that already carries its own value spec',
      scope=f'{len(voc)} location specs (Dict with 2-3 members, dynamic keys, nested Dict 1-3 levels, List of Int/Enum/Dict/List/Tuple/Union, '
            'Union and Tuple holding Dict/List, noneable Dict) x every spec S2 of the same shape that differs in one respect at any '
            'depth (bound / regex / enum member dropped, frozen outside, noneable added, list size bound dropped, keys of two members '
            'exchanged with the sequence of value specs kept, one more key, wider dynamic-key pattern, weaker dynamic-key value, one '
            'more union candidate) x a value S2 accepts and the location spec rejects, as pg.Dict/pg.List(value, value_spec=S2) '
            'directly or one level inside a plain list/dict/tuple; written to field f of a typed Dict (stand-alone, child of typed '
            'List / Object, under allow_partial scope) and of a pg.Object and as element of a typed List through every write path of '
            'drv_dict_writes / drv_object_writes / drv_list_writes; must raise and leave the state unchanged '
            '(quick: one sample per relation class and location spec, nested subjects for every third spec)')
  def samples_of(fd):
    return fd.valid[:1], pretyped_samples(fd, per_class=1 if tier == 'quick' else None)
  _carried_driver(rec, tier, voc, samples_of)
  return rec.result()


def drv_ref_values(tier, seed):
  """pg.Ref(v) written to a typed location: the location stands for v, so v is
  what the location's spec has to accept."""
  del seed
  voc = vocabulary(tier)
  rec = Recorder(
      'C03', 'typed locations: values written as pg.Ref',
      scope=f'{len(voc)} location specs (the vocabulary of drv_dict_writes) x pg.Ref(v) for v = every plain list / plain dict / pg.List / '
            'pg.Dict (untyped, typed) / pg.Object among the valid and invalid samples of the spec (2 per kind of referent and validity) '
            'plus one referent of each kind for every spec ([1], {k:1}, pg.List, pg.Dict, a pg.Object), and the same one level inside '
            'a plain list / dict / tuple value; written to field f of a typed Dict / pg.Object and as element of a typed List through '
            'every write path; a reference to a value the spec rejects must raise and leave the state unchanged, an accepted '
            'reference must leave a state the model and the re-applied spec accept (pg.Ref read as the value it refers to)')
  if tier == 'quick':
    # the ten scalar specs have the same referents: every other one in quick
    voc = [fd for i, fd in enumerate(voc) if _kind(fd) != 'leaf' or i % 2 == 0]
  def samples_of(fd):
    rs = ref_samples(fd, per_kind=1 if tier == 'quick' else 2)
    return fd.valid[:1] + [(lab, s) for lab, s, v in rs if v], [(lab, s) for lab, s, v in rs if not v]
  _carried_driver(rec, tier, [fd for fd in voc], samples_of)
  return rec.result()


# ---------------------------------------------------------------------------
# Keys matched by several key specs (round 7)
# ---------------------------------------------------------------------------
#
# A Dict schema may declare several non-const key specs (StrKey patterns, the
# catch-all StrKey()) next to const keys, directly or through extension
# (T.Dict.extend, a pg.Object subclass overriding an inherited Dict field, a
# chain of both).  The documented rule (Schema.get_field): a key belongs to the
# const field of that name if there is one, else to the FIRST field, in the
# order of the schema's fields, whose non-const key spec matches it.  The model
# below reads only the ORDER of the key specs from a freshly built spec; which
# key spec matches a key (own regex) and what the owning value spec accepts is
# written down here.  Every write path must validate a key against the field
# that owns it -- the same field construction / re-application uses.

_MK_FIELDS = {
    # name: (key source, model key matcher, value-spec source, model accept)
    'P1': ("T.StrKey('lr_.*')", lambda k: k.startswith('lr_'),
           'T.Float(min_value=0.0)',
           lambda v: (None if isinstance(v, int) else (isinstance(v, float) and v >= 0.0))),
    'P2': ("T.StrKey('.*_name')", lambda k: k.endswith('_name'),
           'T.Str()', lambda v: isinstance(v, str)),
    'P3': ('T.StrKey()', lambda k: True,
           'T.Int(max_value=5)', lambda v: isinstance(v, int) and v <= 5),
    'C1': ("'lr_const'", lambda k: k == 'lr_const',
           'T.Int(min_value=7).noneable()', lambda v: v is None or (isinstance(v, int) and v >= 7)),
    'C2': ("'c_name'", lambda k: k == 'c_name',
           'T.Float(max_value=0.0).noneable()',
           lambda v: v is None or (None if isinstance(v, int) else (isinstance(v, float) and v <= 0.0))),
}
_MK_KEYS = ['lr_a', 'opt_name', 'lr_name', 'zz', 'lr_const', 'c_name']
_MK_VALUES = ['0.5', '-1.0', "'abc'", '3', '9', 'None']


def _mk_spec_src(groups):
  """Source of a Dict spec: groups[0] extended by groups[1] extended by ..."""
  def one(names):
    return 'T.Dict([' + ','.join(f'({_MK_FIELDS[n][0]},{_MK_FIELDS[n][2]})' for n in names) + '])'
  src = one(groups[0])
  for g in groups[1:]:
    src = f'_ext({src},{one(g)})'
  return src


_MK_PRELUDE = ('import pyglove as pg\nT=pg.typing\n'
               'def _ext(child,base):\n  child.extend(base)\n  return child\n')


def _mk_setup(groups, how, where):
  """Source defining mkspec() and mk(init) -> (root, x)."""
  src = _MK_PRELUDE
  chain = _mk_spec_src(groups)
  if how == 'object-inherit' and len(groups) > 1:
    # child class field overrides the inherited Dict field, base classes first
    src += '@pg.members([("opts",%s)])\nclass K0(pg.Object):\n  pass\n' % _mk_spec_src(groups[-1:])
    for i, g in enumerate(reversed(groups[:-1])):
      src += '@pg.members([("opts",%s)])\nclass K%d(K%d):\n  pass\n' % (_mk_spec_src([g]), i + 1, i)
    top = 'K%d' % (len(groups) - 1)
    src += f'def mkspec():\n  return {top}.__schema__["opts"].value\n'
    src += f'def mk(init):\n  root={top}(opts=init)\n  return root, root.opts\n'
    return src
  src += f'def mkspec():\n  return {chain}\n'
  if where == 'top':
    src += 'def mk(init):\n  x=pg.Dict(init,value_spec=mkspec())\n  return x, x\n'
  elif where == 'dict-field':
    src += ('def mk(init):\n  root=pg.Dict(opts=init,n=1,value_spec=T.Dict([("opts",mkspec()),("n",T.Int())]))\n'
            '  return root, root.opts\n')
  elif where == 'list-element':
    src += 'def mk(init):\n  root=pg.List([init],value_spec=T.List(mkspec()))\n  return root, root[0]\n'
  else:
    src += ('@pg.members([("opts",mkspec())])\nclass Holder(pg.Object):\n  pass\n'
            'def mk(init):\n  root=Holder(opts=init)\n  return root, root.opts\n')
  return src


def _mk_owner(order, key):
  """Model: the field that owns `key` under the field order `order`."""
  for n in order:
    if n.startswith('C') and _MK_FIELDS[n][1](key):
      return n
  for n in order:
    if n.startswith('P') and _MK_FIELDS[n][1](key):
      return n
  return None


def _mk_order(spec):
  """Names of the model fields in the order of the real schema's key specs."""
  by_src = {}
  for n, f in _MK_FIELDS.items():
    by_src[str(eval(f[0], {'T': T}))] = n  # pylint: disable=eval-used
  return [by_src[str(k)] for k in spec.schema.keys()]


_MK_PATHS = [
    ('setitem', 'x[{k!r}]={v}', True),
    ('setattr', 'setattr(x,{k!r},{v})', True),
    ('update', 'x.update({{{k!r}:{v}}})', True),
    ('update-kwargs', 'x.update(**{{{k!r}:{v}}})', True),
    ('ior', 'x|={{{k!r}:{v}}}', True),
    ('setdefault', 'x.setdefault({k!r},{v})', False),
    ('rebind', 'x.rebind({{{k!r}:{v}}})', True),
    ('rebind-kwargs', 'x.rebind(**{{{k!r}:{v}}})', True),
    ('rebind-fn', 'x.rebind(lambda kp,val,p:({v}) if kp.key=={k!r} else val)', 'present'),
    ('sym_rebind-from-root', 'root.rebind({{str(x.sym_path+{k!r}):{v}}})', 'nested'),
    ('ctor', 'x=pg.Dict(dict(pg.to_json(x),**{{{k!r}:{v}}}),value_spec=mkspec())', 'new'),
    ('use_value_spec', 'x=pg.Dict(dict(pg.to_json(x),**{{{k!r}:{v}}})).use_value_spec(mkspec())', 'new'),
    ('apply', 'x=mkspec().apply(dict(pg.to_json(x),**{{{k!r}:{v}}}))', 'new'),
    ('clone-override', 'x=x.clone(override={{{k!r}:{v}}})', 'new'),
    ('clone-deep-override', 'x=x.clone(deep=True,override={{{k!r}:{v}}})', 'new'),
]


def _mk_layouts(tier, r):
  """(groups, how): groups[0] is the most derived spec, the last the base."""
  lay = []
  pats = ['P1', 'P2', 'P3']
  for n in (2, 3):
    for perm in itertools.permutations(pats, n):
      perm = list(perm)
      for consts in ([], ['C1', 'C2']):
        # declared together
        lay.append(([consts[:1] + perm + consts[1:]], 'declared-together'))
        # split between a base and a derived spec at every position
        for cut in range(1, n):
          child, base = perm[:cut], perm[cut:]
          for cpos in range(2 if consts else 1):
            g = [child + (consts if cpos == 0 else []), base + (consts if cpos == 1 else [])]
            lay.append((g, 'extend'))
            lay.append((g, 'object-inherit'))
        if n == 3:
          lay.append(([[perm[0]] + consts[:1], [perm[1]], [perm[2]] + consts[1:]], 'extend'))
          lay.append(([[perm[0]] + consts[:1], [perm[1]], [perm[2]] + consts[1:]], 'object-inherit'))
  if tier == 'quick':
    # stratified sample: every way of building the schema, with and without const keys
    out = []
    for how, n in (('declared-together', 2), ('extend', 4), ('object-inherit', 3)):
      pool = [l for l in lay if l[1] == how]
      r.shuffle(pool)
      with_c = [l for l in pool if any(x[0] == 'C' for g in l[0] for x in g)]
      without = [l for l in pool if l not in with_c]
      out += with_c[:n // 2] + without[:n - n // 2]
    lay = out
  return lay


def drv_keys_matching_several_key_specs(tier, seed):
  rec = Recorder('C03', 'typed Dict: a key matched by several key specs is validated against the field that owns it, on every write path',
                 scope='Dict schemas of 2..3 non-const key specs (lr_.*, .*_name, catch-all) and 0/2 const keys that also match '
                       'them, every order; declared together / split over T.Dict.extend (1 or 2 levels) / inherited Object '
                       'field override; dict at top, as Dict field, List element, Object field; 6 keys x 6 values x 15 write '
                       'paths, key absent and present (quick: sampled layouts)')
  r = rng(seed, 'c03-multikey')
  layouts = _mk_layouts(tier, r)
  for groups, how in layouts:
    wheres = ['top', 'dict-field', 'list-element', 'object-field'] if how != 'object-inherit' else ['object-field']
    if tier == 'quick' and how != 'object-inherit':
      wheres = [r.choice(wheres)]
    for where in wheres:
      setup = _mk_setup(groups, how, where)
      env = {}
      lkey = (how, tuple(map(tuple, groups)), where)
      fam = 'declared-together' if how == 'declared-together' else 'extended-schema'
      try:
        _exec(setup, env)
        order = _mk_order(env['mkspec']())
      except Exception as e:  # pylint: disable=broad-except
        rec.case(f'dict.schema-build/{fam}/several-non-const-key-specs', lkey, False,
                 f'building the schema raised {type(e).__name__}: {e}', setup)
        continue
      flat = [n for g in groups for n in g]
      rec.case(f'dict.schema-build/{fam}/several-non-const-key-specs', lkey, sorted(order) == sorted(flat),
               f'schema fields {order} are not the declared ones {flat}', setup + 'print(list(mkspec().schema.keys()))')
      owners = {k: _mk_owner(order, k) for k in _MK_KEYS}

      def valid_for(k):
        o = owners[k]
        return [v for v in _MK_VALUES if o and _MK_FIELDS[o][3](eval(v)) is True]  # pylint: disable=eval-used

      # initial states: no pattern key present / every ownable key present with a value its owner accepts
      full = {k: eval(valid_for(k)[0]) for k in _MK_KEYS if owners[k] and not owners[k].startswith('C')}  # pylint: disable=eval-used
      for init_name, init in (('absent', {}), ('present', full)):
        init_src = repr(init)
        for k in _MK_KEYS:
          owner = owners[k]
          matches = [n for n in order if _MK_FIELDS[n][1](k)]
          if owner is None:
            kcls = 'key-matching-no-key-spec'
          elif owner.startswith('C'):
            kcls = 'const-key-also-matching-patterns' if len(matches) > 1 else 'const-key'
          elif len(matches) > 1:
            kcls = 'key-matching-several-patterns'
          else:
            kcls = 'key-matching-one-pattern'
          for v in _MK_VALUES:
            val = eval(v)  # pylint: disable=eval-used
            acc = _MK_FIELDS[owner][3](val) if owner else False
            if acc is None:
              continue
            others_accept = any(_MK_FIELDS[n][3](val) is True for n in matches if n != owner)
            if acc:
              vcls = 'owner-accepts'
            else:
              vcls = 'owner-rejects:another-matching-field-accepts' if others_accept else 'owner-rejects'
            for pname, templ, cond in _MK_PATHS:
              if cond == 'nested' and where == 'top' and how != 'object-inherit':
                continue
              if cond == 'present' and k not in init:
                continue
              is_write = True
              if pname == 'setdefault' and (k in init or (owner and owner.startswith('C'))):
                is_write = False   # key present (const keys: present or defaulted): nothing is written
              op = templ.format(k=k, v=v)
              cid = f'dict.{pname}/{fam}/{kcls}/{vcls}'
              key = (lkey, init_name, k, v)
              wit = (setup + f'root,x=mk({init_src})\nbefore=pg.to_json(root)\nraised=None\ntry:\n  {op}\n'
                     'except (TypeError,ValueError,KeyError) as e:\n  raised=e\n')
              try:
                root, x = env['mk'](eval(init_src))  # pylint: disable=eval-used
              except Exception as e:  # pylint: disable=broad-except
                rec.case(f'dict.ctor/{fam}/valid-initial-state-refused', (lkey, init_name), False,
                         f'construction from values their owning fields accept raised {type(e).__name__}: {e}',
                         setup + f'mk({init_src})')
                break
              before_root, before_x = _dp(root), _dp(x)
              loc = dict(env, root=root, x=x)
              raised = None
              try:
                _exec(op, loc)
              except Exception as e:  # pylint: disable=broad-except
                raised = e
              x2 = loc['x']
              replaced = x2 is not x
              msg = None
              if raised is not None and not isinstance(raised, REJECT_CLASSES):
                msg = f'raised {type(raised).__name__}: {raised}'
                wit2 = setup + f'root,x=mk({init_src})\n{op}\n'
              elif raised is not None and (_dp(root) != before_root or _dp(x) != before_x):
                msg = f'{op} raised {type(raised).__name__} but changed the state: {before_x!r} -> {_dp(x)!r}'
                wit2 = wit + 'assert raised is None or pg.to_json(root)==before, pg.to_json(root)\n'
              elif is_write and not acc and raised is None:
                msg = (f'{op}: key {k!r} belongs to field {owner} ({_MK_FIELDS[owner][0]}: {_MK_FIELDS[owner][2]}) of fields {order}, '
                       f'which rejects {v}; no error, state {_dp(x2)!r}' if owner else
                       f'{op}: key {k!r} matches no key spec of {order}; no error, state {_dp(x2)!r}')
                wit2 = wit + f'assert raised is not None, "schema-rejected write was stored: %r" % (x,)\n'
              else:
                # whatever happened: every stored member is accepted by its owner; the fresh spec re-accepts the state
                bad = None
                for kk, vv in _dp(x2).items():
                  oo = _mk_owner(order, kk)
                  if oo is None or _MK_FIELDS[oo][3](vv) is False:
                    bad = f'stored {kk!r}: {vv!r} is rejected by its owning field {oo}'
                    break
                if bad is None:
                  bad = _check_real(x2, env['mkspec'](), False)
                if bad is None and not replaced:
                  bad = _check_real(root, root.value_spec, False) if isinstance(root, (pg.Dict, pg.List)) and root.value_spec else None
                if bad is not None:
                  msg = f'after {op}: {bad}'
                  wit2 = wit + 'mkspec().apply(pg.from_json(pg.to_json(x)))\n'
              rec.case(cid, key, msg is None, msg or '', wit2 if msg else '')
              if msg is None and raised is None and is_write and acc and not replaced:
                # the stored value reads back as written
                got = _dp(x2).get(k, M)
                rec.case(f'dict.{pname}/{fam}/{kcls}/accepted-value-stored', key,
                         not is_missing(got) and got == val and type(got) is type(val),
                         f'{op} succeeded but x[{k!r}] reads {got!r}', wit + f'assert x[{k!r}]=={v}, x\n')
            else:
              continue
            break
          else:
            continue
          break
  return rec.result()


DRIVERS = [drv_list_writes, drv_list_histories, drv_dict_writes, drv_object_writes, drv_dict_histories,
           drv_spec_modifiers_dict, drv_spec_modifiers_object, drv_dict_resets, drv_object_resets,
           drv_boilerplate_template_isolation, drv_boilerplate_object_writes,
           drv_pretyped_values, drv_ref_values, drv_keys_matching_several_key_specs]


def replay(rec):
  """Re-executes rec['witness']; returns (ok, message)."""
  try:
    exec(rec['witness'], {'__name__': '__c03_replay__'})  # pylint: disable=exec-used
    return True, 'witness passes'
  except Exception as e:  # pylint: disable=broad-except
    return False, f'{type(e).__name__}: {e}'
