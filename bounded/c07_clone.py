"""C07 -- clone fidelity and independence (bounded tier, never counted as proved).

Oracle (from the property statement):

  fidelity      a clone has the class of the original, node by node; it is
                symbolically equal (pg.eq both ways); every node keeps its
                behavioural flags (is_sealed, allow_partial, accessor_writable)
                and its value spec; the clone is a well-formed tree of its own
                (root without parent, empty path, C01 checker);
  sharing       no symbolic node object is shared between original and clone
                (values held through pg.Ref are shared by design); a deep
                clone shares no mutable non-symbolic leaf either, a shallow
                clone shares exactly the non-symbolic leaf objects;
  purity        cloning does not modify the original (full snapshot of the
                original's tree -- ids, parents, paths, flags, leaves -- is the
                same before and after);
  aliases       sym_clone / pg.clone / copy.copy / copy.deepcopy (also through
                plain containers) coincide with clone(deep=False/True);
  independence  after cloning, no mutation of either side (content writes at
                every node, flag changes, writes inside mutable leaves for deep
                clones) changes the snapshot of the other side; checked after
                every step of mutation histories.

  scopes        a clone made while pg.as_sealed / pg.allow_writable_accessors
                (or notify_on_change / track_origin) scopes are active obeys
                the same oracle once the scope is left;
  refusal       a deep clone may refuse (raise) only where Python's own
                copy.deepcopy refuses a non-symbolic leaf of the value with
                the same exception class; it must then leave the original
                untouched.  It must never hand back a clone that shares the
                leaf (or anything mutable inside it);
  memo          a deep clone through a memo that already holds copies of other
                values (in particular of the values held through pg.Ref, e.g.
                copy.deepcopy([target, tree])) obeys the same oracle: a Ref of
                the clone still holds the very value the original holds;
  flag flips    the flags compared are the *current* ones: every node of every
                subject gets its sealed / accessor-writable flag flipped after
                construction (`flagflip:` ids, see _flip_cases).

  functors      what a functor does when it is called is part of "equal, same
                behavioural flags": the argument sets (specified / bound /
                default / non-default, as sets of the clone's own) and the
                construction flags override_args / ignore_extra_args are not
                seen by pg.eq, so they are compared through calls -- the clone
                and the original, given the same missing / surplus / overriding /
                call-time-flag arguments, have the same outcome; cloning leaves
                the original's outcomes as they were; clone(override=argument)
                behaves like the original with the same rebind; a later change
                of either side (rebind, unbind, delattr, assignment, call-time
                override) is not visible through the other and a clone changed
                the way the original is changed still behaves like it
                (driver 3, `functor...` ids).

  direct leaves a non-symbolic leaf is copied (deep) / shared (shallow) by the
                clone path of the node that holds it, and every class family
                has a path of its own (Dict, List, Object and what rides on it
                -- DNASpec nodes, symbolized classes, Diff, contextual objects,
                compounds --, the overrides of Functor, HyperPrimitive, DNA):
                the `leaves/direct/` subjects put a mutable leaf into every
                kind of slot such a value has for user data (`hints` of every
                hyper primitive and DNASpec node, functor arguments, Any /
                Object / Tuple / Union typed fields, cloneable DNA metadata).
                A tuple may be rebuilt by a shallow clone (typed fields
                re-apply their spec) as long as it holds the very objects.

case_id: `clone/<check>/<node type>` for fidelity (clone depth in the key),
`<depth>/<sharing check>/<type>`, `alias:<alias>/<check>/<type>` for a check
that fails for an alias but holds for the clone of the same depth,
`interference/<depth>/<type of mutated node>.<mutation family>/<what changed
on the other side>`; for a leaf, <type> says where it is held:
`leaf-in-<type of the node holding it>`, or `leaf-below-<type>` of the nearest
Object-family value when plain Dict / List nodes lie between (hyper candidates,
DNA metadata), see _leaf_place,
`flagflip:<flag>(<new value>)@<root|inner-as-parent|inner-differs-from-parent>/
<check>/<type>` for a check that fails only after a flag of a node was flipped
after construction (position of the flipped node / relation of its new flag to
the flag of its parent in the id).
Driver 3: `functor/<depth>/<check>` with check = `arg-sets.<set>` |
`arg-sets.shared-set-object` | `call.<class of call: no-arguments,
bind-unbound-argument, override-bound-argument, surplus-arguments,
call-time-flags>` | `modifies-original.<tree|arg-sets|call-behaviour>` | ...
(`alias:<alias>/functor/<check>` when clone() of the same depth passes it),
`functor-override/<depth>/<what>`, `functor-interference/<depth>/<what changed
on the other side>`, `functor-same-change-same-behaviour/<depth>/diverges`,
`functor-call-time-override/<depth>/<what>`.
"""
import base64
import copy
import itertools
import zlib

import pyglove as pg
from pyvc.bounded import Recorder, rng
from bounded.c01_tree import check_tree

Symbolic = pg.Symbolic

# --------------------------------------------------------------------------
# Source fragments shared by the driver and by the witnesses.
# --------------------------------------------------------------------------

HEAD = "import copy\nimport threading\nimport pyglove as pg\nT = pg.typing\n"

FRAGMENTS = [
    # (marker that makes the fragment necessary, source)
    ('Leaf(', "class Leaf:\n"
              "  def __init__(self, v): self.v = v\n"
              "  def __eq__(self, o): return isinstance(o, Leaf) and self.v == o.v\n"
              "  def __hash__(self): return 7\n"
              "  def __repr__(self): return 'Leaf(%r)' % (self.v,)\n"),
    ('A(', "@pg.members([('x', T.Any(default=None)), ('y', T.Any(default=None))])\n"
           "class A(pg.Object): allow_symbolic_assignment = True\n"),
    ('N(', "@pg.members([('x', T.Any(default=None))])\n"
           "class N(pg.Object): allow_symbolic_mutation = False\n"),
    ('TY', "@pg.members([('n', T.Int()), ('d', T.Dict([('p', T.Int(default=0)), ('q', T.List(T.Int(), default=[]))])), ('z', T.Any(default=None))])\n"
            "class TY(pg.Object): pass\n"),
    ('fn(', "@pg.functor([('a', T.Any()), ('b', T.Any(default=1))])\n"
            "def fn(a, b): return a\n"),
    ('VS', "VS = T.Dict([('a', T.Int()), ('b', T.Dict([('c', T.Int(default=1)), ('l', T.List(T.Int(), default=[]))]))])\n"),
    ('LS', "LS = T.List(T.Dict([('v', T.Int(default=0))]), max_size=5)\n"),
    ('SHARED', "SHARED = pg.Dict(z=pg.Dict(zz=1))\n"),
    # A leaf that Python cannot deep-copy (it owns a lock) and that holds a
    # plain list and a symbolic node.
    ('Res(', "class Res:\n"
             "  def __init__(self): self.lock = threading.Lock(); self.items = [1]; self.node = pg.Dict(n=0)\n"
             "  def __eq__(self, o): return isinstance(o, Res) and self.items == o.items\n"
             "  def __hash__(self): return 5\n"),
    # A leaf whose deep copy is refused with a chosen exception class.
    ('Unc(', "class Unc:\n"
             "  def __init__(self, exc): self.exc = exc; self.items = [1]\n"
             "  def __eq__(self, o): return isinstance(o, Unc) and self.items == o.items\n"
             "  def __hash__(self): return 3\n"
             "  def __deepcopy__(self, memo): raise self.exc('no deep copy')\n"),
    # Classes whose instances are sealed unless unsealed explicitly.
    ('nf(', "class SF(pg.Functor): allow_symbolic_mutation = False\n"
            "@pg.functor([('a', T.Any(default=None))], base_class=SF)\n"
            "def nf(a): return a\n"),
    ('NH(', "class NH(pg.hyper.OneOf): allow_symbolic_mutation = False\n"),
    ('ND(', "class ND(pg.DNA): allow_symbolic_mutation = False\n"),
    ('MyRef(', "class MyRef(pg.Ref): pass\n"),
    # Classes that hold a non-symbolic leaf directly (round 4): a user-defined
    # hyper primitive, a contextual object, an object whose typed fields accept
    # a plain Python object (Any / Object / Tuple / Union / nested Dict specs),
    # a compound, the node transform of an evolvable.
    ('CH(', "class CH(pg.hyper.CustomHyper):\n  def custom_decode(self, dna): return dna.value\n"),
    ('CO(', "class CO(pg.ContextualObject):\n  x: T.Any() = None\n  y: T.Any() = None\n"),
    ('TL(', "@pg.members([('a', T.Any()), ('b', T.Object(Leaf)), ('c', T.Tuple([T.Object(Leaf), T.Int()])),\n"
            "             ('u', T.Union([T.Int(), T.Object(Leaf)])), ('d', T.Dict([('k', T.Object(Leaf))]))])\n"
            "class TL(pg.Object): pass\n"),
    ('CP(', "@pg.compound(A)\ndef CP(p, q=None): return A(x=p, y=[q])\n"),
    ('_tf', "def _tf(k, v, p): return v\n"),
    ('W(', "class _P:\n"
           "  def __init__(self, u, v=None): self.u = u; self.v = v\n"
           "W = pg.symbolize(_P)\n"),
    # Values held through references below n / a deepcopy memo that already
    # holds copies of them (and of one unrelated list, so it is never empty).
    # Functors whose result shows every argument they were called with (a
    # decorated function with defaults, with *args/**kwargs, with keyword-only
    # arguments; subclassed functors, untyped and typed).
    ('f3(', "@pg.functor()\ndef f3(a, b=1, c=2): return (a, b, c)\n"),
    ('fv(', "@pg.functor()\ndef fv(a, b=1, *args, **kw): return (a, b, args, sorted(kw.items()))\n"),
    ('fk(', "@pg.functor()\ndef fk(a, *, b=1, r): return (a, b, r)\n"),
    ('Sub(', "class Sub(pg.Functor):\n  a: T.Any()\n  b: T.Any() = 1\n  c: T.Any() = 2\n"
             "  def _call(self): return (self.a, self.b, self.c)\n"),
    ('SubT(', "class SubT(pg.Functor):\n  a: int\n  b: int = 1\n  c: int = 2\n"
              "  def _call(self): return (self.a, self.b, self.c)\n"),
    # A functor that looks at its peers (its clones) while it is being called.
    ('Peek(', "PEER = []\nclass Peek(pg.Functor):\n  x: int = 0\n"
              "  def _call(self): return (self.x, [p.x for p in PEER])\n"),
    # Call behaviour of a functor: the outcome (result / kind of refusal: the
    # exception class and the words that follow the function's name in the
    # message) of a fixed list of calls with missing, extra, overriding and
    # call-time-flag arguments.
    ('_beh(', "P = lambda *a, **k: (a, k)\n"
              "_PROBES = [P(), P(7), P(7, 8), P(7, 8, 9, 6), P(a=7), P(b=8), P(r=9), P(7, r=9), P(zz=1), P(7, zz=1),\n"
              "  P(b=8, zz=1), P(7, r=9, zz=1), P(7, override_args=True), P(zz=1, ignore_extra_args=True)]\n"
              "def _beh(f):\n"
              "  r = []\n"
              "  for a, k in _PROBES:\n"
              "    try: r.append(repr(f(*a, **k)))\n"
              "    except Exception as e: r.append(type(e).__name__ + str(e).partition('()')[2][:12])\n"
              "  return r\n"),
    ('_targets', "def _targets(n):\n"
                 "  if isinstance(n, pg.Ref): return [n.value]\n"
                 "  if not isinstance(n, pg.Symbolic): return []\n"
                 "  return [t for _, v in n.sym_items() for t in _targets(v)]\n"
                 "def _targets_memo(n):\n"
                 "  memo = {}\n"
                 "  copy.deepcopy([[0]] + _targets(n), memo)\n"
                 "  return memo\n"),
]

SNAP_SRC = '''\
def _snap(n, k=()):
  if not isinstance(n, pg.Symbolic): return [(k, id(n), repr(n))]
  r = [(k, type(n).__name__, id(n), id(n.sym_parent), str(n.sym_path), n.is_sealed, n.allow_partial, n.accessor_writable,
        id(getattr(n, 'value_spec', None)), id(getattr(n, 'spec', None)),
        [sorted(getattr(n, a, ())) for a in ('specified_args', 'non_default_args', 'default_args')],
        repr(dict(n.userdata)) if isinstance(n, (pg.DNA, pg.geno.DNASpec)) else 0)]
  if isinstance(n, pg.Ref): return r + [(k, 'ref', id(n.value))]
  for kk, v in n.sym_items(): r += _snap(v, k + (kk,))
  return r
'''

_ENV = {}
exec(HEAD + ''.join(src for _, src in FRAGMENTS) + SNAP_SRC, _ENV)  # pylint: disable=exec-used
_snap = _ENV['_snap']
Leaf = _ENV['Leaf']


def prelude(body, snap=False):
  out = HEAD
  for marker, src in FRAGMENTS:
    if marker in body:
      out += src
  if snap:
    out += SNAP_SRC
  return out


# --------------------------------------------------------------------------
# Subjects.
# --------------------------------------------------------------------------

def subjects(tier):
  S = []

  def add(label, src):
    S.append((label, src))

  add('dict/plain-nested', "o = pg.Dict(a=1, b=pg.Dict(c=[1, pg.Dict(d=2)]), e='s')")
  add('list/plain-nested', "o = pg.List([1, pg.Dict(a=pg.List([2])), [3, [4]]])")
  add('dict/empty', "o = pg.Dict()")
  add('list/empty', "o = pg.List()")
  flags = list(itertools.product((False, True), repeat=3))
  for sealed, partial, aw in flags:
    kw = f'sealed={sealed}, allow_partial={partial}, accessor_writable={aw}'
    add(f'dict/flags/sealed={sealed},partial={partial},aw={aw}',
        f"o = pg.Dict(dict(a=pg.Dict(b=1), l=[pg.Dict(c=1)]), {kw})")
    add(f'list/flags/sealed={sealed},partial={partial},aw={aw}',
        f"o = pg.List([pg.Dict(b=1), [2]], {kw})")
    add(f'dict/typed+flags/sealed={sealed},partial={partial},aw={aw}',
        f"o = pg.Dict(dict(a=1, b=dict(c=2, l=[3])), value_spec=VS, {kw})")
    add(f'list/typed+flags/sealed={sealed},partial={partial},aw={aw}',
        f"o = pg.List([dict(v=1), dict(v=2)], value_spec=LS, {kw})")
  add('dict/child-flags-differ',
      "o = pg.Dict(a=pg.Dict(b=1, accessor_writable=False), l=pg.List([1], allow_partial=True), s=pg.Dict(x=pg.Dict(y=1), sealed=True), t=pg.List([pg.Dict(y=1)], sealed=True))")
  add('list/child-flags-differ',
      "o = pg.List([pg.Dict(b=1, accessor_writable=False), pg.List([1], allow_partial=True, accessor_writable=False), pg.Dict(x=1, sealed=True), pg.List([1], sealed=True)])")
  add('dict/typed-partial-missing', "o = pg.Dict(value_spec=VS, allow_partial=True)")
  add('dict/typed-nested-in-untyped', "o = pg.Dict(k=pg.Dict(a=1, value_spec=VS), m=pg.List([dict(v=3)], value_spec=LS))")
  add('object/untyped', "o = A(x=pg.Dict(p=1), y=[A(x=1), pg.Dict(q=[2])])")
  add('object/typed', "o = TY(n=1, d={'p': 2, 'q': [1, 2]}, z=pg.Dict(k=1))")
  add('object/typed-partial', "o = TY.partial(d={'q': [1]})")
  add('object/typed-sealed', "o = TY(n=1, z=[pg.Dict(k=1)], sealed=True)")
  add('object/sealed-child-in-unsealed', "o = A(x=TY(n=1, sealed=True), y=pg.Dict(k=A(x=1, sealed=True)))")
  add('object/class-sealed-by-default', "o = N(x=pg.Dict(p=[1]))")
  add('object/class-sealed-explicitly-unsealed', "o = N(x=pg.Dict(p=[1]), sealed=False)")
  add('object/partial-nested', "o = A(x=TY.partial(), y=[TY.partial(n=1)], allow_partial=True)")
  add('ref/in-dict', "o = pg.Dict(r=pg.Ref(SHARED), k=pg.Dict(v=1), l=[pg.Ref(SHARED.z)])")
  add('ref/in-object', "o = A(x=pg.Ref(SHARED), y=pg.Ref([1, 2]))")
  add('ref/in-list', "o = pg.List([pg.Ref(SHARED), pg.Ref({1: 2}), pg.Dict(a=pg.Ref(SHARED))])")
  add('leaves/dict', "o = pg.Dict(a=Leaf([1]), b=(1, [2]), c={1, 2}, d=pg.List([Leaf([3]), (Leaf([4]),)]), e=bytearray(b'x'))")
  add('leaves/object', "o = A(x=Leaf([1]), y=pg.Dict(k=(Leaf({'m': [1]}),)))")
  add('leaves/list', "o = pg.List([Leaf([1]), ({'k': [1]},), pg.Dict(z=Leaf(Leaf([2])))])")
  add('nested/dict-child', "root = pg.Dict(k=pg.Dict(v=pg.List([pg.Dict(w=1)])), j=1)\no = root.k")
  add('nested/list-grandchild', "root = pg.Dict(k=pg.Dict(v=pg.List([pg.Dict(w=1)])), j=1)\no = root.k.v")
  add('nested/object-member', "root = A(x=pg.Dict(p=pg.Dict(q=1)), y=[A(x=[1])])\no = root.x")
  add('nested/object-in-list', "root = pg.List([0, A(x=[pg.Dict(a=1)])])\no = root[1]")
  add('nested/sealed-tree-child', "root = pg.Dict(dict(k=pg.Dict(v=[1])), sealed=True)\no = root.k")
  add('functor/partially-bound', "o = fn(a=pg.Dict(x=1))")
  add('functor/fully-bound-nested', "o = pg.Dict(f=fn(a=[pg.Dict(x=1)], b=2))")
  add('dna/tree', "o = pg.DNA([0, (1, [2, 3]), 0.5])")
  add('dna/with-spec-and-metadata',
      "o = pg.DNA([0, 1])\n"
      "o.set_metadata('m', pg.Dict(u=1), cloneable=True)\n"
      "o.use_spec(pg.dna_spec(pg.Dict(a=pg.oneof([1, 2]), b=pg.oneof([3, 4]))))\n"
      "o.set_userdata('ud', [1], cloneable=True)")
  add('hyper/oneof', "o = pg.oneof([pg.Dict(a=1), 2, [3]])")
  add('hyper/nested', "o = pg.Dict(a=pg.oneof([pg.oneof([1, 2]), pg.Dict(x=pg.floatv(0.0, 1.0))]), b=pg.manyof(2, [1, 2, pg.Dict(y=3)]))")
  add('ref/partial-flag', "o = pg.Dict(r=pg.Ref(SHARED, allow_partial=True), l=[pg.Ref([1], allow_partial=True)])")
  add('ref/sealed-in-unsealed-parent', "o = pg.Dict(r=pg.Ref(SHARED).seal(), l=[pg.Ref([1]).seal()])")
  add('object/sealed-leaf-objects-in-unsealed-containers',
      "o = pg.List([A(x=1).seal(), pg.Dict(k=TY(n=1).seal()), fn(a=1).seal()])")
  add('hyper/partial', "o = pg.hyper.OneOf(candidates=[TY.partial(), 1], allow_partial=True)")
  # References as the cloned value itself: stand-alone and picked out of a tree.
  add('ref/root', "o = pg.Ref(SHARED)")
  add('ref/root-to-plain-list', "o = pg.Ref([1, [2]])")
  add('ref/root-to-plain-dict', "o = pg.Ref({1: [2]})")
  add('ref/root-partial-flag', "o = pg.Ref(SHARED, allow_partial=True)")
  add('ref/root-subclass', "o = MyRef(SHARED)")
  add('nested/ref-in-dict', "root = pg.Dict(r=pg.Ref(SHARED), k=1)\no = root.sym_getattr('r')")
  add('nested/ref-in-list', "root = pg.List([pg.Ref(SHARED)])\no = root.sym_getattr(0)")
  add('nested/ref-in-object', "root = A(x=pg.Ref(SHARED))\no = root.sym_getattr('x')")
  # The referenced value is reachable a second way (it is also copied, as part
  # of a leaf, by the same deep clone), several references to one value,
  # references to and below other node types.
  add('ref/target-also-in-leaf/dict', "L = [1]\no = pg.Dict(t=(L,), r=pg.Ref(L), u=(L,), s=pg.Ref(L))")
  add('ref/target-also-in-leaf/list', "L = {1: [2]}\no = pg.List([pg.Ref(L), (L,), pg.Ref(L)])")
  add('ref/target-also-in-leaf/object', "L = [1]\no = A(x=(L,), y=pg.Ref(L))")
  add('ref/same-target-twice', "o = pg.Dict(a=pg.Ref(SHARED), b=pg.Ref(SHARED), c=[pg.Ref(SHARED.z), pg.Ref(SHARED.z)])")
  add('ref/to-object-and-functor', "o = pg.Dict(r=pg.Ref(A(x=pg.Dict(k=1))), f=pg.Ref(fn(a=1)))")
  add('ref/below-functor-and-hyper', "o = pg.Dict(f=fn(a=pg.Ref(SHARED)), h=pg.oneof([pg.Ref(SHARED), 1]))")
  # Classes whose instances are sealed by default (class option), as built and
  # unsealed explicitly afterwards.
  for kind, ctor in (('object', "N(x=pg.Dict(p=[1]))"), ('object-nested', "N(x=N(x=pg.Dict(p=N(x=1))))"),
                     ('functor', "nf(a=pg.Dict(x=1))"), ('hyper', "NH(candidates=[1, pg.Dict(a=2)])"),
                     ('dna', "ND([0, 1])")):
    if kind != 'object':
      add(f'class-sealed/{kind}', f"o = {ctor}")
    add(f'class-sealed/{kind}-unsealed-after', f"o = {ctor}\no.seal(False)")
    add(f'class-sealed/{kind}-unsealed-after-in-dict', f"o = pg.Dict(k=[{ctor}])\no.seal(False)")
  # Further symbolic classes.
  add('wrapper/symbolized-class', "o = W(u=pg.Dict(a=1), v=[pg.Dict(b=Leaf([1]))])")
  add('hyper/floatv', "o = pg.floatv(0.0, 1.0)")
  add('hyper/manyof-root', "o = pg.manyof(2, [1, pg.Dict(y=[3]), Leaf([1])])")
  add('hyper/permutate', "o = pg.permutate([1, pg.Dict(y=[3]), 2])")
  add('geno/dna-spec', "o = pg.dna_spec(pg.Dict(a=pg.oneof([1, 2]), b=pg.floatv(0., 1.)))")
  add('geno/generator', "o = pg.geno.Random(seed=1)")
  add('inferential/value-from-parent-chain', "o = pg.Dict(a=1, b=pg.Dict(a=pg.symbolic.ValueFromParentChain()))")
  add('diff/tree', "o = pg.diff(pg.Dict(a=1, b=pg.Dict(c=1)), pg.Dict(a=2, b=pg.Dict(c=2)))")
  add('list/typed-empty+flags', "o = pg.List([], value_spec=LS, sealed=True, accessor_writable=False)")
  # Symbolic nodes held inside non-symbolic leaves.
  add('leaves/symbolic-node-inside-leaf', "o = pg.Dict(a=Leaf(pg.Dict(c=[1])), t=(pg.Dict(d=1), {'k': pg.List([2])}))")
  # A mutable non-symbolic leaf held *directly* by a value of every class
  # family that copies its fields itself (Object._sym_clone and the overrides
  # of Functor, HyperPrimitive, DNA; the generic path taken by DNASpec nodes,
  # symbolized classes, Diff, contextual objects, compounds), in every kind of
  # slot such a value has for arbitrary user data (an Any-typed field such as
  # `hints`, a functor argument, typed Object / Tuple / Union fields, cloneable
  # DNA metadata), stand-alone, below containers, sealed and picked out of a tree.
  add('leaves/direct/functor-argument', "o = fn(a=Leaf([1]), b=(Leaf([2]),))")
  add('leaves/direct/functor-argument-in-containers', "o = pg.Dict(f=[fn(a=Leaf([1]))], g=nf(a=Leaf([2])))")
  add('leaves/direct/hyper-oneof-hints', "o = pg.oneof([1, Leaf([3])], hints=Leaf([1]))")
  add('leaves/direct/hyper-floatv-hints', "o = pg.floatv(0.0, 1.0, hints=({'k': [1]},))")
  add('leaves/direct/hyper-hints-nested-choices-in-dict',
      "o = pg.Dict(s=pg.oneof([pg.permutate([1, 2], hints=Leaf([1])), pg.floatv(0., 1., hints=bytearray(b'x'))], hints={1, 2}))")
  add('leaves/direct/hyper-hints-every-primitive-in-object-and-list',
      "o = A(x=pg.manyof(2, [1, 2, 3], hints=Leaf([1])), y=[pg.floatv(0., 1., hints=Leaf([2])), CH(hints=[Leaf([3])]), "
      "pg.evolve(pg.Dict(x=1), _tf, hints=Leaf([4]))])")
  add('leaves/direct/hyper-hints-sealed',
      "o = pg.List([NH(candidates=[1, 2], hints=Leaf([1])), pg.oneof([1, 2], hints=Leaf([2])).seal()])")
  add('leaves/direct/hyper-hints-picked-from-tree',
      "root = pg.Dict(x=pg.oneof([1, 2], hints=Leaf([1])), j=1)\no = root.sym_getattr('x')")
  add('leaves/direct/geno-spec-hints',
      "o = pg.geno.space([pg.geno.floatv(0., 1., hints=Leaf([2])), "
      "pg.geno.oneof([pg.geno.constant(), pg.geno.constant()], hints=(Leaf([1]),))], hints=Leaf([4]))")
  add('leaves/direct/dna-metadata',
      "o = pg.DNA([0, 1])\no.set_metadata('m', Leaf([1]), cloneable=True)\n"
      "o.set_metadata('n', pg.Dict(u=Leaf([2]), l=[(Leaf([3]),)]), cloneable=True)\n"
      "o.children[0].set_metadata('m', Leaf([4]), cloneable=True)")
  add('leaves/direct/wrapper-diff-compound',
      "o = pg.List([W(u=Leaf([1]), v=(Leaf([2]),)), pg.Diff(left=Leaf([3]), right=Leaf([4])), CP(p=Leaf([5]), q=pg.Dict(k=Leaf([6])))])")
  add('leaves/direct/contextual-object', "o = CO(x=Leaf([1]), y=pg.Dict(k=CO(x=(Leaf([2]),))))")
  add('leaves/direct/typed-object-fields',
      "o = TL(a=Leaf([1]), b=Leaf([2]), c=(Leaf([3]), 1), u=Leaf([4]), d={'k': Leaf([5])})")
  # Leaves Python refuses to deep-copy (see `refusal` in the module docstring).
  add('leaves/uncopyable/lock', "o = pg.Dict(a=pg.Dict(b=1), l=threading.Lock())")
  add('leaves/uncopyable/generator', "o = pg.List([pg.Dict(k=1), (i for i in range(3))])")
  add('leaves/uncopyable/object-in-dict', "o = pg.Dict(n=pg.Dict(k=1), s=Res())")
  add('leaves/uncopyable/object-in-list', "o = pg.List([pg.Dict(k=1), Res()])")
  add('leaves/uncopyable/object-in-object', "o = A(x=Res(), y=pg.Dict(k=[Res()]))")
  add('leaves/uncopyable/object-in-tuple', "o = pg.Dict(t=(1, [Res()]), n=[1])")
  add('leaves/uncopyable/object-in-functor-and-hyper', "o = pg.Dict(f=fn(a=Res()), h=pg.oneof([Res(), 1]))")
  for exc in ('TypeError', 'RuntimeError', 'ValueError', 'AttributeError', 'NotImplementedError', 'copy.Error'):
    add(f'leaves/uncopyable/deepcopy-raises-{exc}', f"o = pg.Dict(a=pg.Dict(b=1), u=Unc({exc}), l=[(Unc({exc}),)])")
  # The same values sealed as a whole after construction.
  for label, src in list(S):
    if (label.split('/')[0] in ('object', 'ref', 'functor', 'dna', 'hyper', 'wrapper', 'geno', 'diff')
        and 'sealed' not in label):
      add(label + '+sealed-after', src + '\no.seal()')
  return S


# (alias label, depth, clone expression on `o`)
BASES = [('shallow', 'o.clone()'), ('deep', 'o.clone(deep=True)')]
ALIASES = [
    ('sym_clone', 'shallow', 'o.sym_clone(deep=False)'),
    ('sym_clone', 'deep', 'o.sym_clone(deep=True)'),
    ('sym_clone-memo', 'deep', 'o.sym_clone(deep=True, memo={})'),
    ('pg.clone', 'shallow', 'pg.clone(o)'),
    ('pg.clone', 'deep', 'pg.clone(o, deep=True)'),
    ('pg.clone-memo', 'deep', 'pg.clone(o, deep=True, memo={})'),
    ('copy.copy', 'shallow', 'copy.copy(o)'),
    ('copy.deepcopy', 'deep', 'copy.deepcopy(o)'),
    ('pg.clone-in-list', 'shallow', 'pg.clone([o])[0]'),
    ('pg.clone-in-dict', 'deep', "pg.clone({'k': (o,)}, deep=True)['k'][0]"),
    ('copy.deepcopy-in-list', 'deep', 'copy.deepcopy([o])[0]'),
    ('copy.deepcopy-in-dict', 'deep', "copy.deepcopy({'k': o})['k']"),
    ('clone-empty-override', 'deep', 'o.clone(deep=True, override={})'),
    ('clone-of-clone', 'deep', 'o.clone(deep=True).clone(deep=True)'),
    ('clone-of-clone', 'shallow', 'o.clone().clone()'),
    ('shallow-of-deep', 'deep', 'o.clone(deep=True).clone()'),
    # Deep copies through a memo that already holds copies of the values the
    # subject holds through references (and one unrelated list).
    ('copy.deepcopy-memo-has-ref-targets', 'deep', 'copy.deepcopy(o, _targets_memo(o))'),
    ('pg.clone-memo-has-ref-targets', 'deep', 'pg.clone(o, deep=True, memo=_targets_memo(o))'),
    ('sym_clone-memo-has-ref-targets', 'deep', 'o.sym_clone(deep=True, memo=_targets_memo(o))'),
    ('copy.deepcopy-after-ref-targets-in-list', 'deep', 'copy.deepcopy(_targets(o) + [o])[-1]'),
    ('copy.deepcopy-after-ref-targets-in-tuple', 'deep', 'copy.deepcopy((tuple(_targets(o)), o))[1]'),
    ('copy.deepcopy-after-ref-targets-in-dict', 'deep', "copy.deepcopy({'t': _targets(o), 'o': o})['o']"),
    ('pg.clone-after-ref-targets-in-list', 'deep', 'pg.clone(_targets(o) + [o], deep=True)[-1]'),
]
# Scoped overrides of the protection flags active while cloning: the clone must
# get the flags of the original, not the ones the scope simulates (compared
# after the scope is left).  pg.allow_partial(..) and pg.enable_type_check(False)
# are left out on purpose: their documented purpose is to change how values
# *constructed inside the scope* are validated, so a clone made inside them
# legitimately differs in partial flag / schema binding of typed children and
# the statement gives no oracle for it.
SCOPES = ['pg.as_sealed(True)', 'pg.as_sealed(False)',
          'pg.allow_writable_accessors(True)', 'pg.allow_writable_accessors(False)',
          'pg.notify_on_change(False)', 'pg.track_origin(True)',
          'pg.as_sealed(True), pg.allow_writable_accessors(False)',
          'pg.as_sealed(False), pg.allow_writable_accessors(True)']


def _scoped_aliases(tier, subject_index):
  """(alias, depth, statement binding c); quick: one depth per subject/scope."""
  out = []
  for i, ctx in enumerate(SCOPES):
    name = ctx.replace('pg.', '').replace(', ', '+')
    for j, (depth, expr) in enumerate(BASES + [('shallow', 'copy.copy(o)'), ('deep', 'copy.deepcopy(o)')]):
      if tier == 'quick' and j != (subject_index + i) % 4:
        continue
      out.append((f'in-scope:{name}', depth, f'with {ctx}:\n  c = {expr}'))
  return out


# `.copy()` is the container protocol's shallow copy; the statement names only
# the clone family, so only equality / sharing / tree checks apply to it.
COPY_METHOD = ('.copy()', 'shallow', 'o.copy()')


def _tname(n):
  if isinstance(n, pg.Ref):
    return 'ref'
  if isinstance(n, pg.List):
    return 'list'
  if isinstance(n, pg.Dict):
    return 'dict'
  if isinstance(n, pg.Functor):
    return 'functor'
  if isinstance(n, pg.DNA):
    return 'dna'
  if isinstance(n, pg.hyper.HyperValue):
    return 'hyper'
  if isinstance(n, pg.geno.DNASpec):
    return 'dnaspec'
  if isinstance(n, Symbolic):
    return 'object'
  return 'leaf'


def _leaf_place(root, keys):
  """Where a non-symbolic leaf is held, for case ids.

  `leaf-in-<type>`: held directly by a node of that type; `leaf-below-<type>`:
  held by plain Dict / List nodes below an Object-family value of that type
  (hyper candidates, DNA metadata, ...).  The clone paths that copy leaves
  (Dict / List / Object / Functor / hyper primitive / DNA each have their own)
  get different ids this way.
  """
  chain = [root]
  try:
    for k in keys[:-1]:
      chain.append(chain[-1].sym_getattr(k))
  except Exception:  # pylint: disable=broad-except
    return 'leaf'
  holder = _tname(chain[-1])
  if holder in ('dict', 'list'):
    for a in reversed(chain[:-1]):
      if _tname(a) not in ('dict', 'list'):
        return f'leaf-below-{_tname(a)}'
  return f'leaf-in-{holder}'


def _shallow_same(a, b):
  """Does a shallow clone hold `b` where the original holds `a` as it must?

  The very object; a tuple may be built anew (a typed field re-applies its
  spec) as long as it holds the very objects -- a tuple itself cannot be
  mutated, so only what it holds can carry a mutation across.
  """
  if a is b:
    return True
  if isinstance(a, tuple) and isinstance(b, tuple) and type(a) is type(b) and len(a) == len(b):
    return all(_shallow_same(x, y) for x, y in zip(a, b))
  # Immutable leaves (numbers, strings, the MISSING_VALUE sentinels...) cannot
  # tell sharing from copying (their value is compared by pg.eq).
  return not _has_mutable(a)


def _nav(name, keys):
  return name + ''.join(f'.sym_getattr({k!r})' for k in keys)


def _pairs(o, c):
  """Parallel storage walk: yields ('node'|'leaf', keys, a, b)."""
  stack = [((), o, c)]
  while stack:
    keys, a, b = stack.pop()
    sa, sb = isinstance(a, Symbolic), isinstance(b, Symbolic)
    if not (sa and sb):
      yield 'leaf', keys, a, b
      continue
    yield 'node', keys, a, b
    if isinstance(a, pg.Ref) or isinstance(b, pg.Ref) or type(a) is not type(b):
      continue
    ib = dict(b.sym_items())
    for k, va in a.sym_items():
      if k in ib:
        stack.append((keys + (k,), va, ib[k]))


_IMMUTABLE = (int, float, complex, str, bytes, bool, type(None), frozenset,
              type, type(pg.MISSING_VALUE))


def _mutable_parts(v, expr, _depth=0):
  """Mutable objects reachable inside a non-symbolic leaf: (object, expr).

  Descends tuples, lists, dict values and the attributes of plain objects; a
  symbolic node held inside a leaf is one part (not descended).  Anything that
  is not known to be immutable counts as mutable (locks, generators, ...).
  """
  if isinstance(v, _IMMUTABLE) or callable(v) or _depth > 8:
    return
  if isinstance(v, tuple):
    for i, x in enumerate(v):
      yield from _mutable_parts(x, f'{expr}[{i}]', _depth + 1)
    return
  yield v, expr
  if isinstance(v, Symbolic):
    return
  if isinstance(v, list):
    for i, x in enumerate(v):
      yield from _mutable_parts(x, f'{expr}[{i}]', _depth + 1)
  elif isinstance(v, dict):
    for k, x in v.items():
      yield from _mutable_parts(x, f'{expr}[{k!r}]', _depth + 1)
  elif isinstance(getattr(v, '__dict__', None), dict):
    for k, x in vars(v).items():
      yield from _mutable_parts(x, f'{expr}.{k}', _depth + 1)


def _refusable(o, exc):
  """Does Python's copy.deepcopy refuse a leaf of `o` with the class of `exc`?"""
  for kind, _, a, _ in _pairs(o, o):
    if kind != 'leaf' or isinstance(a, _IMMUTABLE):
      continue
    try:
      copy.deepcopy(a)
    except Exception as e:  # pylint: disable=broad-except
      if type(e) is type(exc):
        return True
  return False


def _has_mutable(v):
  return any(True for _ in _mutable_parts(v, ''))


def fidelity(o, c, depth, flags=True):
  """Returns [(check, node type, keys, message, assert_src)]."""
  out = []
  if c is o:
    out.append(('is-original', _tname(o), (), 'the clone is the original object', 'assert c is not o'))
    return out
  if c.sym_parent is not None or c.sym_path != pg.KeyPath():
    out.append(('root-not-reset', _tname(o), (),
                f'clone has sym_parent {c.sym_parent!r:.40} / sym_path {str(c.sym_path)!r}',
                'assert c.sym_parent is None and c.sym_path == pg.KeyPath(), (c.sym_parent, c.sym_path)'))
  for k, _, m, a in check_tree(c, 'c'):
    if k in ('root-has-parent', 'root-path-not-empty'):
      continue
    out.append((f'tree.{k}', _tname(o), (), m, a))
  try:
    e1, e2 = pg.eq(o, c), pg.eq(c, o)
  except Exception as e:  # pylint: disable=broad-except
    e1 = e2 = False
    out.append(('eq-raises', _tname(o), (), f'pg.eq raised {type(e).__name__}: {e}', 'pg.eq(o, c)'))
  else:
    if not (e1 and e2):
      out.append(('not-equal', _tname(o), (), f'pg.eq(o, c)={e1}, pg.eq(c, o)={e2}',
                  'assert pg.eq(o, c) and pg.eq(c, o)'))
  orig_ids = {}
  for kind, keys, a, b in _pairs(o, o):
    if kind == 'node':
      orig_ids[id(a)] = keys
  for kind, keys, a, b in _pairs(o, c):
    na, nb = _nav('o', keys), _nav('c', keys)
    t = _tname(a)
    if kind == 'node':
      if type(a) is not type(b):
        out.append(('class', t, keys, f'{nb} is a {type(b).__name__}, original is a {type(a).__name__}',
                    f'assert type({nb}) is type({na}), type({nb})'))
        continue
      if id(b) in orig_ids:
        out.append((f'{depth}.shared-symbolic-node', t, keys,
                    f'{nb} is the node {_nav("o", orig_ids[id(b)])} of the original',
                    f'assert {nb} is not {_nav("o", orig_ids[id(b)])}'))
      if isinstance(a, pg.Ref) and a.value is not b.value:
        out.append(('ref-retargeted', t, keys, f'{nb}.value is not {na}.value',
                    f'assert {nb}.value is {na}.value'))
      if flags:
        for flag in ('is_sealed', 'allow_partial', 'accessor_writable'):
          fa, fb = getattr(a, flag), getattr(b, flag)
          if fa != fb:
            out.append((f'flag.{flag}', t, keys, f'{nb}.{flag} is {fb}, original has {fa}',
                        f'assert {nb}.{flag} == {na}.{flag} == {fa}, ({nb}.{flag}, {na}.{flag})'))
        if isinstance(a, (pg.Dict, pg.List)):
          va, vb = a.value_spec, b.value_spec
          if not (va is vb or (va is not None and vb is not None and va == vb)):
            out.append(('value_spec', t, keys, f'{nb}.value_spec is {vb!r:.60}, original has {va!r:.60}',
                        f'assert {nb}.value_spec == {na}.value_spec, {nb}.value_spec'))
        if isinstance(a, pg.DNA) and a.spec is not b.spec:
          out.append(('dna-spec', t, keys, f'{nb}.spec is not the spec of the original',
                      f'assert {nb}.spec is {na}.spec'))
        if isinstance(a, pg.Functor):
          for prop in ('specified_args', 'non_default_args', 'default_args', 'bound_args'):
            if getattr(a, prop) != getattr(b, prop):
              out.append((f'functor.{prop}', t, keys, f'{nb}.{prop} == {getattr(b, prop)}, original {getattr(a, prop)}',
                          f'assert {nb}.{prop} == {na}.{prop}'))
      if isinstance(a, pg.Ref):
        continue
      ka, kb = list(a.sym_keys()), list(b.sym_keys())
      if ka != kb:
        out.append(('keys', t, keys, f'{nb} has keys {kb}, original {ka}',
                    f'assert list({nb}.sym_keys()) == list({na}.sym_keys())'))
    else:
      if isinstance(a, Symbolic) != isinstance(b, Symbolic):
        out.append(('class', 'leaf', keys, f'{nb} is {type(b).__name__}, original {type(a).__name__}',
                    f'assert type({nb}) is type({na})'))
        continue
      if depth == 'shallow':
        if not _shallow_same(a, b):
          out.append(('shallow.leaf-copied', _leaf_place(o, keys), keys,
                      f'non-symbolic leaf {nb} ({type(b).__name__}) is not the object held by the original',
                      'S = lambda a, b: a is b or (isinstance(a, tuple) and isinstance(b, tuple) and len(a) == len(b) '
                      f'and all(map(S, a, b)))\nassert S({nb}, {na})'))
      else:
        mine = {id(x): e for x, e in _mutable_parts(a, na)}
        for x, e in _mutable_parts(b, nb):
          if id(x) in mine:
            out.append(('deep.shared-mutable-leaf', _leaf_place(o, keys), keys,
                        f'mutable {type(x).__name__} object {e} is shared with the original ({mine[id(x)]})',
                        f'assert {e} is not {mine[id(x)]}'))
            break
  return out


# --------------------------------------------------------------------------
# Building subjects and clones.
# --------------------------------------------------------------------------

_CODE = {}


def _exec(src, env):
  code = _CODE.get(src)
  if code is None:
    code = _CODE[src] = compile(src, '<c07>', 'exec')
  exec(code, env)  # pylint: disable=exec-used


def build(subject_src, clone_expr=None):
  env = dict(_ENV)
  # SHARED must be per-build: it is mutated by nobody, but ids go to snapshots.
  _exec("SHARED = pg.Dict(z=pg.Dict(zz=1))", env)
  _exec(subject_src, env)
  if clone_expr is not None:
    _exec(f'c = {clone_expr}', env)
  return env


def _root_of(env):
  return env.get('root', env['o'])


def _diff(a, b):
  for x, y in zip(a, b):
    if x != y:
      return f'{x!r:.200} became {y!r:.200}'
  if len(a) != len(b):
    extra = (b[len(a):] or a[len(b):])[0]
    return f'{len(a)} entries became {len(b)}; first extra: {extra!r:.200}'
  return ''


_FIELDS = ('keys', 'class', 'identity', 'sym_parent', 'sym_path', 'is_sealed',
           'allow_partial', 'accessor_writable', 'value_spec', 'spec')
_ARGS = ('specified_args', 'non_default_args', 'default_args')


def _diff_fields(a, b):
  """Names what differs in the first differing snapshot entry."""
  for x, y in zip(a, b):
    if x == y:
      continue
    if len(x) != len(y) or x[0] != y[0]:
      return ['structure']
    if len(x) == 3:
      return ['ref-target' if x[1] == 'ref' else 'leaf-value']
    out = [name for i, name in enumerate(_FIELDS) if x[i] != y[i]]
    out += [name for i, name in enumerate(_ARGS) if x[10][i] != y[10][i]]
    out += ['userdata'] if x[11] != y[11] else []
    return out or ['other']
  return ['structure']


def _wit(subject_src, lines, snap=False):
  body = subject_src + '\n' + '\n'.join(lines) + '\n'
  return prelude(body, snap) + body


# --------------------------------------------------------------------------
# Driver 1: fidelity, sharing, purity, aliases.
# --------------------------------------------------------------------------

def drv_clone_fidelity(tier, seed):
  del seed
  subs = subjects(tier)
  rec = Recorder(
      'C07', 'clone fidelity, sharing, purity and alias coincidence',
      scope=f'{len(subs)} subjects (Dict/List x 8 flag combinations x typed/untyped, children with '
            'differing flags, typed/partial/sealed Objects, Ref, non-symbolic mutable leaves, '
            'nested nodes, Functor, DNA, hyper values, stand-alone / nested / subclassed Ref, Ref '
            'targets also held in leaves, classes sealed by default (Object, Functor, hyper, DNA) '
            'as built and unsealed afterwards, symbolized classes, DNASpec, DNAGenerator, Diff, '
            'symbolic nodes inside leaves, mutable leaves held directly by a functor (argument), every '
            'hyper primitive and DNASpec node (hints), DNA (cloneable metadata), symbolized class, Diff, '
            'compound, contextual object, Any/Object/Tuple/Union-typed fields, '
            'leaves Python cannot deep-copy: lock, generator, object '
            'owning a lock, __deepcopy__ raising 6 exception classes) x clone(deep=False/True) and '
            f'{len(ALIASES)} aliases (+ .copy()) incl. deep copies through a memo that already holds '
            f'copies of the Ref targets; clones made inside {len(SCOPES)} scoped overrides '
            '(as_sealed, allow_writable_accessors, notify_on_change, track_origin; quick: one of '
            '4 clone expressions per subject/scope); every node x {seal, accessor-writable} flipped '
            'after construction then cloned (quick: 10 nodes nearest the root, one of 4 clone '
            'expressions per flip; not for the `leaves/direct/` subjects); every node pair compared')
  for subject_index, (label, src) in enumerate(subs):
    base_fail = {}
    base_raised = set()
    try:
      build(src)
    except Exception as e:  # pylint: disable=broad-except
      rec.case('subject-construction/raises', (label,), False,
               f'[{label}] {src!r} raised {type(e).__name__}: {e}', _wit(src, []))
      continue
    for depth, expr in BASES:
      env = build(src)
      before = _snap(_root_of(env))
      try:
        _exec(f'c = {expr}', env)
      except Exception as e:  # pylint: disable=broad-except
        base_raised.add(depth)
        if depth == 'deep' and _refusable(env['o'], e):
          # Python itself refuses to deep-copy a leaf: a refusal is fine, a
          # half-made clone that changed the original is not.
          after = _snap(_root_of(env))
          rec.case('clone/deep-refused-for-uncopyable-leaf' + ('' if before == after else '/modifies-original'),
                   (label, depth), before == after,
                   f'[{label}] {expr} raised {type(e).__name__} and changed the original: ' + _diff(before, after),
                   _wit(src, ["b = _snap(root if 'root' in dir() else o)", f'try: c = {expr}\nexcept Exception: pass',
                              "assert _snap(root if 'root' in dir() else o) == b"], snap=True))
          continue
        rec.case(f'clone/raises/{_tname(env["o"])}', (label, depth), False,
                 f'[{label}] {expr} raised {type(e).__name__}: {e}',
                 _wit(src, [f'c = {expr}']))
        continue
      o, c = env['o'], env['c']
      after = _snap(_root_of(env))
      rec.case('clone/modifies-original' + ('' if before == after else f'/{_tname(o)}'),
               (label, depth), before == after,
               f'[{label}] {expr}: ' + _diff(before, after),
               _wit(src, ["b = _snap(root if 'root' in dir() else o)", f'c = {expr}',
                          "assert _snap(root if 'root' in dir() else o) == b"], snap=True))
      fails = fidelity(o, c, depth)
      base_fail[depth] = {(chk, t, keys) for chk, t, keys, _, _ in fails}
      seen = set()
      for chk, t, keys, msg, a in fails:
        cid = (f'{depth}/{chk.split(".", 1)[1]}/{t}' if chk.startswith(('shallow.', 'deep.'))
               else f'clone/{chk}/{t}')
        if cid in seen:
          continue
        seen.add(cid)
        rec.case(cid, (label, depth, keys), False, f'[{label}] {expr}: {msg}',
                 _wit(src, [f'c = {expr}', a]))
      if not fails:
        rec.case(f'clone/{depth}', (label, depth), True)
    for alias, depth, expr in ALIASES + [COPY_METHOD] + _scoped_aliases(tier, subject_index):
      is_copy = alias == '.copy()'
      env = build(src)
      if is_copy and not isinstance(env['o'], (pg.Dict, pg.List)):
        continue
      before = _snap(_root_of(env))
      stmt = expr if expr.startswith('with ') else f'c = {expr}'
      try:
        _exec(stmt, env)
      except Exception as e:  # pylint: disable=broad-except
        if depth in base_raised:
          after = _snap(_root_of(env))
          if before != after:
            rec.case(f'alias:{alias}/raises-and-modifies-original', (label, depth), False,
                     f'[{label}] {expr} raised {type(e).__name__} and changed the original: ' + _diff(before, after),
                     _wit(src, ["b = _snap(root if 'root' in dir() else o)", 'try:\n  ' + stmt.replace('\n', '\n  ') + '\nexcept Exception: pass',
                                "assert _snap(root if 'root' in dir() else o) == b"], snap=True))
          continue
        rec.case(f'alias:{alias}/raises' + ('/dnaspec' if _tname(env['o']) == 'dnaspec' else ''),
                 (label, depth), False,
                 f'[{label}] {expr} raised {type(e).__name__}: {e}', _wit(src, [stmt]))
        continue
      o, c = env['o'], env['c']
      after = _snap(_root_of(env))
      if before != after:
        rec.case(f'alias:{alias}/modifies-original', (label, depth), False,
                 f'[{label}] {expr}: ' + _diff(before, after),
                 _wit(src, ["b = _snap(root if 'root' in dir() else o)", stmt,
                            "assert _snap(root if 'root' in dir() else o) == b"], snap=True))
      fails = [f for f in fidelity(o, c, depth, flags=not is_copy)
               if (f[0], f[1], f[2]) not in base_fail.get(depth, set())]
      if is_copy:
        fails = [f for f in fails if not f[0].startswith('shallow.leaf')]
      seen = set()
      for chk, t, keys, msg, a in fails:
        cid = f'alias:{alias}/{chk}/{t}'
        if cid in seen:
          continue
        seen.add(cid)
        rec.case(cid, (label, depth, keys), False, f'[{label}] {expr}: {msg}',
                 _wit(src, [stmt, a]))
      if not fails and before == after:
        rec.case(f'alias:{alias}', (label, depth), True)
    if not (tier == 'quick' and label.startswith('leaves/direct/')):
      # (quick: the flags of these classes are flipped in the subjects above)
      _flip_cases(rec, label, src, base_fail, base_raised, tier)
  _override_cases(rec)
  return rec.result()


FLIP_EXPRS = BASES + [('shallow', 'copy.copy(o)'), ('deep', 'copy.deepcopy(o)')]


def _flip_cases(rec, label, src, base_fail, base_raised, tier):
  """Clones after one flag of one node was flipped after construction.

  The flags of a clone must be those the original has *now*, whichever way it
  got them (constructor argument, class default, a later seal()/
  set_accessor_writable() on the node or on an ancestor).
  """
  try:
    o0 = build(src)['o']
  except Exception:  # pylint: disable=broad-except
    return
  quick = tier == 'quick'
  nodes = sorted((keys for kind, keys, _, _ in _pairs(o0, o0) if kind == 'node'), key=lambda k: (len(k), repr(k)))
  if quick:
    nodes = nodes[:10]   # the nodes nearest to the root
  for ni, keys in enumerate(nodes):
    nav = _nav('o', keys)
    for fi, (flag, attr, setter) in enumerate((('seal', 'is_sealed', 'seal'),
                                               ('accessor', 'accessor_writable', 'set_accessor_writable'))):
      # quick: one clone expression per (node, flag), rotating over the four.
      exprs = [x for j, x in enumerate(FLIP_EXPRS)
               if x[0] not in base_raised and (not quick or j == (2 * ni + fi) % 4 or (not keys and j < 2))]
      for depth, expr in exprs:
        env = build(src)
        _exec(f'_n = {nav}', env)
        node = env['_n']
        new = not getattr(node, attr)
        stmt = f'{nav}.{setter}({new})'
        if _apply(env, stmt) is not None or getattr(node, attr) != new:
          continue  # whether a flag can be flipped is not this property
        parent = node.sym_parent
        where = ('root' if not keys else
                 'inner-as-parent' if getattr(parent, attr, None) == new else 'inner-differs-from-parent')
        prefix = f'flagflip:{flag}({new})@{where}'
        key = (label, keys, depth, expr)
        before = _snap(_root_of(env))
        try:
          _exec(f'c = {expr}', env)
        except Exception as e:  # pylint: disable=broad-except
          if not (depth == 'deep' and _refusable(env['o'], e)):
            rec.case(f'{prefix}/raises/{_tname(env["o"])}', key, False,
                     f'[{label}] {stmt}; {expr} raised {type(e).__name__}: {e}',
                     _wit(src, [stmt, f'c = {expr}']))
          continue
        after = _snap(_root_of(env))
        if before != after:
          rec.case(f'{prefix}/modifies-original/{_tname(node)}', key, False,
                   f'[{label}] {stmt}; {expr}: ' + _diff(before, after),
                   _wit(src, [stmt, "b = _snap(root if 'root' in dir() else o)", f'c = {expr}',
                              "assert _snap(root if 'root' in dir() else o) == b"], snap=True))
        fails = [f for f in fidelity(env['o'], env['c'], depth)
                 if (f[0], f[1], f[2]) not in base_fail.get(depth, set())]
        seen = set()
        for chk, t, fkeys, msg, a in fails:
          # Only the failing node nearest to the root (parents come first).
          if chk in seen:
            continue
          seen.add(chk)
          rec.case(f'{prefix}/{chk}/{t}', key + (fkeys,), False, f'[{label}] {stmt}; {expr}: {msg}',
                   _wit(src, [stmt, f'c = {expr}', a]))
        if not fails and before == after:
          rec.case(f'flagflip:{flag}/{depth}', key, True)


def _override_cases(rec):
  cases = [
      ('dict', "o = pg.Dict(a=pg.Dict(b=1), l=[pg.Dict(c=1)])", "{'a.b': 2, 'l[0]': pg.Dict(c=3)}",
       "pg.Dict(a=pg.Dict(b=2), l=[pg.Dict(c=3)])"),
      ('list', "o = pg.List([pg.Dict(b=1), [2]])", "{'[0].b': 5, '[1][0]': pg.Dict(k=1)}",
       "pg.List([pg.Dict(b=5), [pg.Dict(k=1)]])"),
      ('object', "o = A(x=pg.Dict(p=1), y=[1])", "{'x.p': 7, 'y': pg.List([2])}",
       "A(x=pg.Dict(p=7), y=[2])"),
      ('sealed-dict', "o = pg.Dict(dict(a=pg.Dict(b=1)), sealed=True)", "{'a.b': 2}",
       "pg.Dict(a=pg.Dict(b=2))"),
  ]
  for label, src, ov, want in cases:
    for deep in (False, True):
      expr = f'o.clone(deep={deep}, override={ov})'
      key = (label, deep)
      env = build(src)
      before = _snap(env['o'])
      try:
        _exec(f'c = {expr}', env)
      except Exception as e:  # pylint: disable=broad-except
        # A sealed original may legitimately refuse an override of its clone;
        # the original must be untouched all the same.
        after = _snap(env['o'])
        rec.case('clone-override/raises-and-modifies-original', key, before == after,
                 f'{expr} raised {type(e).__name__} and changed the original',
                 _wit(src, ['b = _snap(o)', f'try: c = {expr}\nexcept Exception: pass', 'assert _snap(o) == b'], snap=True))
        continue
      after = _snap(env['o'])
      rec.case('clone-override/modifies-original', key, before == after,
               f'{expr}: ' + _diff(before, after),
               _wit(src, ['b = _snap(o)', f'c = {expr}', 'assert _snap(o) == b'], snap=True))
      _exec(f'w = {want}', env)
      rec.case('clone-override/result', key, pg.eq(env['c'], env['w']),
               f'{expr} gave {env["c"]!r:.100}, want {want}',
               _wit(src, [f'c = {expr}', f'assert pg.eq(c, {want}), c']))
      bad = [v for v in check_tree(env['c'], 'c')]
      rec.case('clone-override/tree' + (f'.{bad[0][0]}' if bad else ''), key, not bad,
               bad[0][2] if bad else '', _wit(src, [f'c = {expr}', bad[0][3] if bad else '']))
      oid = {i[2] for i in _snap(env['o']) if len(i) > 4}
      shared = [i for i in _snap(env['c']) if len(i) > 4 and i[2] in oid]
      rec.case('clone-override/shared-symbolic-node', key, not shared,
               f'{expr}: node at {shared[0][0] if shared else ""} is a node of the original',
               _wit(src, [f'c = {expr}', 'ids = {i[2] for i in _snap(o) if len(i) > 4}',
                          'assert not [i for i in _snap(c) if len(i) > 4 and i[2] in ids]'], snap=True))


# --------------------------------------------------------------------------
# Driver 2: independence under mutation histories.
# --------------------------------------------------------------------------

_CTX = 'with pg.as_sealed(False), pg.allow_writable_accessors(True):'


def mutations(root, name, depth):
  """All single mutations applicable to the tree `root` bound to `name`.

  Yields (node type, family, label, statement).
  """
  for kind, keys, a, _ in _pairs(root, root):
    e = _nav(name, keys)
    t = _tname(a)
    if kind == 'leaf':
      if depth != 'deep':
        continue
      lt = _leaf_place(root, keys)
      for x, ex in _mutable_parts(a, e):
        if isinstance(x, pg.List):
          yield lt, 'leaf-write', 'symbolic-list-inside-leaf.append', f'{_CTX} {ex}.append(9)'
        elif isinstance(x, pg.Dict):
          yield lt, 'leaf-write', 'symbolic-dict-inside-leaf.setitem', f"{_CTX} {ex}['zz'] = 9"
        elif isinstance(x, Symbolic):
          yield lt, 'leaf-write', 'symbolic-node-inside-leaf.seal', f'{ex}.seal({not x.is_sealed})'
        elif isinstance(x, list):
          yield lt, 'leaf-write', 'list.append', f'{ex}.append(9)'
        elif isinstance(x, dict):
          yield lt, 'leaf-write', 'dict.setitem', f"{ex}['zz'] = 9"
        elif isinstance(x, set):
          yield lt, 'leaf-write', 'set.add', f'{ex}.add(9)'
        elif isinstance(x, bytearray):
          yield lt, 'leaf-write', 'bytearray.append', f'{ex}.append(9)'
        elif isinstance(x, Leaf):
          yield lt, 'leaf-write', 'attr', f'{ex}.v = 9'
        elif isinstance(getattr(x, '__dict__', None), dict):
          yield lt, 'leaf-write', 'new-attr', f'{ex}.zz = 9'
      continue
    if not keys and a.sym_parent is None:
      # Using a value: putting it into a container of its own.
      yield t, 'attach', 'into-new-dict', f'_h = pg.Dict(slot={e})'
      yield t, 'attach', 'into-new-list', f'_h = pg.List([0, {e}])'
    yield t, 'seal', f'seal({not a.is_sealed})', f'{e}.seal({not a.is_sealed})'
    if isinstance(a, pg.Ref):
      continue
    yield t, 'accessor', 'set_accessor_writable', f'{e}.set_accessor_writable({not a.accessor_writable})'
    ks = list(a.sym_keys())
    if isinstance(a, pg.List):
      yield t, 'write', 'append', f'{_CTX} {e}.append(99)'
      yield t, 'write', 'insert-symbolic', f'{_CTX} {e}.insert(0, pg.Dict(u=1))'
      yield t, 'write', 'rebind-append', f'{e}.rebind({{{len(a)}: 98}})' if not a.is_sealed else f'{_CTX} {e}.rebind({{{len(a)}: 98}})'
      if ks:
        yield t, 'write', 'setitem', f'{_CTX} {e}[0] = 99'
        yield t, 'write', 'delitem', f'{_CTX} del {e}[0]'
        yield t, 'write', 'reverse', f'{_CTX} {e}.reverse()'
        yield t, 'write', 'clear', f'{_CTX} {e}.clear()'
        yield t, 'write', 'iadd', f'{_CTX} {e} += [97]' if not keys else f'{_CTX} {e}.__iadd__([97])'
    elif isinstance(a, pg.Dict):
      yield t, 'write', 'setitem-new', f"{_CTX} {e}['zz'] = 99"
      yield t, 'write', 'update-symbolic', f"{_CTX} {e}.update({{'zy': pg.Dict(u=1)}})"
      if ks:
        k0 = ks[0]
        yield t, 'write', 'setitem-replace', f'{_CTX} {e}[{k0!r}] = 99'
        yield t, 'write', 'delitem', f'{_CTX} del {e}[{k0!r}]'
        yield t, 'write', 'rebind', f'{_CTX} {e}.rebind({{{k0!r}: 98}})'
        yield t, 'write', 'clear', f'{_CTX} {e}.clear()'
    else:
      for k in ks[:3]:
        yield t, 'write', 'rebind-field', f'{_CTX} {e}.rebind({{{k!r}: 99}})'
        yield t, 'write', 'rebind-field-symbolic', f'{_CTX} {e}.rebind({{{k!r}: pg.Dict(u=1)}})'
        yield t, 'write', 'rebind-reset', f'{_CTX} {e}.rebind({{{k!r}: pg.MISSING_VALUE}}, raise_on_no_change=False)'
      if isinstance(a, pg.DNA):
        yield t, 'write', 'set_userdata', f"{e}.set_userdata('k', 1)"
        yield t, 'write', 'set_metadata', f"{_CTX} {e}.set_metadata('k', 1)"
      elif isinstance(a, pg.geno.DNASpec):
        yield t, 'write', 'set_userdata', f"{e}.set_userdata('k', 1)"


INDEP_METHODS = [('shallow', 'o.clone()'), ('deep', 'o.clone(deep=True)'),
                 ('shallow', 'copy.copy(o)'), ('deep', 'copy.deepcopy(o)')]


def _apply(env, stmt):
  try:
    _exec(stmt, env)
    return None
  except Exception as e:  # pylint: disable=broad-except
    return e


def drv_clone_independence(tier, seed):
  quick = tier == 'quick'
  subs = subjects(tier)
  methods = INDEP_METHODS[:2] if quick else INDEP_METHODS
  nrand = 4 if quick else 60
  rec = Recorder(
      'C07', 'no mutation of one side is observable through the other',
      scope=f'{len(subs)} subjects x {len(methods)} clone methods x both directions x every '
            'single mutation (content writes at every node, seal / accessor flips incl. seal flips '
            'of Ref nodes, attaching a parentless value to a new Dict / List, writes inside mutable '
            'leaves -- plain containers, object attributes, symbolic nodes held by a leaf -- for '
            'deep clones)'
            + ('; quick: every write inside a leaf, every 2nd other mutation (offset = seed; every 4th for the '
               '`leaves/direct/` subjects)' if quick else '')
            + f'; plus {nrand} seeded histories of 2..5 mutations alternating sides per subject/method')
  r = rng(seed, 'c07-indep')
  for label, src in subs:
    for depth, expr in methods:
      try:
        env0 = build(src, expr)
      except Exception:  # pylint: disable=broad-except
        continue  # reported by the fidelity driver
      for side, other in (('o', 'c'), ('c', 'o')):
        muts = list(mutations(env0[side], side, depth))
        if quick:
          # Every write inside a leaf; of the rest every 2nd (every 4th for the
          # subjects that are there for the leaves they hold directly).
          step = 4 if label.startswith('leaves/direct/') else 2
          lw = [x for x in muts if x[1] == 'leaf-write']
          muts = lw + [x for x in muts if x[1] != 'leaf-write'][seed % step::step]
        for t, fam, mlabel, stmt in muts:
          env = build(src, expr)
          oroot = _root_of(env) if other == 'o' else env['c']
          oname = ('root' if 'root' in env else 'o') if other == 'o' else 'c'
          before = _snap(oroot)
          exc = _apply(env, stmt)
          after = _snap(oroot)
          ok = before == after
          for cid in ([f'independence/{depth}'] if ok else
                      [f'interference/{depth}/{t}.{fam}/{f}' for f in _diff_fields(before, after)]):
            rec.case(cid,
                   (label, expr, side, mlabel, stmt), ok,
                   f'[{label}] c = {expr}; `{stmt}`'
                   + (f' (raised {type(exc).__name__})' if exc else '')
                   + f' changed the {"original" if other == "o" else "clone"}: ' + _diff(before, after),
                   _wit(src, [f'c = {expr}', f'b = _snap({oname})',
                              (f'try:\n  {stmt}\nexcept Exception: pass' if exc else stmt),
                              f'assert _snap({oname}) == b'], snap=True),
                   nontrivial=exc is None)
      # Random histories alternating sides.
      for h in range(nrand):
        env = build(src, expr)
        lines = [f'c = {expr}']
        n = r.randint(2, 5)
        for step in range(n):
          side, other = (('o', 'c'), ('c', 'o'))[r.randint(0, 1)]
          muts = list(mutations(env[side], side, depth))
          if not muts:
            break
          t, fam, mlabel, stmt = r.choice(muts)
          oroot = _root_of(env) if other == 'o' else env['c']
          oname = ('root' if 'root' in env else 'o') if other == 'o' else 'c'
          before = _snap(oroot)
          exc = _apply(env, stmt)
          after = _snap(oroot)
          ok = before == after
          wl = lines + [f'b = _snap({oname})',
                        (f'try:\n  {stmt}\nexcept Exception: pass' if exc else stmt),
                        f'assert _snap({oname}) == b']
          for cid in ([f'independence-history/{depth}'] if ok else
                      [f'interference/{depth}/{t}.{fam}/{f}' for f in _diff_fields(before, after)]):
            rec.case(cid,
                   (label, expr, tuple(lines), stmt), ok,
                   f'[{label}] after {lines}: `{stmt}` changed the {"original" if other == "o" else "clone"}: '
                   + _diff(before, after),
                   _wit(src, wl, snap=True), nontrivial=exc is None)
          lines.append(f'try:\n  {stmt}\nexcept Exception: pass' if exc else stmt)
          if not ok:
            break
  return rec.result()


# --------------------------------------------------------------------------
# Driver 3: clones of functors keep every piece of call behaviour.
# --------------------------------------------------------------------------
#
# A functor carries, next to its symbolic arguments, state that decides what a
# call does: which arguments count as specified / bound / default / non-default
# and the two construction flags override_args / ignore_extra_args.  None of it
# takes part in pg.eq, so "equal, same behavioural flags, no mutation of one
# observable through the other" is checked here through calls: the clone and
# the original, called with the same (missing, extra, overriding, call-time
# flag) arguments, have the same outcome, before and after either is changed.

_PROBES = _ENV['_PROBES']
_beh = _ENV['_beh']

_B_COMMON = ['', 'a=1', 'b=1', 'a=1, b=5', 'a=1, b=1, c=7', '1, 5', 'pg.MISSING_VALUE, 5']
F_BINDINGS = {
    'f3': _B_COMMON + ['a=pg.Dict(x=1), c=[pg.Dict(y=2)]'],
    'Sub': _B_COMMON + ['a=pg.Dict(x=1), c=[pg.Dict(y=2)]'],
    'SubT': _B_COMMON,
    'fv': ['', '1', 'b=5', '1, 2, 3, 4', 'a=1, x=5', '1, 2, 3, x=pg.Dict(k=1)'],
    'fk': ['', 'a=1', 'r=4', 'a=1, b=1, r=2', '1, b=5', 'b=5, r=pg.Dict(k=1)'],
}
# a and b bound to non-default values / nothing bound: starting points of histories.
F_BOUND = {'f3': 'a=1, b=5', 'Sub': 'a=1, b=5', 'SubT': 'a=1, b=5', 'fv': '1, 5, 3', 'fk': 'a=1, b=5, r=2'}
# (label, start, statements on `f` run before it is put in place and cloned)
F_HISTORIES = [
    ('rebound-to-non-default', 'bound', 'f.rebind(b=9)'),
    ('rebound-to-default', 'bound', 'f.rebind(b=1)'),
    ('unbound-by-rebind', 'bound', 'f.rebind(a=pg.MISSING_VALUE)'),
    ('unbound-by-delattr', 'bound', 'del f.b'),
    ('assigned', 'bound', 'f.b = 4'),
    ('unbound-then-bound-again', 'bound', 'del f.b\nf.b = 5'),
    ('bound-later', 'empty', 'f.rebind(a=3)'),
    ('default-assigned-later', 'empty', 'f.b = 1'),
    ('sealed-after', 'bound', 'f.seal()'),
    ('rebound-then-sealed', 'bound', 'f.rebind(b=1)\nf.seal()'),
]
FLAG_COMBOS = list(itertools.product((False, True), repeat=2))
# (label, statement(s) binding o (and root) from the functor `f`, navigation
# from o / c to every functor of the value, depths for which it applies)
F_PLACEMENTS = [
    ('root', "o = f", [''], ('shallow', 'deep')),
    ('in-dict', "o = pg.Dict(k=f, j=1)", [".sym_getattr('k')"], ('shallow', 'deep')),
    ('in-list', "o = pg.List([0, f])", [".sym_getattr(1)"], ('shallow', 'deep')),
    ('in-object', "o = A(x=f, y=[f])", [".sym_getattr('x')", ".sym_getattr('y').sym_getattr(0)"], ('shallow', 'deep')),
    ('in-typed-dict', "o = pg.Dict(k=f, value_spec=T.Dict([('k', T.Object(pg.Functor))]))", [".sym_getattr('k')"],
     ('shallow', 'deep')),
    ('in-functor', "o = f3(a=f, override_args=True)", ['', ".sym_getattr('a')"], ('shallow', 'deep')),
    ('in-subclassed-functor', "o = Sub(a=f, c=[f], ignore_extra_args=True)",
     ['', ".sym_getattr('a')", ".sym_getattr('c').sym_getattr(0)"], ('shallow', 'deep')),
    ('in-hyper', "o = pg.oneof([f, 1])", [".sym_getattr('candidates').sym_getattr(0)"], ('shallow', 'deep')),
    ('picked-from-tree', "root = pg.Dict(k=f, j=1)\no = root.sym_getattr('k')", [''], ('shallow', 'deep')),
    # Held by a non-symbolic leaf: copied by a deep clone only.
    ('in-leaf', "o = pg.Dict(t=(f,), n=1)", [".sym_getattr('t')[0]"], ('deep',)),
]
F_EXPRS = [
    ('clone', 'shallow', 'o.clone()'),
    ('clone', 'deep', 'o.clone(deep=True)'),
    ('copy.copy', 'shallow', 'copy.copy(o)'),
    ('copy.deepcopy', 'deep', 'copy.deepcopy(o)'),
    ('pg.clone', 'shallow', 'pg.clone(o)'),
    ('pg.clone', 'deep', 'pg.clone(o, deep=True)'),
    ('sym_clone-memo', 'deep', 'o.sym_clone(deep=True, memo={})'),
    ('clone-empty-override', 'shallow', 'o.clone(override={})'),
    ('clone-empty-override', 'deep', 'o.clone(deep=True, override={})'),
    ('clone-of-clone', 'shallow', 'o.clone().clone()'),
    ('clone-of-clone', 'deep', 'o.clone(deep=True).clone(deep=True)'),
    ('deep-of-shallow', 'deep', 'o.clone().clone(deep=True)'),
    ('shallow-of-deep', 'shallow', 'o.clone(deep=True).clone()'),
    ('copy.deepcopy-in-list', 'deep', 'copy.deepcopy([o])[0]'),
    ('pg.clone-in-dict', 'shallow', "pg.clone({'k': o})['k']"),
]
# A value that has a parent is copied when it is put into another tree.
F_IMPLICIT = ('implicit-copy-on-reparent', 'shallow', "pg.Dict(h=o).sym_getattr('h')")
# (label, argument, new value): clone(override={<path to the functor>.<argument>: value})
F_OVERRIDES = [('non-default', 'b', '9'), ('default', 'b', '1'), ('required', 'a', '6')]
# Later changes of one side (e is the functor).
F_MUTATIONS = [
    ('rebind-non-default', "{e}.rebind(b=8)"),
    ('rebind-default', "{e}.rebind(b=1, raise_on_no_change=False)"),
    ('unbind', "{e}.rebind(a=pg.MISSING_VALUE, raise_on_no_change=False)"),
    ('bind', "{e}.rebind(a=6)"),
    ('delattr', "del {e}.b"),
    ('setattr', "{e}.b = 4"),
]
_ARG_SETS = ('specified_args', 'non_default_args', 'default_args', 'bound_args', 'unbound_args', 'is_fully_bound')


def _fwit(subject_src, lines, snap=False):
  """_wit without what the functor subjects never need.

  The recorder keeps 1200 characters of a witness: a longer one is handed over
  packed (still a self-contained runnable snippet) rather than cut in two.
  """
  w = _wit(subject_src, lines, snap).replace('import threading\n', '', 1)
  if 'copy.' not in w:
    w = w.replace('import copy\n', '', 1)
  if len(w) > 1190:
    packed = base64.b64encode(zlib.compress(w.encode(), 9)).decode()
    w = f"import base64, zlib\nexec(zlib.decompress(base64.b64decode('{packed}')).decode())\n"
  return w


def _fsrc(kind, binding, ov, ig, history='', placement="o = f"):
  args = [x for x in (binding, 'override_args=True' if ov else '', 'ignore_extra_args=True' if ig else '') if x]
  return f"f = {kind}({', '.join(args)})\n" + (history + '\n' if history else '') + placement


def _probe_family(fo, probe):
  """Names the class of a call relative to the functor it is made on."""
  args, kwargs = probe
  if 'override_args' in kwargs or 'ignore_extra_args' in kwargs:
    return 'call-time-flags'
  sig = fo.__signature__
  names = [a.name for a in sig.args]
  known = set(names) | {a.name for a in sig.kwonlyargs}
  if (len(args) > len(names) and not sig.varargs) or (not sig.varkw and set(kwargs) - known):
    return 'surplus-arguments'
  touched = set(names[:len(args)]) | set(kwargs)
  if touched & set(fo.specified_args):
    return 'override-bound-argument'
  return 'bind-unbound-argument' if touched else 'no-arguments'


def _fstate(f):
  return _beh(f), [sorted(v) if isinstance(v, set) else v for v in (getattr(f, a) for a in _ARG_SETS)]


def _sym_ids(v, out, depth=0):
  if isinstance(v, Symbolic):
    for kind, _, a, _ in _pairs(v, v):
      if kind == 'node':
        out.add(id(a))
      else:
        _sym_ids(a, out, depth + 1)
  elif isinstance(v, (tuple, list)) and depth < 6:
    for x in v:
      _sym_ids(x, out, depth + 1)
  elif isinstance(v, dict) and depth < 6:
    for x in v.values():
      _sym_ids(x, out, depth + 1)
  return out


def _unchanged(snap, states, snap2, states2, navs, side, rootname):
  """('' | what differs, message, (lines before, lines after, needs _snap)) for a side that must not change."""
  if snap != snap2:
    return 'tree', _diff(snap, snap2), ([f'b = _snap({rootname})'], [f'assert _snap({rootname}) == b'], True)
  for nav, x, y in zip(navs, states, states2):
    if x[1] != y[1]:
      return ('arg-sets', f'{side}{nav}: {x[1]} became {y[1]}',
              ([f'fx = {side}{nav}', f'b = [sorted(getattr(fx, a)) for a in {_ARG_SETS[:5]}]'],
               [f'assert [sorted(getattr(fx, a)) for a in {_ARG_SETS[:5]}] == b'], False))
    if x[0] != y[0]:
      return ('call-behaviour', f'{side}{nav}: {[(p, u, v) for p, u, v in zip(_PROBES, x[0], y[0]) if u != v]}',
              ([f'fx = {side}{nav}', 'b = _beh(fx)'],
               ['assert _beh(fx) == b, [(p, u, v) for p, u, v in zip(_PROBES, b, _beh(fx)) if u != v]'], False))
  return '', '', ([], [], False)


def _functor_checks(env, navs, ostates):
  """Compares every functor of env['c'] with its counterpart in env['o'].

  ostates: _fstate of the original's functors (after cloning), one per nav.
  Returns [(check, message, assert_src)]; one entry per check.
  """
  out = {}

  def add(chk, msg, a):
    out.setdefault(chk, (chk, msg, a))

  own = _sym_ids(env['o'], set())
  for nav, ostate in zip(navs, ostates):
    try:
      _exec(f'fo = o{nav}\nfc = c{nav}', env)
    except Exception as e:  # pylint: disable=broad-except
      add('structure', f'c{nav} raised {type(e).__name__}: {e}', f'c{nav}')
      continue
    fo, fc = env['fo'], env['fc']
    pre = f'fo, fc = o{nav}, c{nav}\n'
    if type(fo) is not type(fc) or not isinstance(fc, pg.Functor):
      add('class', f'c{nav} is a {type(fc).__name__}, original {type(fo).__name__}', pre + 'assert type(fc) is type(fo)')
      continue
    if fc is fo:
      add('shared-functor', f'c{nav} is the functor of the original', pre + 'assert fc is not fo')
      continue
    for a in _ARG_SETS:
      va, vb = getattr(fo, a), getattr(fc, a)
      if va != vb:
        add(f'arg-sets.{a}', f'c{nav}.{a} is {vb}, original has {va}', pre + f'assert fc.{a} == fo.{a}, (fc.{a}, fo.{a})')
      elif isinstance(va, set) and va is vb:
        add('arg-sets.shared-set-object', f'c{nav}.{a} is the very set object of the original',
            pre + f'assert fc.{a} is not fo.{a}')
    bo, bc = ostate[0], _beh(fc)
    for probe, x, y in zip(_PROBES, bo, bc):
      if x != y:
        add(f'call.{_probe_family(fo, probe)}',
            f'c{nav}(*{probe[0]}, **{probe[1]}) gives {y}, the original {x}',
            pre + 'assert _beh(fc) == _beh(fo), [(p, x, y) for p, x, y in zip(_PROBES, _beh(fo), _beh(fc)) if x != y]')
    # What a call of the clone returns is made of the clone's own nodes.
    got = set()
    for args in ((), (7,)):
      try:
        _sym_ids(fc(*args), got)
      except Exception:  # pylint: disable=broad-except
        pass
    if got & own:
      add('call.returns-node-of-original', f'a call of c{nav} returns a symbolic node of the original',
          pre + 'ids = {i[2] for i in _snap(o) if len(i) > 4}\n'
          'for a in ((), (7,)):\n  try: r = fc(*a)\n  except Exception: continue\n'
          '  assert not [x for x in r if isinstance(x, pg.Symbolic) and id(x) in ids]')
  return list(out.values())


def _functor_subject(rec, label, src, navs, exprs, key, cache):
  """Clones one subject in every way of `exprs`; returns nothing."""
  try:
    build(src)
  except Exception as e:  # pylint: disable=broad-except
    rec.case('functor/subject-construction-raises', key, False,
             f'[{label}] {src!r} raised {type(e).__name__}: {e}', _fwit(src, []))
    return

  def run(depth, expr):
    """Returns the failed checks [(check, message, witness)] of one clone."""
    env = build(src)
    root = _root_of(env)
    # What the original does before it is cloned: the same for every build of
    # the same source.
    before = cache.get(('before', src))
    if before is None:
      before = cache[('before', src)] = [_fstate(eval('o' + nav, env)) for nav in navs]  # pylint: disable=eval-used
    snap = _snap(root)
    stmt = f'c = {expr}'
    try:
      _exec(stmt, env)
    except Exception as e:  # pylint: disable=broad-except
      return [('raises', f'{expr} raised {type(e).__name__}: {e}', _fwit(src, [stmt]))]
    fails = []
    after = [_fstate(eval('o' + nav, env)) for nav in navs]  # pylint: disable=eval-used
    snap2 = _snap(root)
    what, msg, (pre, post, sn) = _unchanged(snap, before, snap2, after, navs, 'o', 'root' if 'root' in env else 'o')
    if what:
      fails.append((f'modifies-original.{what}', f'{expr} changed the original: {msg}',
                    _fwit(src, pre + [stmt] + post, snap=sn)))
    for chk, msg, a in _functor_checks(env, navs, after):
      fails.append((chk, f'{expr}: {msg}', _fwit(src, [stmt, a], snap='_snap' in a)))
    return fails

  def base_of(depth):
    base = cache.get((src, depth))
    if base is None:
      base = cache[(src, depth)] = run(depth, dict(BASES)[depth])
      for chk, msg, w in base:
        rec.case(f'functor/{depth}/{chk}', key + ('clone', depth), False, f'[{label}] {msg}', w)
      if not base:
        rec.case(f'functor/{depth}', key + ('clone', depth), True)
    return base

  for alias, depth, expr in exprs:
    if alias == 'clone':
      base_of(depth)
      continue
    fails = run(depth, expr)
    if fails:
      # Only what holds for clone() of the same depth is put down to the alias.
      base_checks = {chk for chk, _, _ in base_of(depth)}
      fails = [f for f in fails if f[0] not in base_checks]
    for chk, msg, w in fails:
      rec.case(f'alias:{alias}/functor/{chk}', key + (alias, depth), False, f'[{label}] {msg}', w)
    if not fails:
      rec.case(f'alias:{alias}/functor', key + (alias, depth), True)


def _functor_override(rec, label, src, navs, key, overrides=None):
  """clone(override=...) of a functor's argument == the same rebind on the original."""
  for olabel, arg, val in overrides or F_OVERRIDES:
    for nav in navs:
      path = ''.join(f'[{k}]' if isinstance(k, int) else (f'.{k}' if i else k)
                     for i, k in enumerate(_nav_keys(nav) + [arg]))
      for depth, how in (('shallow', f'o.clone(override={{{path!r}: {val}}})'),
                         ('deep', f'o.clone(deep=True, override={{{path!r}: {val}}})'),
                         ('deep', f'pg.clone(o, deep=True, override={{{path!r}: {val}}})')):
        k2 = key + (olabel, nav, how)
        env = build(src)
        ref = build(src)
        if _apply(ref, f'o.rebind({{{path!r}: {val}}}, raise_on_no_change=False)') is not None:
          continue   # the change itself is refused: nothing to compare with
        if env['o'].is_sealed:
          continue   # a sealed original may refuse an override of its clone (see _override_cases)
        before = _snap(_root_of(env)), [_fstate(eval('o' + n, env)) for n in navs]  # pylint: disable=eval-used
        stmt = f'c = {how}'
        exc = _apply(env, stmt)
        if exc is not None:
          rec.case(f'functor-override/{depth}/raises', k2, False,
                   f'[{label}] {how} raised {type(exc).__name__}: {exc}', _fwit(src, [stmt]))
          continue
        after = _snap(_root_of(env)), [_fstate(eval('o' + n, env)) for n in navs]  # pylint: disable=eval-used
        what, msg, (pre, post, sn) = _unchanged(before[0], before[1], after[0], after[1], navs, 'o',
                                                'root' if 'root' in env else 'o')
        rec.case(f'functor-override/{depth}/modifies-original' + (f'.{what}' if what else ''), k2, not what,
                 f'[{label}] {how} changed the original: {msg}', _fwit(src, pre + [stmt] + post, snap=sn))
        try:
          want, got = _fstate(eval('o' + nav, ref)), _fstate(eval('c' + nav, env))  # pylint: disable=eval-used
        except Exception as e:  # pylint: disable=broad-except
          rec.case(f'functor-override/{depth}/structure', k2, False,
                   f'[{label}] {how}: c{nav} raised {type(e).__name__}: {e}', _fwit(src, [stmt, f'c{nav}']))
          continue
        what = 'call-behaviour' if want[0] != got[0] else 'arg-sets'
        rec.case(f'functor-override/{depth}' + ('' if want == got else f'/{what}-differs-from-rebound-original'), k2,
                 want == got,
                 f'[{label}] {how}: c{nav} behaves {got}, the original after the same rebind {want}',
                 # (the original is built anew for the comparison)
                 _fwit(f"SRC = '''{src}'''\nexec(SRC)", [stmt, f'fc = c{nav}', 'exec(SRC)',
                            f'o.rebind({{{path!r}: {val}}}, raise_on_no_change=False)', f'fo = o{nav}',
                            'S = lambda f: (_beh(f), f.specified_args, f.default_args, f.non_default_args)',
                            'assert S(fc) == S(fo), (S(fc), S(fo))']))


def _nav_keys(nav):
  """['k', 0] for ".sym_getattr('k').sym_getattr(0)"."""
  return [eval(x[:-1]) for x in nav.split('.sym_getattr(')[1:]]  # pylint: disable=eval-used


def _guarded(stmt, exc):
  return f'try:\n  {stmt}\nexcept Exception: pass' if exc else stmt


def _in_ctx(sealed, stmts):
  """Sealed values are changed inside the scopes that permit it."""
  return [_CTX] + ['  ' + x.replace('\n', '\n  ') for x in stmts] if sealed else stmts


def _functor_independence(rec, label, src, navs, depth, expr, muts, key):
  for mlabel, tmpl in muts:
    for nav in navs:
      for side, other in (('o', 'c'), ('c', 'o')):
        bind = f'fo, fc = o{nav}, c{nav}'
        try:
          env = build(src, expr)
          _exec(bind, env)
        except Exception:  # pylint: disable=broad-except
          return   # reported by the fidelity part
        sealed = env['fo'].is_sealed or env['fc'].is_sealed
        stmt = tmpl.format(e='f' + side)
        k2 = key + (expr, mlabel, nav, side)
        oroot = _root_of(env) if other == 'o' else env['c']
        oname = ('root' if 'root' in env else 'o') if other == 'o' else 'c'
        before = _snap(oroot), [_fstate(eval(other + n, env)) for n in navs]  # pylint: disable=eval-used
        faithful = _fstate(env['f' + side]) == before[1][navs.index(nav)]
        exc = _apply(env, '\n'.join(_in_ctx(sealed, [stmt])))
        after = _snap(oroot), [_fstate(eval(other + n, env)) for n in navs]  # pylint: disable=eval-used
        what, msg, (pre, post, sn) = _unchanged(before[0], before[1], after[0], after[1], navs, other, oname)
        rec.case(f'functor-interference/{depth}/{what}' if what else f'functor-independence/{depth}', k2, not what,
                 f'[{label}] c = {expr}; {bind}; `{stmt}` changed the {"original" if other == "o" else "clone"}: {msg}',
                 _fwit(src, [f'c = {expr}', bind] + pre + _in_ctx(sealed, [_guarded(stmt, exc)]) + post, snap=sn),
                 nontrivial=exc is None)
        if side != 'c' or not faithful:
          continue   # a clone that differs already is reported by the fidelity part
        # The clone, changed the way the original is changed, still behaves like it.
        twin = build(src, expr)
        _exec(bind, twin)
        stmt2 = tmpl.format(e='fo')
        texc = _apply(twin, '\n'.join(_in_ctx(sealed, [stmt2])))
        got = (type(exc).__name__, _fstate(env['fc']))
        want = (type(texc).__name__, _fstate(twin['fo']))
        rec.case(f'functor-same-change-same-behaviour/{depth}' + ('' if got == want else '/diverges'), k2, got == want,
                 f'[{label}] c = {expr}; {bind}; after `{stmt}` the clone behaves {got}; the original after the same '
                 f'change {want}',
                 _fwit(src, [f'c = {expr}', bind] + _in_ctx(sealed, [_guarded(stmt, exc), _guarded(stmt2, texc)])
                       + ['assert (_beh(fc), fc.specified_args) == (_beh(fo), fo.specified_args)']))


def _functor_peers(rec):
  """A call-time override of one side is not visible through the other."""
  for depth, expr in BASES + [('shallow', 'copy.copy(o)'), ('deep', 'copy.deepcopy(o)')]:
    for place, navs in (("o = Peek(x=1, override_args=True)", ''),
                        ("o = pg.Dict(k=Peek(x=1, override_args=True))", ".sym_getattr('k')")):
      for caller, peer in (('o', 'c'), ('c', 'o')):
        env = build(place, expr)
        body = [f'c = {expr}', f'PEER[:] = [{peer}{navs}]', f'r = {caller}{navs}(5)', 'PEER[:] = []']
        exc = None
        for line in body[1:]:
          exc = exc or _apply(env, line)
        _apply(env, 'PEER[:] = []')
        ok = exc is None and env.get('r') == (5, [1])
        rec.case(f'functor-call-time-override/{depth}'
                 + ('' if ok else '/call-raises' if exc else '/visible-through-the-other-side'),
                 (place, expr, caller), ok,
                 f'{place}; c = {expr}; PEER = [{peer}{navs}]; {caller}{navs}(5) '
                 + (f'raised {type(exc).__name__}: {exc}' if exc else f'returned {env.get("r")!r}, want (5, [1])'),
                 _fwit(place, body + ['assert r == (5, [1]), r']))


def drv_clone_functor_calls(tier, seed):
  quick = tier == 'quick'
  kinds = [(k, b) for k, bs in F_BINDINGS.items() for b in bs]
  rec = Recorder(
      'C07', 'clones of functors keep every piece of call behaviour',
      scope=f'{len(F_BINDINGS)} functor classes (decorated functions with defaults / varargs+varkw / keyword-only '
            f'arguments, subclassed functors untyped / typed) x {len(kinds)} argument bindings x override_args / '
            f'ignore_extra_args in all 4 combinations, {len(F_HISTORIES)} histories before cloning (rebind, '
            f'unbind, delattr, assignment, seal), {len(F_PLACEMENTS)} placements (stand-alone, in Dict / List / '
            'Object / typed Dict / functor argument / hyper candidate / picked out of a tree / inside a tuple leaf) '
            f'x {len(F_EXPRS)} clone expressions (clone, copy.copy, copy.deepcopy, pg.clone, memo, empty override, '
            'clones of clones, through plain containers, implicit copy on re-parenting); per clone: argument sets '
            f'equal and fresh, {len(_PROBES)} calls (missing / surplus / overriding / call-time-flag arguments) with '
            'the same outcome on both sides, original unchanged; clone(override=argument) against the rebound '
            f'original; {len(F_MUTATIONS)} later changes of either side not visible through the other, and the '
            'changed clone behaves like the original changed the same way'
            + ('; quick: all bindings x flags stand-alone x 4 clone expressions; every flags x placement x '
               'expression once and every class x history x flags once (other dimensions rotating); overrides and '
               'later changes on a rotating selection' if quick else
               '; all classes x bindings and histories x flags x placements x the four basic clone expressions, '
               'every expression stand-alone and for every third placement; overrides and three of the later '
               'changes for every fourth placement'))
  r = rng(seed, 'c07-functor')
  cache = {}
  main4 = F_EXPRS[:4]

  def exprs_for(place, exprs):
    label, _, _, depths = place
    out = [x for x in exprs if x[1] in depths]
    if label == 'picked-from-tree' and exprs is not main4:
      out.append(F_IMPLICIT)
    return out

  if quick:
    i = r.randint(0, 11)
    # (a) every binding x flags, stand-alone, the four basic clone expressions.
    for kind, binding in kinds:
      for ov, ig in FLAG_COMBOS:
        src = _fsrc(kind, binding, ov, ig)
        _functor_subject(rec, f'{kind}({binding})', src, [''], main4, (kind, binding, ov, ig, 'root', ''), cache)
    # (b) every placement x expression, flags rotating so that every placement
    # and every expression meets all four combinations; class / binding rotate.
    for pi, place in enumerate(F_PLACEMENTS):
      for ei, x in enumerate(exprs_for(place, F_EXPRS)):
        ov, ig = FLAG_COMBOS[(pi + ei + i) % 4]
        kind, binding = kinds[i % len(kinds)]
        i += 3
        src = _fsrc(kind, binding, ov, ig, '', place[1])
        _functor_subject(rec, f'{kind}({binding}) {place[0]}', src, place[2], [x],
                         (kind, binding, ov, ig, place[0], ''), cache)
    # (c) every class x history; flags and placement rotate.
    for ki, kind in enumerate(F_BINDINGS):
      for hi, (hlabel, start, hist) in enumerate(F_HISTORIES):
        ov, ig = FLAG_COMBOS[(ki + hi + i) % 4]
        place = F_PLACEMENTS[(2 * ki + hi + i) % len(F_PLACEMENTS)]
        binding = F_BOUND[kind] if start == 'bound' else ''
        src = _fsrc(kind, binding, ov, ig, hist, place[1])
        xs = exprs_for(place, main4)
        _functor_subject(rec, f'{kind}({binding}) {hlabel} {place[0]}', src, place[2],
                         [xs[(ki + hi) % len(xs)], xs[(ki + hi + 1) % len(xs)]],
                         (kind, binding, ov, ig, place[0], hlabel), cache)
    # (d) overrides and later changes: every binding, the rest rotating.
    for bi, (kind, binding) in enumerate(kinds):
      ov, ig = FLAG_COMBOS[(bi + i) % 4]
      place = F_PLACEMENTS[(bi + i) % (len(F_PLACEMENTS) - 1)]   # not inside a leaf
      src = _fsrc(kind, binding, ov, ig, '', place[1])
      key = (kind, binding, ov, ig, place[0])
      _functor_override(rec, f'{kind}({binding}) {place[0]}', src, place[2][-1:], key,
                        [F_OVERRIDES[(bi + i) % len(F_OVERRIDES)]])
      depth, expr = BASES[(bi + i) // 2 % 2]
      muts = [F_MUTATIONS[(bi + i + j) % len(F_MUTATIONS)] for j in (0, 3)]
      _functor_independence(rec, f'{kind}({binding}) {place[0]}', src, place[2][-1:], depth, expr, muts, key)
  else:
    hists = [('', None, '')] + F_HISTORIES
    i = r.randint(0, 11)
    for kind, bs in F_BINDINGS.items():
      for hlabel, start, hist in hists:
        for binding in (bs if start is None else [F_BOUND[kind] if start == 'bound' else '']):
          for ov, ig in FLAG_COMBOS:
            for pi, place in enumerate(F_PLACEMENTS):
              i += 1
              src = _fsrc(kind, binding, ov, ig, hist, place[1])
              key = (kind, binding, ov, ig, place[0], hlabel)
              label = f'{kind}({binding}) {hlabel} {place[0]}'
              # Every clone expression stand-alone and for every third
              # placement, the four basic ones elsewhere.
              every = pi == 0 or (pi + i // len(F_PLACEMENTS)) % 3 == 0
              _functor_subject(rec, label, src, place[2], exprs_for(place, F_EXPRS if every else main4), key, cache)
              cache.clear()
              # Overrides and later changes: every fourth placement.
              if place[0] == 'in-leaf' or (pi + i // len(F_PLACEMENTS)) % 4:
                continue
              _functor_override(rec, label, src, place[2][-1:], key)
              for j, (depth, expr) in enumerate(BASES if i % 2 else INDEP_METHODS[2:]):
                muts = [F_MUTATIONS[(i + j + m) % len(F_MUTATIONS)] for m in (0, 2, 4)]
                _functor_independence(rec, label, src, place[2][-1:], depth, expr, muts, key)
  _functor_peers(rec)
  return rec.result()


DRIVERS = [drv_clone_fidelity, drv_clone_independence, drv_clone_functor_calls]


def replay(rec):
  """Re-executes rec['witness']; returns (ok, message)."""
  try:
    exec(rec['witness'], {})  # pylint: disable=exec-used
    return True, 'witness passes'
  except Exception as e:  # pylint: disable=broad-except
    return False, f'{type(e).__name__}: {e}'
