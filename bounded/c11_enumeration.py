"""C11 -- search-space enumeration is exact (bounded run-time oracle drivers).

Property (from /verif/properties.jsonl): for every finite DNASpec, iter_dna
yields exactly space_size DNAs, pairwise different, strictly increasing, the
last one has no successor, and the set is precisely the set of DNAs that
satisfy the spec's constraints (arity, index ranges 0 <= i < n, distinctness,
sortedness, conditional sub-spaces).  validate() and binding accept exactly the
members and reject everything else (one-step corruptions included).
random_dna always returns a member; pg.geno.Sweeping proposes the same
sequence.

Oracle.  A spec is described by a small *model* (nested tuples, see `CH`, `SP`,
`FL`, `CU`); the real spec is built from the python source text rendered from
the model (`src`), so that every witness is self-contained.  From the model
alone (never from the library's iterator/validator) we derive

  * `members(model)`  -- brute-force enumeration of every DNA tree allowed by
    the constraint definition, as plain tuples `(value, (child, ...))`;
  * `accepts(model, tree)` -- a direct recursive membership predicate.

Both are written from the constraint list of the statement and are
cross-checked against each other inside the drivers (a disagreement is a
harness error, raised as an exception).  The expected iteration sequence is the
member list sorted lexicographically by the depth-first list of decisions.

Drivers.  The per-spec checks (`_size_checks`, `_iter_checks`,
`_member_checks`, `_random_checks`, `_sweep_checks`) take a `Cx`: a live spec
object plus the model it must behave as.  Besides specs built from their model
(space_size / iteration / membership / random+sweeping drivers, and the family
of non-empty single-point candidate sub-spaces) the same checks are run on
spec objects that were used and then edited in place or copied
(`drv_edited_specs`: the statement speaks of *every* specification, however
the object came about), and `drv_bind_sequences` / the retry in
`_check_accept` make sure that binding decides by membership at every attempt
on the same DNA object (a refusal is final and leaves the DNA unbound).
Validation/binding probes are the blind one-step `corruptions` of members and
the model-guided ones (`guided_corruptions`: exactly one constraint among the
choices of one Choices broken, all sub-trees well-formed -- e.g. one candidate
picked twice with different decisions in its conditional sub-space).  The
sweeping generator is driven beyond the end of the sequence (`_sweep_checks`).
`drv_answer_constructors` covers the constructors that assemble the DNA of a
spec from one answer per decision point (DNA.from_fn: index lists, ready-made
sub-tree DNAs, raw float/str values; DNA.from_dict: indices or sub-tree DNAs
keyed by decision point): whatever the answer form and wherever the answered
decision point sits, they return exactly the member spelled by the answers and
never a non-member (also run on edited spec objects).

This module is also imported by c12_dna_views.py (model, builders, oracles).
"""
import itertools
import random as _random
import time

import pyglove as pg
from pyvc.bounded import Recorder, rng

PROP = 'C11'

# =============================================================================
# Spec model
# =============================================================================


def SP(*elems):
  """Space of decision points (constant space if empty)."""
  return ('space', tuple(elems))


C = SP()


def CH(k, cands, distinct=True, srt=False, name=None, lits=None):
  """k choices out of `cands` (a list of SP)."""
  cands = tuple(cands)
  assert all(c[0] == 'space' for c in cands)
  return ('choices', k, cands, bool(distinct), bool(srt), name,
          None if lits is None else tuple(lits))


def ONE(cands, name=None, lits=None):
  return CH(1, cands, True, False, name, lits)


def FL(lo, hi, name=None):
  return ('float', float(lo), float(hi), name)


def CU(name=None):
  return ('custom', name)


def leaf(n, k=1, distinct=True, srt=False, name=None, lits=None):
  return CH(k, [C] * n, distinct, srt, name, lits)


LOCS = 'abcdefgh'
CUSTOM_VALUES = ('a', 'b')

PRELUDE = (
    "import pyglove as pg\n"
    "g = pg.geno; D = pg.DNA\n"
    "def _nx(d):\n"
    "  return D('a') if d is None else (D('b') if d.value == 'a' else None)\n"
    "def _rd(r, prev):\n"
    "  return D(r.choice(['a', 'b']))\n")

_ENV = {}
exec(PRELUDE, _ENV)  # pylint: disable=exec-used


def src(m, loc=None):
  """Python source text that builds the pg.geno spec described by model m."""
  kind = m[0]
  extra = ''
  if loc is not None:
    extra += f', location={loc!r}'
  if kind == 'space':
    if not m[1]:
      return 'g.constant()'
    return 'g.space([' + ', '.join(
        src(e, LOCS[i]) for i, e in enumerate(m[1])) + '])'
  if kind == 'choices':
    _, k, cands, distinct, srt, name, lits = m
    if name is not None:
      extra += f', name={name!r}'
    if lits is not None:
      extra += f', literal_values={list(lits)!r}'
    cs = '[' + ', '.join(src(c) for c in cands) + ']'
    if k == 1 and distinct and not srt:
      return f'g.oneof({cs}{extra})'
    return f'g.manyof({k}, {cs}, distinct={distinct}, sorted={srt}{extra})'
  if kind == 'float':
    if m[3] is not None:
      extra += f', name={m[3]!r}'
    return f'g.floatv({m[1]!r}, {m[2]!r}{extra})'
  if kind == 'custom':
    if m[1] is not None:
      extra += f', name={m[1]!r}'
    return f"g.custom('cu', next_dna_fn=_nx, random_dna_fn=_rd{extra})"
  raise ValueError(m)


def build(m):
  return eval(src(m), dict(_ENV))  # pylint: disable=eval-used


def is_finite(m):
  kind = m[0]
  if kind == 'space':
    return all(is_finite(e) for e in m[1])
  if kind == 'choices':
    return all(is_finite(c) for c in m[2])
  return False


def has_kind(m, kind):
  if m[0] == kind:
    return True
  if m[0] == 'space':
    return any(has_kind(e, kind) for e in m[1])
  if m[0] == 'choices':
    return any(has_kind(c, kind) for c in m[2])
  return False


# =============================================================================
# Oracle 1: brute-force enumeration of the members (from the constraints)
# =============================================================================
# A DNA tree is (value, (child, ...)).  Layout of a valid DNA (pg.DNA doc):
#   * a decision of a single choice is a node (index, children-of-the-chosen-
#     candidate-space);
#   * the decisions of a k>1 multi-choice are a node (None, (k single-choice
#     nodes));
#   * a float / custom decision is a leaf (float / str);
#   * the children of a space with >= 2 elements are one node per element; a
#     space with exactly one element is represented by that element's node,
#     and when that node has value None its children are inlined in the parent.


def float_values(m):
  lo, hi = m[1], m[2]
  return sorted(set([lo, (lo + hi) / 2.0, hi]))


def index_tuples(n, k, distinct, srt):
  """All k-tuples of candidate indices allowed by the constraints."""
  out = []
  for t in itertools.product(range(n), repeat=k):
    if distinct and len(set(t)) != k:
      continue
    if srt and any(t[i] > t[i + 1] for i in range(k - 1)):
      continue
    out.append(t)
  return out


def dp_nodes(m):
  """All alternative nodes for decision point m."""
  kind = m[0]
  if kind == 'float':
    return [(v, ()) for v in float_values(m)]
  if kind == 'custom':
    return [(v, ()) for v in CUSTOM_VALUES]
  assert kind == 'choices', m
  _, k, cands, distinct, srt, _, _ = m
  per_cand = [space_children(c) for c in cands]
  out = []
  if k == 1:
    for i in range(len(cands)):
      for ch in per_cand[i]:
        out.append((i, ch))
    return out
  for t in index_tuples(len(cands), k, distinct, srt):
    for combo in itertools.product(*[per_cand[i] for i in t]):
      out.append((None, tuple((i, ch) for i, ch in zip(t, combo))))
  return out


def space_children(m):
  """All alternative child tuples that represent space m below a choice."""
  elems = m[1]
  if not elems:
    return [()]
  if len(elems) == 1:
    out = []
    for node in dp_nodes(elems[0]):
      out.append(node[1] if node[0] is None else (node,))
    return out
  return [tuple(t) for t in itertools.product(*[dp_nodes(e) for e in elems])]


def members(m):
  """All member trees of the spec (root may be a space or a decision point)."""
  if m[0] != 'space':
    nodes = dp_nodes(m)
  elif not m[1]:
    nodes = [(None, ())]
  elif len(m[1]) == 1:
    nodes = dp_nodes(m[1][0])
  else:
    nodes = [(None, tuple(t))
             for t in itertools.product(*[dp_nodes(e) for e in m[1]])]
  nodes.sort(key=flat)
  return nodes


def count_members(m):
  """Number of members without materialising them (finite specs only)."""
  kind = m[0]
  if kind == 'space':
    r = 1
    for e in m[1]:
      r *= count_members(e)
    return r
  assert kind == 'choices', m
  _, k, cands, distinct, srt, _, _ = m
  sizes = [count_members(c) for c in cands]
  total = 0
  for t in index_tuples(len(cands), k, distinct, srt):
    p = 1
    for i in t:
      p *= sizes[i]
    total += p
  return total


def flat(node):
  """Depth-first list of the decisions of a tree."""
  out = [] if node[0] is None else [node[0]]
  for c in node[1]:
    out.extend(flat(c))
  return out


# =============================================================================
# Oracle 2: membership predicate (from the constraints)
# =============================================================================


def _is_int(v):
  return type(v) is int  # pylint: disable=unidiomatic-typecheck


def why_not_dp(m, node):
  """None if `node` is a valid decision for decision point m, else a reason."""
  value, children = node
  kind = m[0]
  if kind == 'float':
    if type(value) is not float:  # pylint: disable=unidiomatic-typecheck
      return 'float-wrong-type'
    if value < m[1]:
      return 'float-below-min'
    if value > m[2]:
      return 'float-above-max'
    if children:
      return 'float-with-children'
    return None
  if kind == 'custom':
    return None if isinstance(value, str) else 'custom-wrong-type'
  _, k, cands, distinct, srt, _, _ = m
  n = len(cands)

  def index_reason(v):
    if v is None:
      return 'index-missing'
    if not _is_int(v):
      return 'index-wrong-type'
    if v < 0:
      return 'negative-index'
    if v >= n:
      return 'index-too-large'
    return None

  if k == 1:
    return index_reason(value) or why_not_children(cands[value], children)
  if value is not None:
    return 'value-on-multi-choice-container'
  if len(children) != k:
    return 'wrong-number-of-choices'
  vals = [c[0] for c in children]
  for v in vals:
    reason = index_reason(v)
    if reason:
      return reason
  if distinct and len(set(vals)) != k:
    # The constraint is on the chosen candidates (indices).  Two picks of the
    # same candidate that differ in the decisions of its conditional sub-space
    # are an input class of their own (the nodes differ, the indices do not).
    subtrees = set((c[0], tkey((None, c[1]))) for c in children)
    return ('duplicate-choices' if len(subtrees) == len(set(vals)) else
            'duplicate-choices-with-other-sub-decisions')
  if srt and any(vals[i] > vals[i + 1] for i in range(k - 1)):
    return 'unsorted-choices'
  for c in children:
    reason = why_not_children(cands[c[0]], c[1])
    if reason:
      return reason
  return None


def why_not_children(m, children):
  """None if `children` represent space m below a chosen candidate."""
  elems = m[1]
  if not elems:
    return 'children-under-constant-candidate' if children else None
  if len(elems) == 1:
    e = elems[0]
    if e[0] == 'choices' and e[1] > 1:
      reason = why_not_dp(e, (None, children))
      if (reason == 'wrong-number-of-choices' and len(children) == 1
          and children[0][0] is not None
          and why_not_dp(e, (None, children[0][1])) is None):
        # The sole child is the (not inlined) container of the k picks with a
        # value put on it: the same input class as a value on a root
        # multi-choice container.
        return 'value-on-multi-choice-container'
      return reason
    if not children:
      return 'missing-children'
    if len(children) > 1:
      return 'too-many-children'
    return why_not_dp(e, children[0])
  if len(children) != len(elems):
    return 'wrong-number-of-elements'
  for e, c in zip(elems, children):
    reason = why_not_dp(e, c)
    if reason:
      return reason
  return None


def why_not(m, node):
  """None iff tree `node` is a member of spec model m, else the reason."""
  if m[0] != 'space':
    return why_not_dp(m, node)
  elems = m[1]
  if not elems:
    if node[0] is not None:
      return 'value-on-constant-space'
    return 'children-on-constant-space' if node[1] else None
  if len(elems) == 1:
    return why_not_dp(elems[0], node)
  if node[0] is not None:
    return 'value-on-space-container'
  return why_not_children(m, node[1])


def accepts(m, node):
  return why_not(m, node) is None


def touches_custom_children(m, node):
  """True if some str-valued node of the tree has children (user defined)."""
  if isinstance(node[0], str) and node[1]:
    return True
  return any(touches_custom_children(m, c) for c in node[1])


# =============================================================================
# Trees <-> pg.DNA
# =============================================================================


def mk(node):
  """Fresh, unbound pg.DNA with exactly this tree (explicit constructor)."""
  return pg.DNA(node[0], [mk(c) for c in node[1]])


def shape(dna):
  """Tree of a pg.DNA."""
  return (dna.value, tuple(shape(c) for c in dna.children))


def tkey(node):
  """Type-strict hashable key of a tree (0 != 0.0 != False)."""
  return (type(node[0]).__name__, node[0], tuple(tkey(c) for c in node[1]))


def dsrc(node):
  """Source text building the DNA of a tree (uses D = pg.DNA)."""
  if not node[1]:
    return f'D({node[0]!r})'
  return f'D({node[0]!r}, [' + ', '.join(dsrc(c) for c in node[1]) + '])'


PRELUDE_SHORT = 'import pyglove as pg\ng = pg.geno; D = pg.DNA\n'


def wit(m, body):
  """Self-contained witness snippet: builds `spec` from the model, then body."""
  pre = PRELUDE if has_kind(m, 'custom') else PRELUDE_SHORT
  return pre + f'spec = {src(m)}\n' + body


REJECTIONS = (ValueError, TypeError)
_last_error = [None]


def raises(fn):
  """(raised?, text).  The documented rejection is ValueError (TypeError for
  wrongly typed values is tolerated); any other exception type (IndexError,
  AssertionError, ...) is remembered in _last_error as a crash."""
  _last_error[0] = None
  try:
    fn()
    return False, ''
  except REJECTIONS as e:
    return True, f'{type(e).__name__}: {e}'[:200]
  except Exception as e:  # pylint: disable=broad-except
    _last_error[0] = f'{type(e).__name__}: {e}'[:200]
    return True, _last_error[0]


# =============================================================================
# Spec generators
# =============================================================================
FLAGS = [(True, False), (True, True), (False, False), (False, True)]


def leaf_family(nmax, kmax):
  """Every multi/single choice over constants: n<=nmax, k<=kmax, all flags."""
  out = []
  for n in range(1, nmax + 1):
    for k in range(1, kmax + 1):
      for distinct, srt in FLAGS:
        if k == 1 and (distinct, srt) not in [(True, False), (False, True)]:
          continue
        if distinct and k > n:
          continue
        out.append(CH(k, [C] * n, distinct, srt))
  return out


def gen_dps(w, nmax, kmax, depth, inner_flags=FLAGS):
  """All Choices of weight exactly... at most w (weight = #candidate slots)."""
  out = []
  for n in range(1, min(nmax, w) + 1):
    cand_lists = _cand_lists(n, w - n, nmax, kmax, depth - 1, inner_flags)
    for k in range(1, kmax + 1):
      for distinct, srt in inner_flags:
        if k == 1 and (distinct, srt) != (True, False):
          continue
        if distinct and k > n:
          continue
        for cands in cand_lists:
          out.append(CH(k, cands, distinct, srt))
  return out


def _subspaces(w, nmax, kmax, depth, inner_flags):
  """Sub-spaces (non constant) of weight <= w with 1 or 2 elements."""
  if depth <= 0 or w <= 0:
    return []
  dps = gen_dps(w, nmax, kmax, depth, inner_flags)
  out = [SP(d) for d in dps]
  if w >= 2:
    small = [d for d in dps if weight(d) <= w - 1]
    for a in small:
      for b in small:
        if weight(a) + weight(b) <= w:
          out.append(SP(a, b))
  return out


def _cand_lists(n, w, nmax, kmax, depth, inner_flags):
  """All lists of n candidate spaces with total weight <= w."""
  subs = _subspaces(w, nmax, kmax, depth, inner_flags)
  out = []

  def rec(i, left, acc):
    if i == n:
      out.append(tuple(acc))
      return
    rec(i + 1, left, acc + [C])
    for s in subs:
      ws = weight(s)
      if ws <= left:
        rec(i + 1, left - ws, acc + [s])
  rec(0, w, [])
  return out


def weight(m):
  if m[0] == 'space':
    return sum(weight(e) for e in m[1])
  if m[0] == 'choices':
    return len(m[2]) + sum(weight(c) for c in m[2])
  return 1


def depth_of(m):
  if m[0] == 'space':
    return max([depth_of(e) for e in m[1]] or [0])
  if m[0] == 'choices':
    return 1 + max(depth_of(c) for c in m[2])
  return 1


# Hand-picked sub-spaces of different sizes / shapes used as candidates.
S2 = SP(leaf(2))                                   # size 2
S3 = SP(leaf(3))                                   # size 3
SM = SP(leaf(3, 2, True, True))                    # size 3, inlined children
SMU = SP(leaf(2, 2, False, False))                 # size 4, inlined children
S22 = SP(leaf(2), leaf(2))                         # size 4, two elements
SN = SP(ONE([C, S2]))                              # size 3, nested conditional
SNM = SP(ONE([SP(leaf(2, 2, True, False)), C]))    # size 3
SF = SP(FL(0.0, 1.0))
SCU = SP(CU())
SFC = SP(FL(-1.0, 1.0), leaf(2))


def conditional_family(ns, ks, menu, cap, r=None, keep=None):
  """Choices whose candidates are drawn from `menu` (all assignments)."""
  out = []
  for n in ns:
    for k in ks:
      for distinct, srt in FLAGS:
        if k == 1 and (distinct, srt) != (True, False):
          continue
        if distinct and k > n:
          continue
        for cands in itertools.product(menu, repeat=n):
          if all(c == C for c in cands):
            continue
          m = CH(k, cands, distinct, srt)
          if is_finite(m) and count_members(m) > cap:
            continue
          out.append(m)
  if r is not None and keep is not None and len(out) > keep:
    out = r.sample(out, keep)
  return out


def handpicked_roots():
  """Root specs exercising the Space odometer, depth and inlining."""
  l2, l3 = leaf(2), leaf(3)
  return [
      SP(),
      SP(l2), SP(l3), SP(leaf(1)),
      SP(l2, l3),
      SP(l3, l2, l2),
      SP(leaf(1), l2), SP(l2, leaf(1)),
      SP(leaf(3, 2), l2),
      SP(l2, leaf(3, 2, True, True)),
      SP(leaf(2, 2, False, False), leaf(2, 2, False, True)),
      SP(leaf(3, 2, True, True), leaf(3, 2, True, False), l2),
      SP(ONE([C, S2, S3])),
      SP(ONE([S3, C, S2]), l2),
      SP(l2, ONE([S3, C, S2])),
      SP(ONE([S22, C])),
      SP(ONE([C, S22]), ONE([SM, C])),
      SP(ONE([SP(ONE([SP(ONE([C, C, C]))]))])),
      SP(ONE([SP(ONE([C, SP(ONE([C, S2]))])), C])),
      SP(ONE([SN, S2])),
      SP(CH(2, [SN, C, S2], True, False)),
      SP(CH(2, [SM, S2], False, True)),
      SP(CH(2, [S22, C], False, False)),
      SP(CH(2, [SNM, C, C], True, True), l2),
      SP(CH(3, [S2, C], False, True)),
      SP(CH(3, [C, S2, S2], True, False)),
      SP(CH(2, [SP(CH(2, [C, S2], True, False)), C], True, False)),
      SP(CH(2, [SP(CH(2, [S2, C], False, True)), S2], False, False)),
      # Bare decision points as root spec.
      l3, leaf(3, 2), CH(2, [S2, C, S3], True, True), ONE([S22, SM]),
  ]


def infinite_roots():
  return [
      SP(FL(0.0, 1.0)),
      SP(FL(2.0, 2.0)),
      SP(CU()),
      SP(leaf(2), FL(-1.0, 1.0)),
      SP(FL(0.0, 1.0), CU()),
      SP(ONE([SF, C, SCU])),
      SP(ONE([SF, SP(FL(2.0, 3.0))])),
      SP(CH(2, [SF, C, S2], True, False)),
      SP(CH(2, [SFC, C], False, True)),
      SP(ONE([SFC, SP(CU(), leaf(2))]), leaf(2)),
      FL(0.5, 1.5),
      CU(),
  ]


# =============================================================================
# Corruptions (DNA-shaped inputs near the valid set)
# =============================================================================


def _paths(node, prefix=()):
  yield prefix
  for i, c in enumerate(node[1]):
    yield from _paths(c, prefix + (i,))


def _get(node, path):
  for i in path:
    node = node[1][i]
  return node


def _replace(node, path, new):
  if not path:
    return new
  i = path[0]
  ch = list(node[1])
  ch[i] = _replace(ch[i], path[1:], new)
  return (node[0], tuple(ch))


def corruptions(node, nmax=4):
  """(kind, tree) one-step edits of a tree."""
  out = []
  for p in _paths(node):
    sub = _get(node, p)
    v, ch = sub
    # value edits
    cand = []
    if _is_int(v):
      cand += [('value-negative', -1), ('value-negative', -2),
               ('value-negative', -nmax), ('value-plus1', v + 1),
               ('value-minus1', v - 1) if v > 0 else None,
               ('value-large', nmax + 3), ('value-as-float', float(v)),
               ('value-as-str', str(v)), ('value-none', None)]
      cand += [('value-other-index', i) for i in range(nmax) if i != v]
    elif isinstance(v, float):
      cand += [('float-below', v - 100.0), ('float-above', v + 100.0),
               ('float-as-int', int(v)), ('float-as-str', 'a'),
               ('value-none', None)]
    elif isinstance(v, str):
      cand += [('custom-as-int', 0), ('custom-as-float', 0.5),
               ('value-none', None)]
    else:
      cand += [('value-on-container', 0), ('value-on-container', 1),
               ('value-on-container', -1)]
    for c in cand:
      if c is not None:
        out.append((c[0], _replace(node, p, (c[1], ch))))
    # child count edits
    if ch:
      for i in range(len(ch)):
        out.append(('drop-child', _replace(node, p, (v, ch[:i] + ch[i + 1:]))))
      out.append(('drop-all-children', _replace(node, p, (v, ()))))
      out.append(('extra-child-copy', _replace(node, p, (v, ch + (ch[-1],)))))
      out.append(('extra-child-leaf0', _replace(node, p, (v, ch + ((0, ()),)))))
      for i in range(len(ch) - 1):
        sw = list(ch)
        sw[i], sw[i + 1] = sw[i + 1], sw[i]
        out.append(('swap-children', _replace(node, p, (v, tuple(sw)))))
      for i in range(len(ch)):
        for j in range(len(ch)):
          if i != j:
            du = list(ch)
            du[j] = ch[i]
            out.append(('duplicate-child', _replace(node, p, (v, tuple(du)))))
    else:
      if not isinstance(v, str):
        out.append(('child-under-leaf', _replace(node, p, (v, ((0, ()),)))))
        out.append(('child-under-leaf',
                    _replace(node, p, (v, ((0, ()), (1, ()))))))
  # dedupe (keep first kind)
  seen = set()
  res = []
  for kind, t in out:
    key = tkey(t)
    if key in seen or key == tkey(node):
      continue
    seen.add(key)
    res.append((kind, t))
  return res


# ---- model-guided corruptions ------------------------------------------------
# The edits above are blind: changing an index leaves the children of the old
# candidate in place, so the edited tree usually breaks several constraints at
# once and is refused whichever of them is tested.  The edits below break ONE
# constraint among the choices of ONE Choices (arity / index range / index type
# / distinctness / sortedness; `index_list_edits`) and keep everything else
# well-formed: every changed pick gets the children of a member of its (new)
# candidate sub-space, and where the same candidate is picked more than once
# the picks get *different* sub-decisions whenever the sub-space has more than
# one point (same indices, different nodes).


def _children_alternatives(space, r):
  if not is_finite(space) or count_members(space) <= 200:
    return space_children(space)
  return [fresh_children(space, r) for _ in range(4)]


def _other_children(space, avoid, r):
  """Children of a member of `space`, if possible none of those in `avoid`."""
  alts = _children_alternatives(space, r)
  used = set(tkey((None, a)) for a in avoid)
  pref = [a for a in alts if tkey((None, a)) not in used]
  return r.choice(pref or alts)


def _guided_dp(dp, node, r):
  """(kind, node') for the decision point dp answered by the valid `node`."""
  out = []
  if dp[0] != 'choices':
    return out
  _, k, cands, _, _, _, _ = dp
  picks = [node] if k == 1 else list(node[1])
  base = [p[0] for p in picks]
  for lst in index_list_edits(dp, base):
    reason = index_list_reason(dp, lst)
    if k == 1 and len(lst) != 1:
      continue
    new = []
    for j, v in enumerate(lst):
      if j < len(picks) and _is_int(v) and picks[j][0] == v:
        new.append(picks[j])
      elif _is_int(v) and 0 <= v < len(cands):
        same = [p[1] for p in picks + new if p[0] == v]
        new.append((v, _other_children(cands[v], same, r)))
      else:
        new.append((v, ()))
    tree = new[0] if k == 1 else (None, tuple(new))
    if reason == 'duplicate-choices':
      reason = why_not_dp(dp, tree) or reason      # with-other-sub-decisions?
    elif reason is None:
      # other choices that satisfy every constraint: a member again
      reason = ('member-repeating-a-candidate' if repeats_candidate(new)
                else 'member')
    out.append(('guided-' + reason, tree))
  for j, p in enumerate(picks):
    for kind, ch in _guided_children(cands[p[0]], p[1], r):
      np_ = (p[0], ch)
      out.append((kind, np_ if k == 1 else
                  (None, tuple(picks[:j] + [np_] + picks[j + 1:]))))
  return out


def _guided_children(space, children, r):
  """(kind, children') for the children tuple representing a member of space."""
  elems = space[1]
  if not elems:
    return []
  children = tuple(children)
  if len(elems) == 1:
    e = elems[0]
    multi = e[0] == 'choices' and e[1] > 1
    node = (None, children) if multi else children[0]
    return [(kind, n[1] if multi else (n,)) for kind, n in _guided_dp(e, node, r)]
  out = []
  for i, (e, c) in enumerate(zip(elems, children)):
    for kind, n in _guided_dp(e, c, r):
      out.append((kind, children[:i] + (n,) + children[i + 1:]))
  return out


def repeats_candidate(picks):
  """True if two of the picks of a multi-choice take the same candidate with
  different decisions in its sub-space."""
  seen = {}
  return any(seen.setdefault(p[0], tkey((None, p[1]))) != tkey((None, p[1]))
             for p in picks)


def guided_corruptions(m, node, r):
  """(kind, tree): member `node` of model m with one constraint among the
  choices of one Choices broken and every other decision well-formed."""
  if m[0] != 'space':
    out = _guided_dp(m, node, r)
  elif not m[1]:
    out = []
  elif len(m[1]) == 1:
    out = _guided_dp(m[1][0], node, r)
  else:
    out = [(kind, (None, ch)) for kind, ch in _guided_children(m, node[1], r)]
  seen, res = set(), []
  for kind, t in out:
    key = tkey(t)
    if key not in seen:
      seen.add(key)
      res.append((kind, t))
  return res


def small_trees(values, max_nodes=3):
  """All trees with at most max_nodes nodes over `values`."""
  by_n = {1: [(v, ()) for v in values]}
  for n in range(2, max_nodes + 1):
    cur = []
    # partitions of n-1 nodes into ordered child lists
    def parts(left):
      if left == 0:
        yield ()
        return
      for a in range(1, left + 1):
        for rest in parts(left - a):
          yield (a,) + rest
    for part in parts(n - 1):
      for kids in itertools.product(*[by_n[a] for a in part]):
        for v in values:
          cur.append((v, tuple(kids)))
    by_n[n] = cur
  out = []
  for n in range(1, max_nodes + 1):
    out.extend(by_n[n])
  return out


# =============================================================================
# Single-point (size 1) but non-empty sub-spaces
# =============================================================================
# A candidate sub-space may contain decision points and still have exactly one
# point.  Its DNA is NOT the DNA of a constant candidate: the (forced)
# decisions are spelled out, e.g. oneof([constant, space([oneof([c])])]) has
# the members 0 and 1 -> (0), never a bare 1.
S1 = SP(leaf(1))                                   # oneof([c])
S1M = SP(leaf(2, 2, True, True))                   # choose 2 of 2, sorted
S1R = SP(leaf(1, 2, False, False))                 # choose 2 of 1, repeats
S11 = SP(leaf(1), leaf(1))                         # two forced elements
S1N = SP(ONE([S1]))                                # forced, nested
S1K = SP(leaf(3, 3, True, True))                   # choose 3 of 3, sorted
SINGLE_POINT = [S1, S1M, S1R, S11, S1N, S1K]


def single_point_roots():
  """Specs whose candidates include non-empty sub-spaces of size 1."""
  l2 = leaf(2)
  return [
      SP(ONE([C, S1])),
      SP(ONE([S1M, C]), l2),
      SP(l2, ONE([S1R, S2])),
      SP(ONE([S11, C])),
      SP(ONE([S1N, S1, C])),
      SP(ONE([C, S1K])),
      SP(ONE([SP(ONE([C, S1M])), S1])),
      SP(CH(2, [S1, C, S1M], True, False)),
      SP(CH(2, [S1M, S2], False, True)),
      SP(CH(2, [S11, C], True, True), l2),
      SP(CH(3, [S1R, C], False, True)),
      SP(S1[1][0], l2), SP(l2, S1M[1][0]),          # forced root elements
      # bare decision points / single-point roots
      ONE([S1]), ONE([S1M, S1]), CH(2, [S11, S1], False, False),
      SP(ONE([S1])), SP(leaf(2, 2, True, True)), SP(leaf(1), leaf(1)),
  ]


# =============================================================================
# In-place edits of a specification
# =============================================================================
# A DNASpec is a mutable symbolic object.  After an edit the object is again a
# finite search-space specification and everything the statement says must hold
# for the edited object (reported size, iteration, validation, ...).


def model_nodes(m, path=()):
  yield path, m
  if m[0] == 'space':
    for i, e in enumerate(m[1]):
      yield from model_nodes(e, path + (('e', i),))
  elif m[0] == 'choices':
    for j, c in enumerate(m[2]):
      yield from model_nodes(c, path + (('c', j),))


def model_put(m, path, new):
  if not path:
    return new
  (t, i), rest = path[0], path[1:]
  if t == 'e':
    el = list(m[1])
    el[i] = model_put(el[i], rest, new)
    return ('space', tuple(el))
  cands = list(m[2])
  cands[i] = model_put(cands[i], rest, new)
  return m[:2] + (tuple(cands),) + m[3:]


def path_attr(path):
  return '.'.join(('elements[%d]' if t == 'e' else 'candidates[%d]') % i
                  for t, i in path)


def node_pairs(m, obj, attr=''):
  """(sub-model, live node, attribute path text) of every Space/Choices node."""
  yield m, obj, attr
  if m[0] == 'space':
    for i, e in enumerate(m[1]):
      yield from node_pairs(e, obj.elements[i], f'{attr}.elements[{i}]')
  elif m[0] == 'choices':
    for j, c in enumerate(m[2]):
      yield from node_pairs(c, obj.candidates[j], f'{attr}.candidates[{j}]')


CAND_MENU = [C, S2, S1, S1M, SM, S11, SN]
ELEM_MENU = [leaf(2), leaf(1), leaf(3, 2, True, True), leaf(2, 2, True, True),
             ONE([C, S2])]
EDIT_KINDS = ['num_choices', 'distinct', 'sorted', 'flags',
              'append-candidate', 'insert-candidate', 'remove-candidate',
              'replace-candidate', 'append-element', 'insert-element',
              'remove-element', 'replace-element']
EDIT_GROUP = {'num_choices': 'choice-flags', 'distinct': 'choice-flags',
              'sorted': 'choice-flags', 'flags': 'choice-flags',
              'append-candidate': 'candidates', 'insert-candidate': 'candidates',
              'remove-candidate': 'candidates', 'replace-candidate': 'candidates',
              'append-element': 'elements', 'insert-element': 'elements',
              'remove-element': 'elements', 'replace-element': 'elements'}


def _list_edits(obj, attr, field, n, items, render):
  """(kind stem, index/None, new item/None, [statement alternatives])."""
  lst = f'{obj}.{field}'
  key = f'{attr}.{field}' if attr else field
  out = []
  for it in items:
    out.append(('append', n, it, [
        f'{lst}.append({render(it, n)})',
        f"spec.rebind({{'{key}[{n}]': {render(it, n)}}})"]))
    out.append(('insert', 0, it, [f'{lst}.insert(0, {render(it, n)})']))
    for j in range(n):
      out.append(('replace', j, it, [
          f'{lst}[{j}] = {render(it, j)}',
          f"spec.rebind({{'{key}[{j}]': {render(it, j)}}})"]))
  for j in range(n):
    out.append(('remove', j, None, [f'del {lst}[{j}]', f'{lst}.pop({j})']))
  return out


def model_edits(m):
  """Every single in-place edit of model m.

  Returns (kind, new model, [python statements that perform the edit on the
  variable `spec`; alternatives: on the node itself / through the root]).
  """
  out = []
  for path, sub in model_nodes(m):
    attr = path_attr(path)
    obj = 'spec' + ('.' + attr if attr else '')
    if sub[0] == 'choices':
      _, k, cands, distinct, srt, name, lits = sub
      n = len(cands)
      for k2 in (1, 2, 3):
        for d2, s2 in FLAGS:
          ch = {}
          if k2 != k:
            ch['num_choices'] = k2
          if d2 != distinct:
            ch['distinct'] = d2
          if s2 != srt:
            ch['sorted'] = s2
          if not ch or (d2 and k2 > n):
            continue
          kind = list(ch)[0] if len(ch) == 1 else 'flags'
          kw = ', '.join(f'{a}={v!r}' for a, v in ch.items())
          stmts = [f'{obj}.rebind({kw})']
          if attr:
            stmts.append('spec.rebind({' + ', '.join(
                f"'{attr}.{a}': {v!r}" for a, v in ch.items()) + '})')
          out.append((kind, model_put(m, path, CH(k2, cands, d2, s2, name, lits)),
                      stmts))
      if lits is not None:
        continue
      for stem, j, it, stmts in _list_edits(
          obj, attr, 'candidates', n, CAND_MENU, lambda c, _: src(c)):
        if stem == 'append':
          new = cands + (it,)
        elif stem == 'insert':
          new = (it,) + cands
        elif stem == 'replace':
          if it == cands[j]:
            continue
          new = cands[:j] + (it,) + cands[j + 1:]
        else:
          new = cands[:j] + cands[j + 1:]
          if not new or (distinct and k > len(new)):
            continue
        out.append((stem + '-candidate',
                    model_put(m, path, CH(k, new, distinct, srt, name, lits)),
                    stmts))
    elif sub[0] == 'space':
      el = sub[1]
      for stem, j, it, stmts in _list_edits(
          obj, attr, 'elements', len(el), ELEM_MENU,
          lambda e, i: src(e, LOCS[min(i, len(LOCS) - 1)])):
        if stem == 'append':
          new = el + (it,)
        elif stem == 'insert':
          new = (it,) + el
        elif stem == 'replace':
          if it == el[j]:
            continue
          new = el[:j] + (it,) + el[j + 1:]
        else:
          new = el[:j] + el[j + 1:]
        out.append((stem + '-element', model_put(m, path, SP(*new)), stmts))
  return out


WARM = (
    'import itertools as I, random\n'
    'def _walk(s):\n'
    '  yield s\n'
    '  for x in (s.elements if s.is_space else s.candidates): yield from _walk(x)\n'
    'def _use(s):\n'
    '  [x.space_size for x in _walk(s)]; s.random_dna(random.Random(0))\n'
    '  [s.validate(d) for d in I.islice(s.iter_dna(), 5)]\n')


# =============================================================================
# Checks of one live spec object against a model
# =============================================================================
# Non-members that the library is already known to accept (listed in
# known_findings.json under the un-prefixed ids); not probed again on edited
# specs.
KNOWN_ACCEPTED = {('validate', 'value-on-multi-choice-container'),
                  ('validate', 'value-on-space-container'),
                  ('bind', 'float-with-children')}


class Cx:
  """One live spec object under check and the model it must behave as.

  `setup` is the source text that leaves the object in the variable `spec`
  (default: built from the model); `pre` replaces the per-class suffix of the
  case ids by a prefix that names the way the object was obtained.
  """

  def __init__(self, rec, m, r, tier, spec=None, setup=None, label=None,
               pre=''):
    self.rec, self.m, self.r, self.tier = rec, m, r, tier
    self.spec = build(m) if spec is None else spec
    self.setup = setup
    self.label = src(m) if label is None else label
    self.pre = pre
    self._mem = None

  @property
  def mem(self):
    if self._mem is None:
      self._mem = members(self.m)
      _self_check(self.m, self._mem)
    return self._mem

  def wit(self, body):
    if self.setup is None:
      return wit(self.m, body)
    return self.setup + body

  def cid(self, base, cls=None):
    if self.pre:
      return f'{self.pre}/{base}'
    return base if cls is None else f'{base}/{cls}'

  def case(self, base, cls, key, ok, message, body):
    extra = () if key is None else (key,)
    return self.rec.case(self.cid(base, cls),
                         self.label if key is None else (self.label,) + extra,
                         ok, message, self.wit(body))


def _self_check(m, mem):
  """Harness self check: the two oracles agree on members."""
  for t in mem:
    if not accepts(m, t):
      raise AssertionError(f'harness: accepts() rejects enumerated member '
                           f'{t!r} of {src(m)}')
  keys = set(tkey(t) for t in mem)
  if len(keys) != len(mem):
    raise AssertionError(f'harness: duplicate members for {src(m)}')
  fl = [flat(t) for t in mem]
  for a, b in zip(fl, fl[1:]):
    if not a < b:
      raise AssertionError(f'harness: member order not strict for {src(m)}')
  if is_finite(m) and count_members(m) != len(mem):
    raise AssertionError(f'harness: count_members != len(members) for {src(m)}')
  return keys


def _multi_class(m):
  """Class by the flags of the multi-choices present (short)."""
  acc = set()

  def walk(x):
    if x[0] == 'space':
      for e in x[1]:
        walk(e)
    elif x[0] == 'choices':
      if x[1] > 1:
        acc.add('%s%s' % ('distinct' if x[3] else 'nondistinct',
                          '-sorted' if x[4] else '-unsorted'))
      for c in x[2]:
        walk(c)
  walk(m)
  cond = 'cond' if depth_of(m) > 1 else 'flat'
  if not acc:
    return 'single/' + cond
  if len(acc) > 1:
    return 'mixed/' + cond
  return acc.pop() + '/' + cond


def _size_checks(cx, nested=True):
  """Reported size of the root (and of every nested node) vs the member count."""
  cls = _multi_class(cx.m) if is_finite(cx.m) else 'infinite'
  for sm, obj, attr in node_pairs(cx.m, cx.spec):
    if sm[0] not in ('space', 'choices'):
      continue
    want = count_members(sm) if is_finite(sm) else -1
    got = obj.space_size
    if not attr:
      cx.case('space_size', cls, None, got == want,
              f'space_size={got}, brute-force count={want}',
              f'assert spec.space_size == {want}, spec.space_size')
    elif nested:
      cx.case('space_size-of-nested-node', cls, attr, got == want,
              f'spec{attr}.space_size={got}, brute-force count={want}',
              f'assert spec{attr}.space_size == {want}, spec{attr}.space_size')


def drv_space_size(tier, seed):
  """space_size == number of members, over an exhaustive family of specs."""
  if tier == 'quick':
    w_all, w_rand, nmax, budget = 3, 5, 3, 70
  else:
    w_all, w_rand, nmax, budget = 4, 5, 4, 800
  rec = Recorder(PROP, 'space_size equals the brute-force member count',
                 scope=f'every Choices spec of weight<={w_all} (quick: at most 2 per '
                       f'(k, flags, candidate-size tuple) signature; weight = number '
                       f'of candidate slots in the whole tree; n<={nmax}, k<=3, '
                       f'every distinct/sorted combination at every level, '
                       f'candidate sub-spaces with 1 or 2 elements, depth<=3), '
                       f'a seeded sample of {budget} specs of weight<={w_rand}, '
                       f'the leaf family n<=5,k<=4, hand-picked multi-element '
                       f'roots, float/custom specs')
  r = rng(seed, 'c11.size')
  head = list(leaf_family(5, 4)) + handpicked_roots()
  head += gen_dps(w_all, nmax, 3, 3)
  seen = set(head)
  rest = [m for m in gen_dps(w_rand, nmax, 3, 3)
          if m not in seen and count_members(m) <= 5000]
  rest = r.sample(rest, min(budget, len(rest)))
  if tier == 'quick':
    # keep at most 2 specs per (k, flags, candidate sizes) signature: the
    # recurrence only sees the sizes of the candidate sub-spaces (the
    # sub-spaces themselves are roots of smaller specs of the same family).
    seen_sig = {}
    kept = []
    for m in head:
      if m[0] == 'choices':
        sig = (m[1], m[3], m[4], tuple(count_members(c) for c in m[2]))
        seen_sig[sig] = seen_sig.get(sig, 0) + 1
        if seen_sig[sig] > 2:
          continue
      kept.append(m)
    head = kept
  t0 = time.process_time()
  limit = 30 if tier == 'quick' else 530
  for i, m in enumerate(head + rest):
    if i >= len(head) and time.process_time() - t0 > limit:
      break          # only the seeded sample is ever cut short
    want = count_members(m)
    spec = build(m)
    got = spec.space_size
    rec.case(f'space_size/{_multi_class(m)}', src(m), got == want,
             f'space_size={got}, brute-force count={want}',
             wit(m, f'assert spec.space_size == {want}, spec.space_size'))
  for m in infinite_roots():
    spec = build(m)
    rec.case('space_size/infinite', src(m), spec.space_size == -1,
             f'space_size={spec.space_size}, want -1',
             wit(m, 'assert spec.space_size == -1, spec.space_size'))
  return rec.result()


def custom_iterable_roots():
  """Custom points with a user next_dna_fn enumerating 'a', 'b'."""
  return [SP(CU()), SP(leaf(2), CU()), SP(CU(), leaf(2)), SP(ONE([SCU, C])),
          SP(CH(2, [SCU, C], False, True))]


def _iteration_specs(tier, r):
  """(number of specs that are always checked, specs)."""
  specs = custom_iterable_roots()
  if tier == 'quick':
    specs += leaf_family(4, 3)
    specs += handpicked_roots()
    fixed = len(specs)
    specs += conditional_family([2], [1, 2, 3], [C, S2, S3], 40, r, 30)
    specs += conditional_family([3], [2], [C, S2], 60, r, 10)
    specs += conditional_family([2], [2], [C, SM, S22, SN], 60, r, 8)
  else:
    specs += leaf_family(5, 4)
    specs += handpicked_roots()
    fixed = len(specs)
    specs += conditional_family([2], [1, 2, 3], [C, S2, S3], 250)
    specs += conditional_family([3], [1, 2, 3], [C, S2, S3], 250, r, 150)
    specs += conditional_family([2, 3], [2, 3], [C, SM, SMU, S22, SN, SNM],
                                250, r, 120)
    specs += r.sample(gen_dps(6, 3, 3, 3), 150)
  return fixed, specs


def _iter_checks(cx, full_cap, light=False):
  """iter_dna / next_dna of cx.spec vs the sorted brute-force members."""
  m, spec, r, tier = cx.m, cx.spec, cx.r, cx.tier
  mem = cx.mem
  cls = _multi_class(m) if is_finite(m) else 'custom-next_dna_fn'
  n = len(mem)
  if n <= full_cap:
    # --- full iteration with library-produced DNAs fed back --------------
    try:
      got = []
      for d in spec.iter_dna():
        got.append(d)
        if len(got) > n + 3:
          break
    except Exception as e:  # pylint: disable=broad-except
      cx.case('iter/raises', cls, None, False,
              f'iter_dna raised {type(e).__name__}: {e}',
              'list(spec.iter_dna())')
      return
    gs = [shape(d) for d in got]
    if is_finite(m):
      cx.case('iter/count-vs-space_size', cls, None,
              len(got) == spec.space_size,
              f'{len(got)} DNAs iterated, space_size={spec.space_size}',
              'assert len(list(spec.iter_dna())) == spec.space_size')
    ok = [tkey(x) for x in gs] == [tkey(x) for x in mem]
    msg = ''
    if not ok:
      gk = [tkey(x) for x in gs]
      mk_ = [tkey(x) for x in mem]
      missing = [x for x in mem if tkey(x) not in set(gk)]
      extra = [x for x in gs if tkey(x) not in set(mk_)]
      msg = (f'iterated {len(gs)} vs {n} members; missing={missing[:3]!r} '
             f'extra={extra[:3]!r}; got flat={[flat(x) for x in gs][:12]!r}')
    cx.case('iter/sequence', cls, None, ok, msg, (
        f'want = {[flat(x) for x in mem]!r}\n'
        'got = [d.to_numbers() for d in spec.iter_dna()]\n'
        'assert got == want, got'))
    # ordering by the library's own comparison operators
    bad = None
    for i in range(len(got) - 1):
      a, b = got[i], got[i + 1]
      if not (a < b) or (b < a) or a == b or not (a != b):
        bad = (i, gs[i], gs[i + 1])
        break
    cx.case('iter/strictly-increasing', cls, None, bad is None,
            f'consecutive DNAs not strictly increasing: {bad!r}', (
                'l = list(spec.iter_dna())\n'
                'assert all(a < b and not b < a and a != b '
                'for a, b in zip(l, l[1:]))'))
    if got:
      dup = len(set(got)) != len(got)
      cx.case('iter/pairwise-different', cls, None, not dup,
              'hash/eq based set of iterated DNAs is smaller than the list',
              'l = list(spec.iter_dna()); assert len(set(l)) == len(l)')
      last_next = got[-1].next_dna() if len(got) == n else 'n/a'
      cx.case('iter/last-has-no-successor', cls, None,
              last_next is None or last_next == 'n/a',
              f'next_dna(last) = {last_next!r}',
              'l = list(spec.iter_dna()); assert l[-1].next_dna() is None')
      unbound = [d for d in got if d.spec is None]
      cx.case('iter/attached-spec', cls, None, not unbound,
              f'{len(unbound)} iterated DNAs have no spec attached',
              'assert all(d.spec is not None for d in spec.iter_dna())')
      # validation accepts exactly the members, and every iterated DNA has to
      # be one: the library's own DNAs are fed back to validate()
      refused = None
      for d in got[:24]:
        if accepts(m, shape(d)):
          rej, text = raises(lambda: spec.validate(d))  # pylint: disable=cell-var-from-loop
          if rej and refused is None:
            refused = (shape(d), text)
      cx.case('iter/validate-accepts-iterated', cls, None, refused is None,
              f'validate() refuses the iterated DNA {refused!r}',
              'for d in spec.iter_dna():\n  spec.validate(d)')
    idx = list(range(n)) if n <= 6 else sorted(set(
        [0, n - 1] + r.sample(range(n), 2 if tier == 'quick' else 4)))
    if light:
      idx = [r.randrange(n)] if n else []
    # iteration resumed after a given (unbound) member, exclusive
    if 2 <= n <= (16 if tier == 'quick' else 10**9) and not light:
      i = r.randrange(n - 1)
      try:
        tail = [shape(d) for d in itertools.islice(
            spec.iter_dna(mk(mem[i])), n + 2)]
        tail2 = [shape(d) for d in itertools.islice(
            mk(mem[i]).use_spec(spec).iter_dna(), n + 2)]
        ok = ([tkey(x) for x in tail] == [tkey(x) for x in mem[i + 1:]]
              and [tkey(x) for x in tail2] == [tkey(x) for x in mem[i + 1:]])
        msg = (f'iter_dna({mem[i]!r}) gave {[flat(x) for x in tail]!r} / '
               f'{[flat(x) for x in tail2]!r}, want '
               f'{[flat(x) for x in mem[i + 1:]]!r}')
      except Exception as e:  # pylint: disable=broad-except
        ok, msg = False, f'iter_dna({mem[i]!r}) raised {type(e).__name__}: {e}'
      cx.case('iter/resume-after', cls, i, ok, msg, (
          f'want = {[flat(x) for x in mem[i + 1:]]!r}\n'
          f'got = [d.to_numbers() for d in spec.iter_dna({dsrc(mem[i])})]\n'
          f'got2 = [d.to_numbers() for d in {dsrc(mem[i])}.use_spec(spec).iter_dna()]\n'
          'assert got == want and got2 == want, (got, got2)'))
  else:
    idx = sorted(set([0, 1, n - 1, n - 2] + r.sample(range(n), 8)
                     + _boundary_indices(mem, 6, r)))
    f = spec.first_dna()
    cx.case('iter/first', cls, None, tkey(shape(f)) == tkey(mem[0]),
            f'first_dna={shape(f)!r}, want {mem[0]!r}',
            f'assert spec.first_dna() == {dsrc(mem[0])}')
  # --- successor of freshly built (unbound) members ----------------------
  for i in idx:
    want = mem[i + 1] if i + 1 < n else None
    start = mk(mem[i])
    try:
      nx = spec.next_dna(start, attach_spec=bool(i % 2))
      got1 = None if nx is None else shape(nx)
    except Exception as e:  # pylint: disable=broad-except
      got1 = f'raised {type(e).__name__}: {e}'[:150]
    ok = (got1 is None and want is None) or (
        isinstance(got1, tuple) and want is not None
        and tkey(got1) == tkey(want))
    cid = 'next/successor' if want is not None else 'next/last-is-none'
    cx.case(cid, cls, i, ok,
            f'next_dna({mem[i]!r}) = {got1!r}, want {want!r}', (
                f'nx = spec.next_dna({dsrc(mem[i])})\n' + (
                    'assert nx is None, nx' if want is None else
                    f'assert nx is not None and nx.to_numbers() == {flat(want)!r} '
                    f'and nx == {dsrc(want)}, nx')))


def drv_iteration(tier, seed):
  """iter_dna == sorted brute-force members; order; no successor."""
  full_cap = 40 if tier == 'quick' else 260
  rec = Recorder(
      PROP, 'iter_dna yields exactly the members, strictly increasing',
      scope=('leaf choices n<=4,k<=3 (thorough 5,4) x every distinct/sorted; '
             'conditional choices n<=3 with candidate sub-spaces of sizes '
             '1,2,3 and shapes (inlined multi-choice, 2-element space, nested)'
             '; multi-element roots; depth<=3; 5 specs whose custom points are '
             'enumerated by a user next_dna_fn (quick: seeded samples of the '
             'conditional families); full iteration when size<='
             f'{full_cap} (every iterated DNA is fed back to validate), '
             'otherwise successor checks at first/last/boundary '
             'and seeded random members'))
  r = rng(seed, 'c11.iter')
  budget_s = 30 if tier == 'quick' else 520
  t0 = time.process_time()
  fixed, specs = _iteration_specs(tier, r)
  for i, m in enumerate(specs):
    if i >= fixed and time.process_time() - t0 > budget_s:
      break          # only the seeded samples are ever cut short (CPU time)
    _iter_checks(Cx(rec, m, r, tier), full_cap)
  return rec.result()


def _boundary_indices(mem, k, r):
  """Indices where the successor changes an early decision (carry)."""
  fl = [flat(t) for t in mem]
  scored = []
  for i in range(len(mem) - 1):
    a, b = fl[i], fl[i + 1]
    j = 0
    while j < min(len(a), len(b)) and a[j] == b[j]:
      j += 1
    scored.append((j, i))
  scored.sort()
  best = [i for _, i in scored[:k * 3]]
  return r.sample(best, min(k, len(best)))


def _membership_specs(tier, r):
  specs = []
  specs += [leaf(1), leaf(2), leaf(3), leaf(2, 2, True, False),
            leaf(3, 2, True, True), leaf(2, 2, False, False),
            leaf(3, 2, False, True), leaf(3, 3, True, False),
            leaf(1, 2, False, False)]
  specs += handpicked_roots()
  specs += infinite_roots()
  if tier != 'quick':
    specs += leaf_family(4, 3)
    specs += conditional_family([2, 3], [1, 2], [C, S2, SM, S22, SN, SF],
                                80, r, 160)
  return specs


def _check_accept(cx, api, kind, tree):
  """One validate/bind probe of a (possibly corrupted) tree."""
  rec, m, spec = cx.rec, cx.m, cx.spec
  try:
    dna = mk(tree)
  except Exception:  # pylint: disable=broad-except
    return       # not even a DNA (e.g. rejected by the DNA value schema)
  actual = shape(dna)      # after constructor normalisation
  if touches_custom_children(m, actual):
    return
  reason = why_not(m, actual)
  want = reason is None
  if cx.pre and (api.split('-')[0], reason) in KNOWN_ACCEPTED:
    return
  bound = None
  if api == 'validate':
    rej, text = raises(lambda: spec.validate(dna))
    call = f'spec.validate({dsrc(actual)})'
  elif api == 'bind':
    rej, text = raises(lambda: dna.use_spec(spec))
    call = f'd = {dsrc(actual)}.use_spec(spec)'
    bound = dna
  else:
    box = []
    rej, text = raises(lambda: box.append(
        pg.DNA(actual[0], [mk(c) for c in actual[1]], spec=spec)))
    bound = box[0] if box else None
    call = (f'd = D({actual[0]!r}, [' + ', '.join(dsrc(c) for c in actual[1])
            + '], spec=spec)')
    api = 'bind'
    if m == C:
      # `spec=` with a constant root space is a separate input class: one id.
      ok = (bound is not None and bound.spec is not None) if want else (
          rej and not _last_error[0])
      rec.case(cx.cid('bind-ctor[constant-root-space]/spec-honoured'),
               (cx.label, actual), ok,
               f'DNA({actual!r}, spec=<constant space>): '
               + ('member left unbound (spec is None)' if want else
                  f'non-member accepted ({reason})'),
               cx.wit(f'{call}\nassert d.spec is not None' if want else
                      'try:\n  ' + call + '\nexcept Exception: pass\n'
                      'else: raise AssertionError("non-member accepted")'))
      return
  crash = _last_error[0]
  ok = (rej != want) and not crash
  if want:
    cid = f'{api}/accept-member/{kind if kind == "member" else "edited"}'
    if kind == 'guided-member-repeating-a-candidate':
      cid += '-repeating-a-candidate-with-other-sub-decisions'
    w = cx.wit(f'{call}   # member: must be accepted')
    msg = f'member {actual!r} rejected: {text}'
  else:
    cid = f'{api}/reject/{reason}'
    w = cx.wit('try:\n  ' + call + '\nexcept (ValueError, TypeError): pass\n'
               f'else: raise AssertionError("non-member accepted ({reason})")')
    msg = (f'non-member {actual!r} accepted ({reason}; edit: {kind})'
           if not crash else f'non-member {actual!r} ({reason}; edit: {kind}) '
           f'is not rejected with ValueError but crashes: {crash}')
  rec.case(cx.cid(cid), (cx.label, actual), ok, msg, w)
  if want and not rej and bound is not None:
    rec.case(cx.cid(f'{api}/spec-attached'), (cx.label, actual),
             bound.spec is not None,
             'DNA.spec is None after binding a member',
             cx.wit(f'{call}\nassert d.spec is not None'))
  if not want and rej and not crash and bound is dna:
    # A refusal is final: the refused object does not count as bound, and
    # asking again (same object, same spec) is refused again.
    again = (
        f'd = {dsrc(actual)}\nfor attempt in (1, 2):\n'
        '  try: d.use_spec(spec)\n  except (ValueError, TypeError): pass\n'
        '  else: raise AssertionError(f"non-member accepted at attempt {attempt}")\n')
    rec.case(cx.cid('bind/refused-dna-stays-unbound'), (cx.label, actual),
             dna.spec is None,
             f'use_spec refused the non-member {actual!r} ({reason}) but the '
             f'DNA reports spec={type(dna.spec).__name__} afterwards',
             cx.wit(f'd = {dsrc(actual)}\ntry: d.use_spec(spec)\n'
                    'except (ValueError, TypeError): pass\n'
                    'assert d.spec is None, "refused DNA reports a spec"'))
    rej2, _ = raises(lambda: dna.use_spec(spec))
    rec.case(cx.cid('bind/refusal-is-final'), (cx.label, actual), rej2,
             f'non-member {actual!r} ({reason}): the first use_spec is '
             f'refused, the second use_spec of the same object is accepted',
             cx.wit(again))


def _member_checks(cx, per_spec_members, per_spec_corrupt, n_numbers,
                   extra=(), per_spec_guided=0):
  """validate / use_spec / DNA(spec=) / from_numbers of cx.spec vs the model."""
  rec, m, spec, r = cx.rec, cx.m, cx.spec, cx.r
  mem = cx.mem
  pick = mem if len(mem) <= per_spec_members else (
      [mem[0], mem[-1]] + r.sample(mem[1:-1], per_spec_members - 2))
  for j, t in enumerate(pick):
    _check_accept(cx, 'validate', 'member', t)
    _check_accept(cx, 'bind' if j % 2 else 'bind-ctor', 'member', t)
  for j, (kind, t) in enumerate(extra):
    _check_accept(cx, 'validate', kind, t)
    _check_accept(cx, 'bind-ctor' if j % 3 == 2 else 'bind', kind, t)
  # corruptions, stratified by kind
  nmax = max([len(x[2]) for x in _all_choices(m)] or [1])
  pool = {}
  base = pick if len(pick) <= 4 else r.sample(pick, 4)
  for t in base:
    for kind, c in corruptions(t, nmax):
      pool.setdefault(kind, []).append(c)
  kinds = sorted(pool)
  chosen = []
  while len(chosen) < per_spec_corrupt and any(pool.values()):
    for kind in kinds:
      if pool[kind]:
        chosen.append((kind, pool[kind].pop(r.randrange(len(pool[kind])))))
  for j, (kind, c) in enumerate(chosen[:per_spec_corrupt]):
    _check_accept(cx, 'validate', kind, c)
    _check_accept(cx, 'bind' if j % 3 else 'bind-ctor', kind, c)
  # model-guided corruptions (one constraint broken, the rest well-formed),
  # stratified by the broken constraint, the constraints taking turns from a
  # seeded starting point
  if per_spec_guided:
    gpool = {}
    for t in base:
      if touches_custom_children(m, t):
        continue
      for kind, c in guided_corruptions(m, t, r):
        gpool.setdefault(kind, []).append(c)
    gkinds = sorted(gpool)
    r.shuffle(gkinds)
    chosen = []
    while len(chosen) < per_spec_guided and any(gpool.values()):
      for kind in gkinds:
        if gpool[kind] and len(chosen) < per_spec_guided:
          chosen.append((kind, gpool[kind].pop(r.randrange(len(gpool[kind])))))
    for j, (kind, c) in enumerate(chosen):
      _check_accept(cx, 'validate', kind, c)
      _check_accept(cx, 'bind-ctor' if j % 3 == 1 else 'bind', kind, c)
  # from_numbers: flat decisions bind exactly when they spell a member
  flats = {}
  for t in mem:
    flats[tuple((type(v).__name__, v) for v in flat(t))] = t
  probes = []
  for t in base[:2]:
    f = flat(t)
    probes.append(('member', f))
    for i, v in enumerate(f):
      if _is_int(v):
        for kind, nv in (('negative-index', -1), ('index-plus1', v + 1),
                         ('index-too-large', nmax), ('number-wrong-type', 'x')):
          probes.append((kind, f[:i] + [nv] + f[i + 1:]))
    probes.append(('too-short', f[:-1]))
    probes.append(('too-long', f + [0]))
  for kind, f in probes[:n_numbers]:
    want_t = flats.get(tuple((type(v).__name__, v) for v in f))
    box = []
    rej, text = raises(lambda: box.append(pg.DNA.from_numbers(list(f), spec)))  # pylint: disable=cell-var-from-loop
    crash = _last_error[0]
    if want_t is not None:
      ok = not rej and tkey(shape(box[0])) == tkey(want_t)
      rec.case(cx.cid('from_numbers/accept-member'), (cx.label, tuple(f)), ok,
               f'from_numbers({f!r}) ' + (f'raised {text}' if rej else
                                          f'= {shape(box[0])!r}, want {want_t!r}'),
               cx.wit(f'assert D.from_numbers({f!r}, spec) == {dsrc(want_t)}'))
    else:
      rec.case(cx.cid(f'from_numbers/reject/{kind}'), (cx.label, tuple(f)),
               rej and not crash,
               f'from_numbers({f!r}) ' + (f'crashes: {crash}' if crash else
                                          f'accepted: {shape(box[0]) if box else None!r}'),
               cx.wit(f'try:\n  D.from_numbers({f!r}, spec)\n'
                      'except (ValueError, TypeError): pass\n'
                      'else: raise AssertionError("numbers of a non-member accepted")'))


def drv_membership(tier, seed):
  """validate / binding accept exactly the members."""
  rec = Recorder(
      PROP, 'validate() and binding accept exactly the members',
      scope=('specs: leaf choices, hand-picked conditional/multi-element/deep '
             'specs, float/custom specs (thorough: + leaf family n<=4,k<=3 and '
             '160 seeded conditional specs); inputs: every member (capped, '
             'seeded sample beyond), every one-step corruption of sampled '
             'members (value -> negative/out-of-range/other type/None, '
             'dropped/extra/swapped/duplicated children, child under leaf, '
             'value on container), model-guided corruptions of the same '
             'members (one constraint among the choices of one Choices broken '
             '-- arity, index range/type, a repeated candidate with the same '
             'or with other sub-decisions, order -- while every pick keeps a '
             'well-formed sub-tree; 10 per spec, thorough 60, the constraints '
             'taking turns), all trees with <=3 nodes over '
             '{-1,0,1,None} for tiny specs, and DNA.from_numbers on member '
             'numbers and one-step corrupted numbers; every refused use_spec '
             'is repeated on the same DNA object (still refused, DNA not '
             'marked as bound)'))
  r = rng(seed, 'c11.member')
  t0 = time.process_time()
  budget_s = 38 if tier == 'quick' else 540
  # fixed probes first, so that the kept witness of an id is the plainest one
  for m, t, kind in [
      (SP(leaf(2)), (-1, ()), 'value-negative'),
      (SP(leaf(3, 2, False, False)), (None, ((0, ()), (-1, ()))), 'value-negative'),
      (SP(leaf(2, 2, True, False)), (0, ((0, ()), (1, ()))), 'value-on-container'),
      (SP(leaf(2), leaf(2)), (1, ((0, ()), (0, ()))), 'value-on-container'),
      (SP(FL(0.0, 1.0)), (0.5, ((0, ()),)), 'child-under-leaf'),
      (SP(leaf(2)), (2, ()), 'value-large'),
      (SP(leaf(2)), (0, ((0, ()),)), 'child-under-leaf'),
      (SP(leaf(2), leaf(2)), (None, ((0, ()), (2, ()))), 'value-large'),
      # one constraint among the choices broken, every pick well-formed below
      (CH(2, [S2, C, C], True, False),
       (None, ((0, ((0, ()),)), (0, ((1, ()),)))), 'guided'),
      (SP(ONE([SP(CH(2, [S2, C], True, True)), C])),
       (0, ((0, ((0, ()),)), (0, ((1, ()),)))), 'guided'),
      (SP(CH(2, [C, S2], False, True)),
       (None, ((1, ((1, ()),)), (0, ()))), 'guided'),
      (SP(CH(2, [S2, S2], True, True), leaf(2)),
       (None, ((None, ((1, ((0, ()),)), (0, ((1, ()),)))), (0, ()))), 'guided'),
  ]:
    cx = Cx(rec, m, r, tier)
    for api in ('validate', 'bind', 'bind-ctor'):
      _check_accept(cx, api, kind, t)
  specs = _membership_specs(tier, r)
  per_spec_members = 6 if tier == 'quick' else 20
  per_spec_corrupt = 26 if tier == 'quick' else 120
  for m in specs:
    if time.process_time() - t0 > budget_s:
      break
    _member_checks(Cx(rec, m, r, tier), per_spec_members, per_spec_corrupt,
                   10 if tier == 'quick' else 30,
                   per_spec_guided=10 if tier == 'quick' else 60)
  # all small trees against tiny specs
  tiny = [SP(leaf(2)), SP(leaf(2, 2, True, False)), SP(leaf(2), leaf(2)),
          SP(ONE([C, S2])), SP(leaf(2, 2, False, True))]
  if tier != 'quick':
    tiny += [SP(leaf(3, 2, True, True)), SP(ONE([SM, C])), leaf(2), SP(),
             SP(ONE([S22, C]))]
  trees = small_trees([-1, 0, 1, None], 3)
  for m in tiny:
    if time.process_time() - t0 > budget_s + 5:
      break
    cx = Cx(rec, m, r, tier)
    for t in trees:
      _check_accept(cx, 'validate', 'small-tree', t)
      _check_accept(cx, 'bind', 'small-tree', t)
  return rec.result()


def _all_choices(m):
  if m[0] == 'space':
    for e in m[1]:
      yield from _all_choices(e)
  elif m[0] == 'choices':
    yield m
    for c in m[2]:
      yield from _all_choices(c)


def _random_checks(cx, draws):
  """random_dna through every entry point returns a member."""
  rec, m, spec, r = cx.rec, cx.m, cx.spec, cx.r
  cls = _multi_class(m) if is_finite(m) else 'float-or-custom'
  prev = None
  first = 0 if draws >= 4 else r.randrange(4)    # entry points in rotation
  for j in range(draws):
    s = r.randrange(10**6)
    mode = (first + j) % 4
    try:
      if mode == 0:
        d = spec.random_dna(_random.Random(s))
        call = f'spec.random_dna(random.Random({s}))'
      elif mode == 1:
        d = pg.random_dna(spec, _random.Random(s), attach_spec=False)
        call = f'pg.random_dna(spec, random.Random({s}), attach_spec=False)'
      elif mode == 2:
        gen = pg.geno.Random(seed=s)
        gen.setup(spec)
        gen.propose()
        d = gen.propose()
        call = (f'(lambda a: (a.setup(spec), a.propose(), a.propose())[-1])'
                f'(pg.geno.Random(seed={s}))')
      else:
        d = spec.random_dna(_random.Random(s), previous_dna=prev)
        call = (f'spec.random_dna(random.Random({s}), previous_dna='
                + ('None' if prev is None else
                   f'{dsrc(shape(prev))}.use_spec(spec)') + ')')
    except Exception as e:  # pylint: disable=broad-except
      rec.case(cx.cid('random/raises', cls), (cx.label, s, mode), False,
               f'{type(e).__name__}: {e}',
               cx.wit(f'import random\n{call}'))
      continue
    t = shape(d)
    ok = accepts(m, t)
    name = ("plain", "function", "generator", "previous_dna")[mode]
    rec.case(cx.cid(f'random/member/{name}', cls),
             (cx.label, s, mode), ok, f'random DNA {t!r} is not a member',
             cx.wit(f'import random\nd = {call}\nspec.validate(d)\n'
                    f'assert d.to_numbers() != {flat(t)!r} or {ok!r}, d'))
    if ok and not touches_custom_children(m, t):
      rej, text = raises(lambda: spec.validate(d))  # pylint: disable=cell-var-from-loop
      rec.case(cx.cid('random/validate-accepts-drawn', cls),
               (cx.label, s, mode), not rej,
               f'validate() refuses the drawn member {t!r}: {text}',
               cx.wit(f'import random\nspec.validate({call})'))
    if mode != 1:
      rec.case(cx.cid('random/attached-spec', cls), (cx.label, s, mode),
               d.spec is not None, 'random DNA has no spec attached',
               cx.wit(f'import random\nassert {call}.spec is not None'))
      prev = d
    else:
      rec.case(cx.cid('random/attach_spec=False', cls), (cx.label, s, mode),
               d.spec is None, 'spec attached despite attach_spec=False',
               cx.wit(f'import random\nassert {call}.spec is None'))


ASK_SRC = (
    'def ask(a, times):\n'
    '  out = []\n'
    '  for _ in range(times):\n'
    '    try: out.append(a.propose().to_numbers())\n'
    '    except StopIteration: out.append("stop")\n'
    '  return out\n')


def _ask(algo, times):
  """Outcome of `times` propose() requests: tree | 'stop' | 'raised ...'."""
  out = []
  for _ in range(times):
    try:
      out.append(shape(algo.propose()))
    except StopIteration:
      out.append('stop')
    except Exception as e:  # pylint: disable=broad-except
      out.append(f'raised {type(e).__name__}: {e}'[:120])
  return out


def _until_stop(res):
  """(proposals before the first 'stop', the outcomes from it on)."""
  i = res.index('stop') if 'stop' in res else len(res)
  return res[:i], res[i:]


def _flat_or_text(x):
  return flat(x) if isinstance(x, tuple) else x


def _same_trees(got, want):
  return (all(isinstance(x, tuple) for x in got)
          and [tkey(x) for x in got] == [tkey(x) for x in want])


def _sweep_checks(cx, light=False):
  """pg.geno.Sweeping proposes the member sequence -- and then nothing.

  The sequence of the statement ends ("ending with no successor"): the
  generator is asked beyond the end, through every way of asking (propose()
  again, iterating the generator again, propose() after the whole history was
  recovered), and every request after the end must be refused again.
  """
  rec, m, spec, r = cx.rec, cx.m, cx.spec, cx.r
  mem = cx.mem
  n = len(mem)
  want = [flat(t) for t in mem]
  cls = _multi_class(m)
  new_algo = 'a = pg.geno.Sweeping(); a.setup(spec)\n'

  def exhausted(how, key, after, told, body):
    rec.case(cx.cid('sweeping/exhausted-stays-exhausted'),
             (cx.label, how) + key, all(x == 'stop' for x in after),
             f'{told}, but the next requests ({how}) gave '
             f'{[_flat_or_text(x) for x in after]!r}', cx.wit(body))

  algo = pg.geno.Sweeping()
  algo.setup(spec)
  got, after = _until_stop(_ask(algo, n + 3))
  rec.case(cx.cid('sweeping/propose-sequence', cls), cx.label,
           _same_trees(got, mem),
           f'proposed {[_flat_or_text(x) for x in got]!r}, want {want!r}',
           cx.wit(ASK_SRC + new_algo + f'got = ask(a, {n + 3})\n'
                  'got = got[:got.index("stop")] if "stop" in got else got\n'
                  f'assert got == {want!r}, got'))
  if after:
    exhausted('propose-again', (), after[1:],
              f'StopIteration after {len(got)} proposals',
              ASK_SRC + new_algo + f'got = ask(a, {n + 3})\n'
              'end = got.index("stop")\n'
              'assert got[end:] == ["stop"] * len(got[end:]), got')
  if light:
    return
  algo = pg.geno.Sweeping()
  algo.setup(spec)
  try:
    got2 = [shape(d) for d in itertools.islice(iter(algo), n + 3)]
    err = ''
  except Exception as e:  # pylint: disable=broad-except
    got2, err = [], f'iterating the generator raised {type(e).__name__}: {e}'
  rec.case(cx.cid('sweeping/iter-sequence', cls), cx.label,
           not err and _same_trees(got2, mem),
           err or f'iterated {[flat(t) for t in got2]!r}, want {want!r}',
           cx.wit(new_algo + 'import itertools\n'
                  f'got = [d.to_numbers() for d in itertools.islice(a, {n + 3})]\n'
                  f'assert got == {want!r}, got'))
  rec.case(cx.cid('sweeping/num_proposals', cls), cx.label,
           algo.num_proposals == n,
           f'num_proposals={algo.num_proposals}, want {n}',
           cx.wit(new_algo + 'list(a)\n'
                  f'assert a.num_proposals == {n}, a.num_proposals'))
  if not err and len(got2) <= n:          # the iteration came to an end
    try:
      again = [shape(d) for d in itertools.islice(iter(algo), 3)]
    except Exception as e:  # pylint: disable=broad-except
      again = [f'raised {type(e).__name__}: {e}'[:120]]
    exhausted('iterate-again', (), again,
              f'the iteration of the generator ended after {len(got2)} DNAs',
              new_algo + 'import itertools\nfirst = list(a)\n'
              'again = [d.to_numbers() for d in itertools.islice(a, 3)]\n'
              'assert not again, again')
  # recover from a history prefix (given in two parts: there may be several
  # sources of history), then continue to the end and beyond
  j = r.randrange(1, n + 1) if mem else 0
  if j:
    cut = r.randrange(j + 1)
    algo = pg.geno.Sweeping()
    algo.setup(spec)
    hist = '[' + ', '.join(f'({dsrc(t)}.use_spec(spec), None)'
                           for t in mem[:j]) + ']'
    body = (ASK_SRC + new_algo + f'h = {hist}\n'
            f'a.recover(h[:{cut}]); a.recover(h[{cut}:])\n'
            f'got = ask(a, {n - j + 3})\n')
    try:
      h = [(mk(t).use_spec(spec), None) for t in mem[:j]]
      algo.recover(h[:cut])
      algo.recover(h[cut:])
      res = _ask(algo, n - j + 3)
    except Exception as e:  # pylint: disable=broad-except
      res = [f'recover raised {type(e).__name__}: {e}'[:120]]
    tail, after = _until_stop(res)
    rec.case(cx.cid('sweeping/recover-then-propose', cls), (cx.label, j, cut),
             _same_trees(tail, mem[j:]) and bool(after),
             f'after recovering the first {j} proposals (history in parts of '
             f'{cut} and {j - cut}) the generator proposed '
             f'{[_flat_or_text(x) for x in tail]!r}, want {want[j:]!r} and '
             'then StopIteration',
             cx.wit(body + f'assert got[:{n - j + 1}] == {want[j:] + ["stop"]!r}, got'))
    if after:
      exhausted('after-recover', (j, cut), after[1:],
                f'StopIteration after recovering {j} and proposing '
                f'{len(tail)} DNAs',
                body + 'end = got.index("stop")\n'
                'assert got[end:] == ["stop"] * len(got[end:]), got')


def drv_random_and_sweeping(tier, seed):
  """random_dna returns members; Sweeping proposes the iteration sequence."""
  rec = Recorder(
      PROP, 'random_dna returns members; Sweeping == iteration sequence',
      scope=('random: leaf family n<=4,k<=3, hand-picked and float/custom '
             'specs, 8 (thorough 40) seeded draws each through spec.random_dna / '
             'pg.random_dna / pg.geno.Random, with and without previous_dna; '
             'sweeping: specs of size<=12 (thorough 36) through propose(), iteration of the '
             'generator and recover() (history in two parts) + propose() to '
             'the end; every run goes 3 requests beyond the end (propose '
             'again / iterate the generator again / after recover): the '
             'exhausted generator proposes nothing more'))
  r = rng(seed, 'c11.random')
  t0 = time.process_time()
  budget_s = 38 if tier == 'quick' else 500
  draws = 8 if tier == 'quick' else 40
  specs = leaf_family(4, 3) + handpicked_roots() + infinite_roots()
  if tier != 'quick':
    specs += conditional_family([2, 3], [1, 2, 3], [C, S2, SM, S22, SN, SF],
                                10**9, r, 120)
  for m in specs:
    if time.process_time() - t0 > budget_s * 0.6:
      break
    _random_checks(Cx(rec, m, r, tier), draws)
  # ---------------- sweeping ---------------------------------------------
  sweep = [m for m in leaf_family(3, 3) + handpicked_roots()
           if is_finite(m) and count_members(m) <= (12 if tier == 'quick' else 36)]
  for m in sweep:
    if time.process_time() - t0 > budget_s:
      break
    _sweep_checks(Cx(rec, m, r, tier))
  return rec.result()


def drv_single_point_subspaces(tier, seed):
  """Candidates that are non-empty sub-spaces with exactly one point."""
  rec = Recorder(
      PROP, 'conditional sub-spaces of size 1 that still hold decision points',
      scope=('19 hand-picked specs + 4 (thorough: 120) seeded conditional choices (n=2, k<=2 '
             '(thorough n<=3, k<=3), every distinct/sorted) whose candidates '
             'are drawn from {constant, oneof([c]), manyof(2,[c,c],sorted), '
             'manyof(2,[c],distinct=False), space of two forced elements, '
             'forced nested choice, manyof(3 of 3, sorted), a 2-point space}: '
             'reported size of every node, full iteration, validate/bind of '
             'members and one-step corruptions, from_numbers, random draws, '
             'sweeping'))
  r = rng(seed, 'c11.single')
  specs = single_point_roots()
  fixed = len(specs)
  menu = [C, S2] + SINGLE_POINT
  if tier == 'quick':
    specs += conditional_family([2], [1, 2], menu, 16, r, 4)
  else:
    specs += conditional_family([2], [1, 2, 3], menu, 200, r, 80)
    specs += conditional_family([3], [1, 2, 3], menu, 200, r, 40)
  quick = tier == 'quick'
  t0 = time.process_time()
  for i, m in enumerate(specs):
    if i >= fixed and time.process_time() - t0 > 500:
      break          # only the seeded samples are ever cut short (CPU time)
    cx = Cx(rec, m, r, tier)
    _size_checks(cx)
    _iter_checks(cx, 40 if quick else 260, light=quick)
    _member_checks(cx, 3 if quick else 12, 6 if quick else 60,
                   4 if quick else 20, per_spec_guided=3 if quick else 30)
    _random_checks(cx, 2 if quick else 16)
    if len(cx.mem) <= (6 if quick else 36):
      _sweep_checks(cx, light=quick)
  return rec.result()


def _edit_bases(tier, r):
  """Finite specs small enough to be re-enumerated after every edit."""
  l2 = leaf(2)
  bases = [
      SP(l2, leaf(3, 2, True, True)),
      SP(ONE([C, S2]), l2),
      SP(leaf(3, 2, False, False)),
      leaf(3, 2, True, False),
      SP(ONE([S1M, C, S2])),
      SP(CH(2, [S2, C, S1], True, True)),
      ONE([S22, SM]),
      SP(),
      SP(ONE([SP(ONE([C, S2])), C]), l2),
      SP(l2, l2, l2),
      SP(CH(2, [SM, S2], False, True)),
      SP(ONE([S11, SN])),
  ]
  extra = [m for m in handpicked_roots() + single_point_roots()
           + leaf_family(3, 3) if m not in bases and count_members(m) <= 30]
  if tier == 'quick':
    return r.sample(bases, 7) + r.sample(extra, 2)
  return bases + r.sample(extra, 24)


COPIES = [('clone', 'spec.clone()'), ('deep-clone', 'spec.clone(deep=True)'),
          ('json', 'pg.from_json(spec.to_json())'),
          ('deepcopy', '__import__("copy").deepcopy(spec)')]


def drv_edited_specs(tier, seed):
  """The statement holds for a spec object after it was used and edited."""
  quick = tier == 'quick'
  steps = 3 if quick else 5
  cap = 12 if quick else 40
  rec = Recorder(
      PROP, 'a specification edited in place is again an exact specification',
      scope=(f'{9 if quick else 36} finite base specs (<=30 members), '
             f'each taken through a seeded chain of {steps} in-place edits '
             '(edit kinds taken round-robin: num_choices / distinct / sorted / '
             'several flags at once; append, insert, remove, replace a '
             'candidate sub-space; append, insert, remove, replace an element '
             'of the root or of a candidate space; at every depth; performed '
             'on the node itself or through root.rebind; result <= '
             f'{cap} members); the object is used before every edit (sizes of '
             'all nodes, iteration, validation, random draw); after every '
             'edit: reported size of every node, full iteration, and (quick: '
             'taking turns) validate/bind of members, of members of the previous spec that '
             'are no longer members and of one-step corruptions, '
             'from_numbers, random draws, from_fn / from_dict answers '
             '(a member and one-step edits of it), sweeping; at the end of each chain '
             'the object is copied (clone / deep clone / JSON round trip / '
             'copy.deepcopy in rotation): the copy, the copy after one more '
             'edit, and the original after the copy was edited are checked '
             '(sizes, full iteration)'))
  r = rng(seed, 'c11.edit')
  counter = 0
  copies = 0
  used = {}
  t0 = time.process_time()
  for ci, m0 in enumerate(_edit_bases(tier, r)):
    if ci >= 12 and time.process_time() - t0 > 500:
      break          # only the seeded extra chains are ever cut short
    env = {}
    exec(PRELUDE_SHORT + WARM, env)  # pylint: disable=exec-used
    setup = PRELUDE_SHORT + WARM + f'spec = {src(m0)}\n'
    env['spec'] = build(m0)
    m = m0
    for step in range(steps):
      by_kind = {}
      for kind, new, stmts in model_edits(m):
        if count_members(new) <= cap and weight(new) <= 12:
          by_kind.setdefault(kind, []).append((new, stmts))
      if not by_kind:
        break
      # edit kinds in a global round-robin (next available kind in order)
      kind = next(EDIT_KINDS[(counter + i) % len(EDIT_KINDS)]
                  for i in range(len(EDIT_KINDS))
                  if EDIT_KINDS[(counter + i) % len(EDIT_KINDS)] in by_kind)
      counter += 1
      new, stmts = r.choice(by_kind[kind])
      used[kind] = used.get(kind, 0) + 1
      stmt = stmts[used[kind] % len(stmts)]
      try:
        exec('_use(spec)\n' + stmt, env)  # pylint: disable=exec-used
      except Exception:  # pylint: disable=broad-except
        # The edit itself was refused or the prior use failed: no edited
        # specification exists (not this property's business); start afresh.
        env['spec'] = build(m)
        setup = PRELUDE_SHORT + WARM + f'spec = {src(m)}\n'
        continue
      setup += f'_use(spec); {stmt}\n'
      old_mem = members(m)
      m = new
      cx = Cx(rec, m, r, tier, spec=env['spec'], setup=setup,
              label=setup[len(PRELUDE_SHORT) + len(WARM):],
              pre=f'edited[{EDIT_GROUP[kind]}]')
      new_keys = set(tkey(t) for t in cx.mem)
      stale = [t for t in old_mem if tkey(t) not in new_keys]
      n_stale = 2 if quick else 6
      stale = stale if len(stale) <= n_stale else r.sample(stale, n_stale)
      _size_checks(cx)
      _iter_checks(cx, cap, light=True)
      # quick: the remaining entry points take turns along the chain
      if not quick or counter % 2:
        _member_checks(cx, 3 if quick else 8, 5 if quick else 30,
                       3 if quick else 12,
                       extra=[('member-before-the-edit', t) for t in stale],
                       per_spec_guided=3 if quick else 16)
      if not quick or not counter % 2:
        _random_checks(cx, 3 if quick else 8)
        _from_fn_checks(cx, 1 if quick else 3, 3 if quick else 12)
        _from_dict_checks(cx, 1 if quick else 3, 2 if quick else 8)
      if len(cx.mem) <= (6 if quick else 36) and (
          not quick or step == steps - 1):
        _sweep_checks(cx, light=quick)
    # A copy of the used and edited object is a specification of its own:
    # it behaves as the model, it can be edited, and editing it leaves the
    # original as it was.
    how, expr = COPIES[copies % len(COPIES)]
    copies += 1
    edits = [(kind, new, stmts) for kind, new, stmts in model_edits(m)
             if count_members(new) <= cap and weight(new) <= 12]
    if not edits:
      continue
    kind, new, stmts = r.choice(edits)
    try:
      exec(f'_use(spec); orig = spec; spec = {expr}', env)  # pylint: disable=exec-used
    except Exception as e:  # pylint: disable=broad-except
      rec.case(f'copy[{how}]/raises', setup, False,
               f'{expr} raised {type(e).__name__}: {e}',
               setup + f'_use(spec); spec = {expr}')
      continue
    setup += f'_use(spec); orig = spec; spec = {expr}\n'
    cx = Cx(rec, m, r, tier, spec=env['spec'], setup=setup,
            label=setup[len(PRELUDE_SHORT) + len(WARM):], pre=f'copy[{how}]')
    _size_checks(cx)
    if not quick:
      _iter_checks(cx, cap, light=True)
    try:
      exec('_use(spec)\n' + stmts[0], env)  # pylint: disable=exec-used
    except Exception:  # pylint: disable=broad-except
      continue
    setup += f'_use(spec); {stmts[0]}\n'
    cx = Cx(rec, new, r, tier, spec=env['spec'], setup=setup,
            label=setup[len(PRELUDE_SHORT) + len(WARM):],
            pre='edited-copy')
    _size_checks(cx)
    _iter_checks(cx, cap, light=True)
    _random_checks(cx, 2)
    setup += 'spec = orig\n'
    cx = Cx(rec, m, r, tier, spec=env['orig'], setup=setup,
            label=setup[len(PRELUDE_SHORT) + len(WARM):],
            pre='original-of-edited-copy')
    _size_checks(cx)
    _iter_checks(cx, cap, light=True)
  return rec.result()


def _bind_sequence_specs():
  l2, l3 = leaf(2), leaf(3)
  return [SP(l2, l2), SP(l2, l3), SP(l3, l2, l2), leaf(2, 2, False, False),
          leaf(3, 2, True, True), leaf(3, 2, True, False), l3,
          SP(ONE([C, S2]), l2), SP(ONE([S22, C])), ONE([S2, S1M, C]),
          SP(l2, leaf(3, 2, True, True)), SP(leaf(3, 2, False, True))]


def drv_bind_sequences(tier, seed):
  """Binding decides by membership alone, whatever happened to the DNA before."""
  rec = Recorder(
      PROP, 'use_spec accepts exactly the members at every attempt',
      scope=('12 small specs (multi-element roots, bare multi-choices, '
             'conditional, single-element roots); every ordered pair (A, B) '
             '(quick: every (A, A) and 40 seeded pairs) and <=8 trees per pair '
             'taken from the members of A, the members of B and one-step '
             'corruptions of them: the same DNA object is passed to use_spec '
             'of A, A, B, B, A, A; each attempt must be accepted iff the tree '
             'is a member of that spec (classified by what the previous '
             'attempt was), and a DNA that was never accepted reports no spec'))
  r = rng(seed, 'c11.bindseq')
  specs = _bind_sequence_specs()
  built = [build(m) for m in specs]
  mems = [members(m) for m in specs]
  pairs = [(a, b) for a in range(len(specs)) for b in range(len(specs))]
  if tier == 'quick':
    pairs = [(a, a) for a in range(len(specs))] + r.sample(
        [p for p in pairs if p[0] != p[1]], 40)
  for a, b in pairs:
    ma, mb = specs[a], specs[b]
    trees = {}
    pool = mems[a] + (mems[b] if a != b else [])
    for t in pool:
      trees.setdefault(tkey(t), t)
    good = list(trees.values())
    good = good if len(good) <= 5 else r.sample(good, 5)
    bad = []
    for t in good[:2]:
      cs = [c for _, c in corruptions(t, 3)
            if not accepts(ma, c) and not accepts(mb, c)
            and why_not(ma, c) != 'float-with-children']
      bad += r.sample(cs, min(2, len(cs)))
    pre = (PRELUDE_SHORT + f'A = {src(ma)}\nB = {src(mb)}\n')
    for t in good + bad[:3]:
      try:
        d = mk(t)
      except Exception:  # pylint: disable=broad-except
        continue
      t = shape(d)
      accepted_once = False
      lines = f'd = {dsrc(t)}\n'
      last = None          # (which, refused?) of the previous attempt
      for which in ('AABBAA' if a != b else 'AAA'):
        if last is None:
          prev = 'first-attempt'
        else:
          prev = ('after-refused-by-' if last[1] else 'after-accepted-by-') + (
              'the-same-spec' if last[0] == which else 'another-spec')
        m, spec = (ma, built[a]) if which == 'A' else (mb, built[b])
        want = accepts(m, t)
        rej, text = raises(lambda: d.use_spec(spec))  # pylint: disable=cell-var-from-loop
        crash = _last_error[0]
        ok = (rej != want) and not crash
        if want:
          cid = f'bind-sequence/accept-member/{prev}'
          ok = ok and d.spec is not None
          lines += f'd.use_spec({which}); assert d.spec is not None\n'
          msg = (f'member {t!r} of {which} refused ({text}) or left unbound; '
                 f'{prev}')
        else:
          cid = f'bind-sequence/reject-non-member/{prev}'
          lines += (f'try: d.use_spec({which})\n'
                    'except (ValueError, TypeError): pass\n'
                    f'else: raise AssertionError("non-member of {which} accepted")\n')
          msg = (f'non-member {t!r} of {which} accepted'
                 + (f' / crashed: {crash}' if crash else '') + f'; {prev}')
        rec.case(cid, (src(ma), src(mb), t, len(lines)), ok, msg, pre + lines)
        accepted_once = accepted_once or not rej
        if not accepted_once:
          rec.case('bind-sequence/never-accepted-reports-no-spec',
                   (src(ma), src(mb), t, len(lines)), d.spec is None,
                   f'{t!r} was refused by every attempt so far but reports a '
                   f'spec ({prev})', pre + lines + 'assert d.spec is None')
        last = (which, rej)
        if not ok:
          break        # later attempts would only restate this failure
  return rec.result()


# =============================================================================
# Constructors that assemble a DNA for a spec from per-decision-point answers
# =============================================================================
# Besides use_spec / DNA(spec=) / from_numbers a DNA is bound to ("built for")
# a specification by DNA.from_fn(spec, fn) -- fn is asked at every active
# decision point and answers a Choices with a list of candidate indices *or*
# with a ready-made DNA for the whole sub-tree, a Float with a float or a DNA,
# a custom point with a str or a DNA -- and by DNA.from_dict({decision point:
# index or sub-tree DNA}, spec).  The statement ("binding accepts exactly the
# members and rejects everything else") gives the oracle, whatever the answer
# form and wherever the answered decision point sits:
#   * answers that spell the member t        -> returns exactly t;
#   * otherwise                              -> ValueError/TypeError, and in
#     no case a returned DNA that is not a member.
# The occurrences of decision points in a tree are derived from the model.


class Occ:
  """One active decision point of a tree: model path, sub-model, its node.

  `path` leads to the decision point in the model / in the spec object
  (('e', i) = elements[i], ('c', i) = candidates[i]); `via` runs parallel to
  it and holds, for a candidate step below a multi-choice, the position of the
  choice that picked the candidate (None elsewhere).
  """

  def __init__(self, path, dp, picks, via=()):
    self.path, self.dp, self.via = path, dp, via
    self.kids = []
    if dp[0] != 'choices':
      self.node = picks
      self.answer = ('value', picks[0])
      return
    k, cands = dp[1], dp[2]
    self.node = picks[0] if (k == 1 and len(picks) == 1) else (None, tuple(picks))
    # ('list', [..]) | ('dna', tree) | ('value', v)
    self.answer = ('list', [p[0] for p in picks])
    for j, p in enumerate(picks):
      i = p[0]
      if _is_int(i) and 0 <= i < len(cands):
        self.kids.extend(occ_children(cands[i], p[1], path + (('c', i),),
                                      via + (j if k > 1 else None,)))

  def walk(self):
    yield self
    for kid in self.kids:
      yield from kid.walk()


def _occ_dp(dp, node, path, via):
  if dp[0] == 'choices':
    return Occ(path, dp, [node] if dp[1] == 1 else list(node[1]), via)
  return Occ(path, dp, node, via)


def occ_children(space, children, path, via=()):
  elems = space[1]
  if not elems:
    return []
  if len(elems) == 1:
    e = elems[0]
    if e[0] == 'choices' and e[1] > 1:
      return [_occ_dp(e, (None, tuple(children)), path + (('e', 0),),
                      via + (None,))]
    return [_occ_dp(e, children[0], path + (('e', 0),), via + (None,))]
  return [_occ_dp(e, c, path + (('e', i),), via + (None,))
          for i, (e, c) in enumerate(zip(elems, children))]


def occurrences(m, node):
  """Top-level occurrences of the (well-formed) tree `node` of model m."""
  if m[0] != 'space':
    return [_occ_dp(m, node, (), ())]
  if len(m[1]) == 1:
    return occ_children(m, (node,) if node[0] is not None else node[1], ())
  return occ_children(m, node[1], ())


def norm_tree(node):
  """The tree with trivial nodes (no value, one child) removed; only used to
  pre-select probes (the verdicts use the shape of the real pg.DNA)."""
  v, ch = node[0], tuple(norm_tree(c) for c in node[1])
  if len(ch) == 1 and ch[0][0] is None:
    ch = ch[0][1]
  if v is None and len(ch) == 1:
    v, ch = ch[0]
  return (v, ch)


def dict_key_of(spec, o):
  """(live key, its source text) of an occurrence for DNA.from_dict: the
  decision points below a multi-choice are those of its sub-choice specs."""
  expr = 'spec'
  for (t, i), j in zip(o.path, o.via):
    if t == 'e':
      spec, expr = spec.elements[i], f'{expr}.elements[{i}]'
    else:
      if j is not None:
        spec, expr = spec.subchoice(j), f'{expr}.subchoice({j})'
      spec, expr = spec.candidates[i], f'{expr}.candidates[{i}]'
  return spec, expr


def model_at(m, path):
  for t, i in path:
    m = m[1][i] if t == 'e' else m[2][i]
  return m


def live_at(spec, path):
  for t, i in path:
    spec = spec.elements[i] if t == 'e' else spec.candidates[i]
  return spec


def occ_position(m, path):
  """Where a decision point sits (decides which level checks the result)."""
  if not any(t == 'c' for t, _ in path):
    return 'root' if (m[0] != 'space' or len(m[1]) == 1) else 'root-element'
  holder = model_at(m, path[:-1])
  return 'nested-sole' if len(holder[1]) == 1 else 'nested-element'


def plan_of(tops):
  """[(path, answer)] in depth-first order; a DNA answer covers its sub-tree."""
  out = []

  def rec(o):
    out.append((o.path, o.answer))
    if not (o.answer[0] == 'dna' and o.dp[0] == 'choices'):
      for kid in o.kids:
        rec(kid)
  for o in tops:
    rec(o)
  return out


FN_SRC = (
    'q = {}\n'
    'for p, a in ans:\n'
    "  q.setdefault(id(eval('spec.' + p) if p else spec), []).append(a)\n"
    'def fn(dp):\n'
    '  l = q.get(id(dp))\n'
    '  if l: return l.pop(0)\n'
    '  return (list(range(dp.num_choices)) if dp.is_categorical else\n'
    "          dp.min_value if dp.is_numerical else 'a')\n")


def _answer_obj(a):
  return mk(a[1]) if a[0] == 'dna' else (list(a[1]) if a[0] == 'list' else a[1])


def _answer_src(a):
  return dsrc(a[1]) if a[0] == 'dna' else repr(
      list(a[1]) if a[0] == 'list' else a[1])


def run_from_fn(spec, plan):
  """(rejected?, text, returned tree or None) of DNA.from_fn under a plan."""
  env = {'spec': spec, 'ans': [(path_attr(p), _answer_obj(a)) for p, a in plan]}
  exec(FN_SRC, env)  # pylint: disable=exec-used
  box = []
  rej, text = raises(lambda: box.append(pg.DNA.from_fn(spec, env['fn'])))
  return rej, text, (shape(box[0]) if box else None)


def plan_src(plan):
  return ('ans = [' + ', '.join(
      f'({path_attr(p)!r}, {_answer_src(a)})' for p, a in plan) + ']\n' + FN_SRC)


def fresh_children(space, r):
  """Children tuple of some member of a candidate sub-space."""
  if not is_finite(space) or count_members(space) <= 200:
    return r.choice(space_children(space))
  elems = space[1]
  nodes = [r.choice(dp_nodes_sampled(e, r)) for e in elems]
  if len(elems) == 1:
    return nodes[0][1] if nodes[0][0] is None else (nodes[0],)
  return tuple(nodes)


def dp_nodes_sampled(dp, r):
  """One random node of a (large) decision point, as a 1-element list."""
  if dp[0] != 'choices':
    return [r.choice(dp_nodes(dp))]
  _, k, cands, distinct, srt, _, _ = dp
  t = r.choice(index_tuples(len(cands), k, distinct, srt))
  picks = [(i, fresh_children(cands[i], r)) for i in t]
  return [picks[0] if k == 1 else (None, tuple(picks))]


def index_list_reason(dp, lst):
  """Why the index list `lst` cannot be the decision of Choices dp (or None)."""
  _, k, cands, distinct, srt, _, _ = dp
  if len(lst) != k:
    return 'wrong-number-of-choices'
  for v in lst:
    if not _is_int(v):
      return 'index-wrong-type'
    if v < 0:
      return 'negative-index'
    if v >= len(cands):
      return 'index-too-large'
  if distinct and len(set(lst)) != k:
    return 'duplicate-choices'
  if srt and any(lst[i] > lst[i + 1] for i in range(k - 1)):
    return 'unsorted-choices'
  return None


def index_list_edits(dp, base):
  """One-step edits of the index list `base` of Choices dp."""
  n = len(dp[2])
  out = [base[:-1], base + [base[-1]], base + [0], [], base[::-1]]
  for i, v in enumerate(base):
    for nv in (-1, -n, n, n + 2, v + 1, v - 1, float(v), str(v), None):
      out.append(base[:i] + [nv] + base[i + 1:])
    for nv in range(n):
      out.append(base[:i] + [nv] + base[i + 1:])
  seen, res = set(), []
  for lst in out:
    key = tuple((type(v).__name__, v) for v in lst)
    if key not in seen and lst != base:
      seen.add(key)
      res.append(lst)
  return res


# Non-members that validate() is known to accept (known_findings.json,
# validate/reject/value-on-*-container); from_fn documents that it validates.
FROM_FN_KNOWN = ('value-on-multi-choice-container', 'value-on-space-container')


def _stratified(r, pool, n):
  """Up to n items of {class: [items]}, classes taking turns."""
  pool = {k: list(v) for k, v in pool.items()}
  out = []
  while len(out) < n and any(pool.values()):
    for k in sorted(pool, key=str):
      if pool[k] and len(out) < n:
        out.append((k, pool[k].pop(r.randrange(len(pool[k])))))
  return out


def _from_fn_case(cx, cid, key, plan, want_tree, must_accept, what):
  """Runs one plan and records the verdict demanded by the statement."""
  m = cx.m
  rej, text, got = run_from_fn(cx.spec, plan)
  crash = _last_error[0]
  psrc = plan_src(plan)
  if must_accept:
    ok = (not rej and got is not None and accepts(m, got)
          and (want_tree is None or tkey(got) == tkey(want_tree)))
    msg = (f'{what}: from_fn ' + (f'raised {text}' if rej else f'returned {got!r}')
           + (f', want {want_tree!r}' if want_tree is not None else
              ', want a member'))
    body = psrc + 'r = D.from_fn(spec, fn)\nspec.validate(r)\n' + (
        f'assert r == {dsrc(want_tree)}, r' if want_tree is not None else '')
  else:
    ok = (rej and not crash) or (not rej and got is not None
                                 and accepts(m, got))
    msg = (f'{what}: from_fn '
           + (f'is not refused with ValueError but crashes: {crash}' if crash
              else f'returned the non-member {got!r} ({why_not(m, got)})'
              if got is not None else text))
    body = psrc + ('try: r = D.from_fn(spec, fn)\n'
                   'except (ValueError, TypeError): pass\n'
                   'else: raise AssertionError(f"returned {r!r} for answers '
                   'that do not spell a member")')
  cx.rec.case(cx.cid(cid), (cx.label, key), ok, msg, cx.wit(body))


def _picks_of(o):
  """Index list spelled by the node of a Choices occurrence."""
  return [o.node[0]] if o.node[0] is not None else [c[0] for c in o.node[1]]


def _all_occ(tops):
  return [o for top in tops for o in top.walk()]


def _sub_reason(dp, actual):
  """Reason why `actual` is no decision of dp; 'known' for the known finding
  (a value on an otherwise right multi-choice container)."""
  reason = why_not_dp(dp, actual)
  if reason in FROM_FN_KNOWN:
    reason = why_not_dp(dp, (None, actual[1])) or 'known'
  return reason


def _from_fn_checks(cx, n_members, n_bad):
  """DNA.from_fn over every answer form x position of the answered point."""
  m, r = cx.m, cx.r
  mem = [t for t in cx.mem if not touches_custom_children(m, t)]
  pick = mem if len(mem) <= n_members else r.sample(mem, n_members) if (
      n_members < 3) else (
          [mem[0], mem[-1]] + r.sample(mem[1:-1], n_members - 2))
  nmax = max([len(x[2]) for x in _all_choices(m)] or [1])
  for t in pick:
    base = occurrences(m, t)
    allo = _all_occ(base)
    cats = [o for o in allo if o.dp[0] == 'choices']
    leaves = [o for o in allo if o.dp[0] != 'choices']
    # ---- answers that spell the member t, in every form ------------------
    _from_fn_case(cx, 'from_fn/accept-member/index-answers', (t, 'lists'),
                  plan_of(base), t, True, f'index lists spelling {t!r}')
    by_pos = {}
    for o in cats:
      by_pos.setdefault(occ_position(m, o.path), []).append(o)
    for pos in sorted(by_pos):
      o = r.choice(by_pos[pos])
      o.answer = ('dna', o.node)
      _from_fn_case(cx, f'from_fn/accept-member/dna-answer@{pos}',
                    (t, o.path), plan_of(base), t, True,
                    f'sub-tree DNA {o.node!r} at spec.{path_attr(o.path)}, '
                    f'index lists elsewhere, spelling {t!r}')
      o.answer = ('list', _picks_of(o))
    if leaves:
      for o in leaves:
        o.answer = ('dna', o.node)
      _from_fn_case(cx, 'from_fn/accept-member/dna-answer@float-or-custom',
                    (t, 'leaves'), plan_of(base), t, True,
                    f'DNA answers at float/custom points spelling {t!r}')
    if len(cats) > 1:
      for o in allo:
        if r.random() < 0.5:
          o.answer = ('dna', o.node)
        elif o.dp[0] != 'choices':
          o.answer = ('value', o.node[0])
      _from_fn_case(cx, 'from_fn/accept-member/mixed-answers', (t, 'mixed'),
                    plan_of(base), t, True,
                    f'a mix of sub-tree DNAs and index lists spelling {t!r}')
  # ---- answers near a member -------------------------------------------
  pool = {}
  for t in (pick if len(pick) <= 3 else r.sample(pick, 3)):
    for oi, o in enumerate(_all_occ(occurrences(m, t))):
      pos = occ_position(m, o.path)
      form = 'dna' if o.dp[0] == 'choices' else o.dp[0] + '-dna'
      for kind, c in corruptions(o.node, nmax):
        pre = _sub_reason(o.dp, norm_tree(c))     # pre-selection only
        if pre == 'known':
          continue
        # a sub-tree DNA that is a one-step corruption of the right one
        pool.setdefault((form, pos, pre), []).append((t, oi, ('dna', c), kind))
        if o.dp[0] != 'choices' and not c[1]:
          pool.setdefault((o.dp[0] + '-value', pos, pre), []).append(
              (t, oi, ('value', c[0]), kind))
      if o.dp[0] == 'choices':
        # an index list that is a one-step edit of the right one
        for lst in index_list_edits(o.dp, _picks_of(o)):
          pool.setdefault(('index', pos, index_list_reason(o.dp, lst)),
                          []).append((t, oi, ('list', lst), 'index-list-edit'))
  for (form, pos, _), (t, oi, answer, kind) in _stratified(r, pool, n_bad):
    base = occurrences(m, t)
    o = _all_occ(base)[oi]
    if answer[0] == 'list':
      reason = index_list_reason(o.dp, answer[1])
      # sub-decisions below the edited list: fresh members of the candidates
      picks = [(i, fresh_children(o.dp[2][i], r)
                if _is_int(i) and 0 <= i < len(o.dp[2]) else ())
               for i in answer[1]]
      new = Occ(o.path, o.dp, picks, o.via)
      o.kids, o.node = new.kids, new.node
    elif answer[0] == 'dna':
      try:
        answer = ('dna', shape(mk(answer[1])))    # as the constructor has it
      except Exception:  # pylint: disable=broad-except
        continue
      reason = _sub_reason(o.dp, answer[1])
      if reason == 'known' or touches_custom_children(m, answer[1]):
        continue
    else:
      reason = why_not_dp(o.dp, (answer[1], ()))
    o.answer = answer
    what = (f'{form} answer {answer[1]!r} at spec.{path_attr(o.path)} '
            f'(edit: {kind}; the other answers spell {t!r})')
    if reason is None:
      _from_fn_case(cx, f'from_fn/accept-member/edited-{form}-answer',
                    (t, o.path, repr(answer)), plan_of(base), None, True, what)
    else:
      # A ready-made DNA is checked as a whole (one id per position, the
      # violated constraint is in the message); index lists and raw values
      # are checked constraint by constraint.
      cid = f'from_fn/reject/{form}-answer@{pos}'
      if answer[0] != 'dna':
        cid += '/' + reason
      _from_fn_case(cx, cid, (t, o.path, repr(answer)), plan_of(base), None,
                    False, f'{what}, violating: {reason}')


# ---- DNA.from_dict: {decision point: index | sub-tree DNA} -----------------


def _dict_entries(spec, tops, dna_at=None):
  """[(key expression, live key, value)] spelled by the occurrences; the picks
  of occurrence `dna_at` are given as sub-tree DNAs, all others as indices."""
  out = []

  def rec(o):
    live, expr = dict_key_of(spec, o)
    if o.dp[0] != 'choices':
      out.append((expr, live, ('value', o.node[0])))
      return
    picks = [o.node] if o.node[0] is not None else list(o.node[1])
    many = o.dp[1] > 1
    for j, p in enumerate(picks):
      out.append((expr + (f'.subchoice({j})' if many else ''),
                  live.subchoice(j) if many else live,
                  ('dna', p) if o is dna_at else ('value', p[0])))
    if o is not dna_at:
      for kid in o.kids:
        rec(kid)
  for top in tops:
    rec(top)
  return out


def _from_dict_case(cx, cid, key, entries, want_tree, what):
  m, spec = cx.m, cx.spec
  d = {k: (mk(v[1]) if v[0] == 'dna' else v[1]) for _, k, v in entries}
  box = []
  rej, text = raises(lambda: box.append(pg.DNA.from_dict(d, spec)))
  crash = _last_error[0]
  got = shape(box[0]) if box else None
  dsrc_ = '{' + ', '.join(
      f'{e}: {dsrc(v[1]) if v[0] == "dna" else repr(v[1])}'
      for e, _, v in entries) + '}'
  if want_tree is not None:
    ok = not rej and got is not None and tkey(got) == tkey(want_tree)
    msg = (f'{what}: from_dict ' + (f'raised {text}' if rej else
                                    f'returned {got!r}') + f', want {want_tree!r}')
    body = f'r = D.from_dict({dsrc_}, spec)\nassert r == {dsrc(want_tree)}, r'
  else:
    ok = (rej and not crash) or (got is not None and accepts(m, got))
    msg = (f'{what}: from_dict '
           + (f'is not refused with ValueError but crashes: {crash}' if crash
              else f'returned the non-member {got!r} ({why_not(m, got)})'
              if got is not None else text))
    body = (f'try: r = D.from_dict({dsrc_}, spec)\n'
            'except (ValueError, TypeError): pass\n'
            'else: raise AssertionError(f"returned {r!r} for decisions that '
            'do not spell a member")')
  cx.rec.case(cx.cid(cid), (cx.label, key), ok, msg, cx.wit(body))


# Non-member that use_spec (the last step of from_dict) is known to accept
# (known_findings.json, bind/reject/float-with-children).
FROM_DICT_KNOWN = ('float-with-children',)


def _from_dict_checks(cx, n_members, n_bad):
  """DNA.from_dict keyed by decision point: members and one-step edits."""
  m, r, spec = cx.m, cx.r, cx.spec
  mem = [t for t in cx.mem if not touches_custom_children(m, t)]
  pick = mem if len(mem) <= n_members else r.sample(mem, n_members)
  nmax = max([len(x[2]) for x in _all_choices(m)] or [1])
  pool = {}
  for t in pick:
    base = occurrences(m, t)
    entries = _dict_entries(spec, base)
    _from_dict_case(cx, 'from_dict/accept-member/index-values', (t, 'index'),
                    entries, t, f'indices spelling {t!r}')
    cats = [o for o in _all_occ(base) if o.dp[0] == 'choices']
    if cats:
      o = r.choice(cats)
      _from_dict_case(cx, 'from_dict/accept-member/dna-values', (t, o.path),
                      _dict_entries(spec, base, o), t,
                      f'sub-tree DNAs at spec.{path_attr(o.path)} spelling {t!r}')
    for i, e in enumerate(entries):
      pool.setdefault(('missing-decision',), []).append(
          (t, entries[:i] + entries[i + 1:], f'no entry for {e[0]}'))
    for o in cats:
      picks = _picks_of(o)
      ents = _dict_entries(spec, base, o)      # o's picks as sub-tree DNAs
      live = dict_key_of(spec, o)[0]
      one = CH(1, o.dp[2])
      for j, v in enumerate(picks):
        key = live.subchoice(j) if o.dp[1] > 1 else live
        at_i = next(i for i, e in enumerate(entries) if e[1] is key)
        at_d = next(i for i, e in enumerate(ents) if e[1] is key)
        expr, node = ents[at_d][0], ents[at_d][2][1]
        for nv in [-1, len(o.dp[2]), len(o.dp[2]) + 2] + [
            x for x in range(len(o.dp[2])) if x != v]:
          reason = index_list_reason(o.dp, picks[:j] + [nv] + picks[j + 1:])
          if reason is None:
            continue        # a member again, given other sub-decisions
          pool.setdefault(('index-value', reason), []).append(
              (t, entries[:at_i] + [(expr, key, ('value', nv))]
               + entries[at_i + 1:], f'index {nv} at {expr}'))
          pool.setdefault(('dna-value', reason), []).append(
              (t, ents[:at_d] + [(expr, key, ('dna', (nv, node[1])), (one, reason))]
               + ents[at_d + 1:], f'sub-tree DNA at {expr} with index {nv}'))
        for kind, c in corruptions(node, nmax):
          reason = why_not_dp(one, norm_tree(c))
          if (reason is None or reason in FROM_DICT_KNOWN
              or touches_custom_children(m, c)):
            continue
          pool.setdefault(('dna-value', reason), []).append(
              (t, ents[:at_d] + [(expr, key, ('dna', c), (one, None))]
               + ents[at_d + 1:],
               f'sub-tree DNA at {expr} edited ({kind})'))
  for cls, (t, ents, what) in _stratified(r, pool, n_bad):
    edited = [i for i, e in enumerate(ents) if len(e) == 4]
    if edited:
      # classify by the DNA as the constructor has it
      expr, key, (_, c), (one, among) = ents[edited[0]]
      try:
        actual = shape(mk(c))
      except Exception:  # pylint: disable=broad-except
        continue
      # `among`: the constraint among the choices of a multi-choice that the
      # index of this sub-tree violates (duplicate, out of order)
      reason = why_not_dp(one, actual) or among
      if (reason is None or reason in FROM_DICT_KNOWN
          or touches_custom_children(m, actual)):
        continue
      ents = list(ents)
      ents[edited[0]] = (expr, key, ('dna', actual))
      cls = ('dna-value',)
      what += f': {actual!r}, violating: {reason}'
    _from_dict_case(cx, 'from_dict/reject/' + '/'.join(cls), (t, what), ents,
                    None, f'{what}; the other entries spell {t!r}')


def _answer_specs(tier, r):
  flat_ = [leaf(3), leaf(1), leaf(3, 2, True, False), leaf(3, 2, True, True),
           leaf(3, 2, False, False), leaf(3, 2, False, True),
           leaf(2, 3, False, True), leaf(3, 3, True, False)]
  specs = [SP(x) for x in flat_] + flat_[:4]
  specs += handpicked_roots() + infinite_roots()
  extra = single_point_roots() + conditional_family(
      [2, 3], [1, 2], [C, S2, SM, S22, SN, SF], 200)
  fixed = len(specs)
  specs += r.sample(extra, 6 if tier == 'quick' else 150)
  return fixed, specs


def drv_answer_constructors(tier, seed):
  """from_fn / from_dict return exactly the members, for every answer form."""
  quick = tier == 'quick'
  rec = Recorder(
      PROP, 'DNA.from_fn / DNA.from_dict build exactly the members',
      scope=('specs: bare and space-wrapped leaf choices of every '
             'distinct/sorted combination, the hand-picked conditional / '
             'multi-element / deep specs, float/custom specs, '
             f'{6 if quick else 150} seeded specs with single-point and '
             'conditional candidate sub-spaces; per spec '
             f'{3 if quick else 10} members (first, last, seeded). from_fn: '
             'the callback spells the member with index lists everywhere, '
             'with a ready-made sub-tree DNA at one Choices of each position '
             '(root or sole element of the root space / one of several root '
             'elements / sole or one of several elements of a candidate '
             'sub-space), with DNAs at float/custom points, with a seeded mix; '
             f'then {12 if quick else 80} one-step edits per spec, stratified '
             'by (answer form, position, violated constraint): the sub-tree '
             'DNA of one decision point corrupted (value/children edits), or '
             'its index list edited (arity, range, type, duplicates, order; '
             'sub-decisions answered with fresh members), or a float/custom '
             'answer corrupted, raw or as DNA; from_dict keyed by decision '
             'point (sub-choice) objects with index or sub-tree DNA values: '
             f'member dicts and {5 if quick else 40} one-step edits (entry '
             'dropped, index out of range / repeated / out of order, '
             'corrupted sub-tree DNA). Verdict: answers spelling a member '
             'return exactly it; anything else is refused with '
             'ValueError/TypeError or at least never returns a non-member'))
  r = rng(seed, 'c11.answers')
  t0 = time.process_time()
  budget_s = 14 if quick else 500
  fixed, specs = _answer_specs(tier, r)
  for i, m in enumerate(specs):
    if i >= fixed and time.process_time() - t0 > budget_s:
      break          # only the seeded sample is ever cut short (CPU time)
    cx = Cx(rec, m, r, tier)
    _from_fn_checks(cx, 3 if quick else 10, 12 if quick else 80)
    _from_dict_checks(cx, 2 if quick else 6, 5 if quick else 40)
  return rec.result()


DRIVERS = [drv_space_size, drv_iteration, drv_membership,
           drv_random_and_sweeping, drv_single_point_subspaces,
           drv_edited_specs, drv_bind_sequences, drv_answer_constructors]


def replay(rec):
  """Re-executes rec['witness']; returns (ok, message)."""
  try:
    exec(rec['witness'], {})  # pylint: disable=exec-used
    return True, 'witness passes'
  except Exception as e:  # pylint: disable=broad-except
    return False, f'{type(e).__name__}: {e}'
