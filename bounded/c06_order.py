"""C06 bounded drivers: pg.eq / pg.ne / pg.lt / pg.gt / pg.hash algebraic laws.

Scope: a pool of values given as *source expressions* (so every witness is a
self-contained snippet) -- primitives of each type, None, pg.MISSING_VALUE,
plain and symbolic lists, dicts with permuted key orders, tuples of mutually
comparable primitives, objects of several pg.Object classes (subclass with /
without extra field, partial object, same-qualname classes, a class that opts
out of symbolic comparison) and nestings; every leaf kind that eq / lt / hash
handle by a branch of their own -- functions (same byte code with other
constants / docstring / defaults / closure cells, other byte code), bound,
unbound, static and class methods, builtins, classes, sets -- at top level and
below lists, dicts and objects; objects of classes made by the library's class
factories (pg.functor, pg.symbolize, pg.wrap(eq=True)); and library classes
(hyper primitives, and the classes that override a sym_* comparison method:
pg.Ref, CustomDecisionPoint); callable objects (functools.partial shared by
name / built anew, instances with __call__ compared by identity or by value);
opaque leaves, i.e. every other non-symbolic value, which ends in the fall-back
branches of eq / lt / hash (by what the leaf's own type offers: == / hash / <,
== only, identity only; types whose == reaches across types: Fraction,
pg.KeyPath, bytes / bytearray); typed missing values; values that hold a
Python-unhashable leaf below every kind of symbolic parent (they have no hash:
pg.hash, sym_hash and hash() must agree on that, and where they answer, equal
values hash equal); the targets of the references next to the references
(object, symbolic dict, symbolic list as target), at top level and below plain
containers; tuples with non-number elements; objects of ONE class with
different sets of attribute keys (schemas with a non-const key field, functors
/ symbolized / wrapped classes with *args and **kwargs, typed dicts with a
non-const key: no / one / two extra keys, prefix of each other, other keys with
the same values, keys in another order; case-id class
`same-class-different-keys`), also as mutation targets (keys added, removed,
replaced, re-added), where every mutated node is also compared with the
ORIGINAL content (two different values: trichotomy).  The pool is built twice (X and
Y, independent constructions) so that the identity short cut of pg.eq does not
hide anything.
All ordered pairs and all triples are checked through the pair tables; the
thorough tier adds seeded random nestings.  A third driver checks the same
laws on values that have been *mutated* (every mutator, every notification
mode, after every observer has been used, in place or on a copy).  A fourth
driver checks them on objects of every concrete class that the library itself
defines (pg.geno, pg.hyper, pg.tuning, pg.patching, HTML controls, pyglove.ext),
built from the class schemas with one field varied at a time -- a class may
define sym_eq / sym_lt / sym_hash / == / hash() of its own and treat a single
field differently in one of them.

The oracles are the laws of the statement.  The only extra reference is a
structural model of the *pool* (the same expressions evaluated with plain
Python stand-ins) which says which pool values denote the same value; it has
no verdict for values that hold functions / methods / callable objects /
references / leaves compared by identity (the statement does not say when two
functions are the same value; for them only the laws are checked).

Case ids: <law>/<input class of the pair>.  The class is, in this order: a
structural class found at aligned positions (tuple-elements, permuted-dict-keys,
same-qualname-classes, typed-missing-different-specs), else the special leaf
kind(s) of the first aligned pair that holds one (`<kind>-leaves`), else the
kinds of the two values.  Triples and sorted samples get the one class picked
by `_pick` from the classes of their pairs.  Library classes (driver 4):
lib/<class>.<field> for two objects that differ in that field only (see there).
"""
import enum
import fractions
import functools
import inspect
import itertools
import numbers

import pyglove as pg
from pyvc.bounded import Recorder, rng

_PARTS = {
    'IMP': "import functools, fractions\n",
    '_f': "_f = lambda *n: pg.members([(k, pg.typing.Any()) for k in n])\n",
    'A': "@_f('x')\nclass A(pg.Object): pass\n",
    'A2': "class A2(A): pass\n",
    'B': "@pg.members([('y', pg.typing.Any(default=None))])\nclass B(A): pass\n",
    'C': "@_f('p', 'q')\nclass C(pg.Object): pass\n",
    'N': "@_f('x')\nclass N(pg.Object): use_symbolic_comparison = False\n",
    'L': ("def _mk():\n  @_f('x')\n  class L(pg.Object): pass\n  return L\n"
          "L1, L2 = _mk(), _mk()\n"),
    'PD': ("PD = lambda **kw: pg.Dict.partial(kw, value_spec=pg.typing.Dict("
           "[('a', pg.typing.Any()), ('b', pg.typing.Any())]))\n"),
    # functions: same byte code / other constants, other byte code, other
    # docstring, other defaults, other closure cells.
    'FN': ("f_add1 = lambda v: v + 1\nf_add2 = lambda v: v + 2\nf_mul = lambda v: v * 2\n"
           "def g_a(v):\n  'Scales v.'\n  return v * 10\n"
           "def g_b(v):\n  'Scales v (other doc).'\n  return v * 100\n"
           "def g_k1(v, k=1): return v + k\ndef g_k2(v, k=2): return v + k\n"
           "def _mkc(n): return lambda v: v + n\nc_1, c_2 = _mkc(1), _mkc(2)\n"),
    # callable objects: a partial that is shared by name, instances of a class
    # with __call__ (compared by identity / by value).
    'PT': "p_1 = functools.partial(g_k1, k=2)\n",
    'CBK': ("class CB:\n  def __init__(self, k): self.k = k\n  def __call__(self, v): return v + self.k\n"
            "class CE(CB):\n  def __eq__(self, o): return type(o) is CE and o.k == self.k\n"
            "  def __hash__(self): return hash(('CE', self.k))\n"),
    # opaque (non-symbolic, non-callable) leaves: a value class with == / hash /
    # < (V), one with == but without hash and < (U), a class compared by
    # identity (P), an enum.
    'DC': ("import dataclasses\n@dataclasses.dataclass(frozen=True, order=True)\nclass V:\n  k: int\n"
           "@dataclasses.dataclass\nclass U:\n  k: int\n"),
    'PL': "class P: pass\no_1 = P()\n",
    'EN': "import enum\nclass E(enum.Enum):\n  a = 1\n  b = 2\n",
    # methods: bound (same / other receiver), unbound, static, class methods.
    'H': ("class H:\n  def m1(self): return 'one'\n  def m2(self): return 'two'\n"
          "  def m3(self, v): return v\n  @staticmethod\n  def s1(): return 1\n"
          "  @classmethod\n  def k1(cls): return 1\n  @classmethod\n  def k2(cls): return 2\n"
          "h1, h2 = H(), H()\n"),
    # classes made by the library's class factories.
    'F': "@pg.functor()\ndef F(x, y=1): return x\n",
    'W': ("@pg.symbolize\nclass W:\n  def __init__(self, x, y=0): self.x = x\n"
          "class _K:\n  def __init__(self, x, y=0): self.x = x\nWE = pg.wrap(_K, eq=True)\n"),
    # classes whose objects hold a *variable* set of attributes: a schema with a
    # non-const key field (any key / keys of a pattern, with and without fixed
    # fields, a subclass), functors and symbolized / wrapped classes with
    # *args / **kwargs, a typed dict with a non-const key.
    'K': ("@pg.members([('x', pg.typing.Any()), (pg.typing.StrKey(), pg.typing.Any())])\n"
          "class K(pg.Object): pass\nclass K2(K): pass\n"),
    'KR': "@pg.members([(pg.typing.StrKey('p.*'), pg.typing.Any())])\nclass KR(pg.Object): pass\n",
    'G': "@pg.functor()\ndef G(x, *args, **kwargs): return x\n",
    'WK': ("@pg.symbolize\nclass WK:\n  def __init__(self, x, **kwargs): self.x = x\n"
           "class _J:\n  def __init__(self, x, *args, **kwargs): self.x = x\nWJ = pg.wrap(_J, eq=True)\n"),
    'VD': ("VD = lambda **kw: pg.Dict(kw, value_spec=pg.typing.Dict("
           "[('a', pg.typing.Any(default=0)), (pg.typing.StrKey(), pg.typing.Any())]))\n"),
    # referenced values (pg.Ref compares its target by identity).
    'R': "r_1, r_2, r_3 = A(1), A(1), A(2)\n",
    'RC': "r_d, r_l = pg.Dict(k=1), pg.List([1])\n",
    # a class with typed fields (mutation driver).
    'T': ("@pg.members([('n', pg.typing.Int(default=0)), ('tags', pg.typing.List(pg.typing.Int(), default=[])),\n"
          "  ('sub', pg.typing.Dict([('u', pg.typing.Int(default=1)), ('w', pg.typing.Any(default=None))]))])\n"
          "class T(pg.Object): pass\n"),
    # classes shipped with the library, by module and name (a package attribute
    # may shadow a module: pg.geno.custom is a function); two functions that
    # fit every callable field (different byte code).
    'LIB': ("import importlib\n_c = lambda m, n: getattr(importlib.import_module(m), n)\n"
            "fv_1 = lambda *a, **k: 1\nfv_2 = lambda *a, **k: len(a)\n"),
}
PRE = 'import pyglove as pg\n' + ''.join(_PARTS.values())

# part -> names whose use in an expression needs the part.
_PART_NAMES = {
    'IMP': ('functools', 'fractions', 'p_1'), 'PT': ('p_1',), 'CBK': ('CB', 'CE'),
    'DC': ('V', 'U'), 'PL': ('P', 'o_1'), 'EN': ('E',),
    'A': ('A', 'A2', 'B', 'r_1', 'r_2', 'r_3'), 'A2': ('A2',), 'B': ('B',), 'C': ('C',),
    'N': ('N',), 'L': ('L1', 'L2'), 'PD': ('PD',),
    'FN': ('f_add1', 'f_add2', 'f_mul', 'g_a', 'g_b', 'g_k1', 'g_k2', 'c_1', 'c_2', 'p_1'),
    'H': ('H', 'h1', 'h2'), 'F': ('F',), 'W': ('W', 'WE', '_K'),
    'R': ('r_1', 'r_2', 'r_3'), 'RC': ('r_d', 'r_l'),
    'K': ('K', 'K2'), 'KR': ('KR',), 'G': ('G',), 'WK': ('WK', 'WJ', '_J'), 'VD': ('VD',),
    'T': ('T',), 'LIB': ('_c', 'fv_1', 'fv_2'),
}
_NEEDS_F = ('A', 'A2', 'B', 'C', 'N', 'L')


def _pre(*exprs):
  """The part of the preamble that the expressions need (witnesses are capped at 1200 chars)."""
  import re
  text = ' '.join(exprs)
  names = set(re.findall(r'[A-Za-z_][A-Za-z_0-9]*', text))
  need = [p for p in _PARTS if p in _PART_NAMES and names & set(_PART_NAMES[p])]
  out = 'import pyglove as pg\n'
  if any(n in _NEEDS_F for n in need):
    out += _PARTS['_f']
  return out + ''.join(_PARTS[n] for n in need)


def _fit(w, key=''):
  if len(w) <= 1190:
    return w
  return ('# witness too long for the record; failing input: ' + repr(key)[:900] +
          '\nraise AssertionError("see failing input")')


POOL = [
    # markers and primitives.
    'pg.MISSING_VALUE', 'None', 'False', 'True', '0', '1', '-1', '2', '10',
    '1.0', '0.5', '-2.5', "float('inf')", "''", "'a'", "'ab'", "'b'", "'1'",
    "'B'",
    # lists (plain and symbolic).
    '[]', '[1]', '[1, 2]', '[2]', '[1, [2]]', '[1, [3]]', '[None]', "['a']",
    '[[]]', 'pg.List([1])', 'pg.List([1, 2])', 'pg.List([])',
    "[{'a': 1, 'b': 2}]", "[{'b': 2, 'a': 1}]", '[None, 1]', '[1, 2, 0]',
    # tuples of mutually comparable primitives.
    '()', '(1,)', '(1, 2)', '(2,)', '(1.5,)', '(True,)', '(1, 2, 3)',
    # dicts (plain and symbolic), permuted key orders.
    '{}', "{'a': 1}", "{'a': 1, 'b': 2}", "{'b': 2, 'a': 1}", "{'a': 2}",
    "{'b': 1}", "{'a': 1, 'b': 3}", "{'a': 1, 'c': 0}",
    'pg.Dict(a=1, b=2)', 'pg.Dict(b=2, a=1)', 'pg.Dict()',
    "{'a': {'x': 1, 'y': 2}}", "{'a': {'y': 2, 'x': 1}}", "{'a': [1]}",
    "{'a': None}", "{'a': 1, 'b': 2, 'c': 3}", "{'c': 3, 'a': 1, 'b': 2}",
    # objects.
    'A(1)', 'A(2)', 'A(None)', 'A([1, 2])', 'A([1, 3])', 'A2(1)', 'B(1)',
    'B(1, 2)', 'B(2, 0)', 'C(1, 2)', 'C(2, 1)', 'C(1, 3)', 'A(A(1))',
    'A(B(1))', "A({'p': 1, 'q': 2})", "A({'q': 2, 'p': 1})", 'A.partial()',
    'C.partial(1)', 'N(1)', 'N(2)', 'L1(1)', 'L2(1)', "A('a')",
    'PD()', 'PD(a=1)', 'PD(b=1)', 'PD(a=1, b=2)', 'PD(b=2, a=1)', "{'a': N(1)}", '[N(1), 0]', '[N(1), 1]', "{'a': N(1), 'b': 0}", "{'a': N(1), 'b': 1}", 'A(N(1))', 'C(N(1), 0)', 'C(N(1), 1)',
    "[{'a': 1, 'c': 0}]", "[{'a': 1, 'b': 2}, 1]", "[{'b': 2, 'a': 1}, 0]",
    '[A(1)]', '[A(2)]', "{'a': A(1)}", '(1, 1)', "pg.Dict(a=A(1))",
    # -- leaf kinds with their own branch in eq / lt / hash --------------------
    # functions (names are shared objects, parenthesised lambdas are built anew).
    'f_add1', 'f_add2', 'f_mul', '(lambda v: v + 1)', '(lambda v: v + 3)',
    '(lambda v: v * 2)', 'g_a', 'g_b', 'g_k1', 'g_k2', 'c_1', 'c_2',
    # methods, builtins, classes.
    'h1.m1', 'h1.m2', 'h2.m1', 'h1.m3', 'H.m1', 'H.s1', 'H.k1', 'H.k2',
    'len', 'abs', 'int', 'str', 'A', 'A2', 'H',
    # callables below containers and objects.
    'A(f_add1)', 'A(f_add2)', 'A(f_mul)', 'A(h1.m1)', 'A(h1.m2)', 'A(int)',
    'A(str)', '[f_add1]', '[f_add2, 0]', '[f_add1, 1]', "{'a': g_a}",
    "{'a': g_b}", 'pg.Dict(f=[g_a])', 'pg.Dict(f=[g_b])',
    'C(f_add1, 1)', 'C(f_add2, 0)',
    # sets.
    'set()', '{1}', '{2}', '{1, 2}', 'frozenset({1})', 'A(frozenset({1}))',
    'A(frozenset({2}))',
    # -- classes made by the library's factories ------------------------------
    'F(1)', 'F(1, 1)', 'F(1, 2)', 'F(2)', 'F.partial()', 'W(1)', 'W(1, 0)',
    'W(2)', 'WE(1)', 'WE(1, 0)', 'WE(2)', 'A(W(1))', 'A(WE(1))',
    # -- library classes (representatives; the ones that override a sym_*
    #    comparison method: Ref, CustomDecisionPoint.  pg.Diff is left out: its
    #    sym_eq deliberately equates a Diff without difference with the plain
    #    value, it is a report of a comparison rather than a value) ------------
    'pg.oneof([1, 2])', 'pg.oneof([1, 3])', 'pg.floatv(0.0, 1.0)',
    'pg.manyof(2, [1, 2, 3])', "pg.oneof([1, 2], name='n')",
    'pg.Ref(r_1)', 'pg.Ref(r_2)', 'pg.Ref(r_3)', 'A(pg.Ref(r_1))',
    'A(pg.Ref(r_2))', '[pg.Ref(r_1), 0]', '[pg.Ref(r_1), 1]',
    "pg.geno.CustomDecisionPoint(hyper_type='t', next_dna_fn=f_add1)",
    "pg.geno.CustomDecisionPoint(hyper_type='t', next_dna_fn=f_add2)",
    "pg.geno.CustomDecisionPoint(hyper_type='t')",
    "pg.geno.CustomDecisionPoint(hyper_type='u')",
    '-0.0',
    # -- callable objects (functools.partial: shared by name / built anew with
    #    the same / other function, positional and keyword arguments; instances
    #    with __call__ compared by identity (CB) and by value (CE)) --------------
    'p_1', 'functools.partial(g_k1, k=2)', 'functools.partial(g_k1, k=3)',
    'functools.partial(g_k2, k=2)', 'functools.partial(g_k1, 1)',
    'functools.partial(h1.m3, 1)', 'CB(1)', 'CB(2)', 'CE(1)', 'CE(2)',
    'A(p_1)', 'A(functools.partial(g_k1, k=2))', 'A(functools.partial(g_k1, k=3))',
    '[functools.partial(g_k1, k=2), 0]', '[functools.partial(g_k1, k=2), 1]',
    'pg.Dict(f=functools.partial(g_k1, k=2))', 'A(CB(1))', 'A(CE(1))',
    'C(CE(1), 0)', 'C(CE(1), 1)',
    # two distinct classes of the same qualified name, as values.
    'L1', 'L2', 'A(L1)', 'A(L2)',
    # -- opaque leaves: every other value that is neither symbolic nor one of
    #    the documented primitive kinds ends in the same fall-back branches of
    #    eq / lt / hash.  By what their own type offers: ==, hash and < (V);
    #    == without hash and < (U); == and hash without < (range, enum members,
    #    Ellipsis); identity only (P, _K).  (== and < without hash: bytearray below.)
    'V(1)', 'V(2)', 'U(1)', 'U(2)', 'range(3)', 'range(4)', 'E.a', 'E.b',
    'Ellipsis', 'o_1', 'P()', '_K(1)',
    'A(V(1))', 'A(V(2))', 'A(U(1))', 'A(U(2))', 'A(P())',
    'A(o_1)', 'A(E.a)', '[U(1), 0]', '[U(1), 1]',
    '[V(1), 1]', "{'a': U(1)}", 'pg.Dict(a=V(1))', 'C(V(1), 0)', 'C(V(1), 1)',
    '(V(1),)', '(U(1),)',
    # -- primitive-like leaves: values of types outside bool / int / float / str
    #    whose own == reaches across types (Fraction(2, 1) == 2, pg.KeyPath
    #    equals its string form, bytes == bytearray) and which have a < of
    #    their own.  (complex is left out: it is both of this kind and unordered.)
    'fractions.Fraction(2, 1)', 'fractions.Fraction(1, 2)', 'fractions.Fraction(5, 2)',
    "pg.KeyPath.parse('a.b')", "pg.KeyPath.parse('x')", "'a.b'",
    'bytes([97])', 'bytes([98])', 'bytearray([97])', 'bytearray([98])',
    'A(fractions.Fraction(2, 1))', 'A(fractions.Fraction(1, 2))', '[fractions.Fraction(2, 1)]',
    'A(bytes([97]))', 'A(bytearray([97]))', "{'a': bytearray([97])}",
    # -- typed missing values (what a partial value holds for a missing field).
    'pg.typing.MissingValue(pg.typing.Int())', 'pg.typing.MissingValue(pg.typing.Str())',
    # -- values with a Python-unhashable leaf below every kind of symbolic
    #    parent (object field, second field, defaulted field, nested object,
    #    symbolic list / dict, plain tuple, factory-made classes): they have no
    #    hash; what remains is that pg.hash, sym_hash and hash() agree on that.
    'A({1})', 'A({2})', 'C(1, {1})', 'C({1}, 1)', 'B(1, {1})', 'A(({1},))',
    'A((A({1}),))', 'A(A({1}))', 'A([{1}])', "A({'k': {1}})", 'F({1})', 'W({1})',
    'WE({1})', 'WE({2})', 'pg.Dict(a={1})', 'pg.List([{1}])', 'A((U(1),))',
    '(A({1}),)', 'N({1})',
    # -- referenced values themselves, next to the references to them (objects,
    #    a symbolic dict, a symbolic list as targets; below plain containers:
    #    a symbolic container would adopt the shared target).
    'r_1', 'r_2', 'r_3', 'r_d', 'r_l', 'pg.Ref(r_d)', 'pg.Ref(r_l)', '[r_1, 0]',
    '[r_1, 1]', '[r_2, 0]', "{'a': r_1}", "{'a': pg.Ref(r_1)}", '(r_1,)',
    '(pg.Ref(r_1),)', '[r_d]', '[pg.Ref(r_d)]', '[r_l]', '[pg.Ref(r_l)]',
    'pg.Dict(k=1)', 'pg.Dict(a=pg.Ref(r_1))', 'pg.List([pg.Ref(r_d)])',
    # -- objects of ONE class with different sets of attributes (a schema with a
    #    non-const key; *args / **kwargs of functors, symbolized and wrapped
    #    classes; a typed dict with a non-const key): no extra key / one / two,
    #    one object's attributes a prefix of the other's, the same values under
    #    other keys, the same keys given in another order, a fixed field that
    #    differs next to extra keys, subclass, partial, nested in each other and
    #    below lists / dicts / object fields (followed by an element that orders
    #    the other way); fixed fields given as keywords in another order.
    'K(1)', 'K(1, y=2)', 'K(1, y=3)', 'K(1, z=2)', 'K(1, y=2, z=0)', 'K(1, z=0, y=2)',
    'K(2)', 'K(0, y=2)', 'K(1, y=None)', 'K(1, y=[1])', 'K(1, y=K(1))',
    'K(1, y=K(1, y=1))', 'K(K(1, y=1))', 'K2(1)', 'K2(1, y=2)', 'K.partial()', 'K.partial(y=2)',
    'KR()', 'KR(p=1)', 'KR(p1=1)', 'KR(p2=1)', 'KR(p=1, p1=2)', 'KR(p1=2, p=1)',
    'G(1)', 'G(1, y=2)', 'G(1, z=2)', 'G(1, 2)', 'G(1, 2, y=2)', 'G(1, 2, 3)', 'G(2)',
    'G.partial(y=2)',
    'WK(1)', 'WK(1, y=2)', 'WK(1, z=2)', 'WK(2)',
    'WJ(1)', 'WJ(1, y=2)', 'WJ(1, 2)', 'WJ(1, 2, y=2)', 'WJ(2)',
    'VD()', 'VD(a=1)', 'VD(b=1)', 'VD(a=1, b=2)', 'VD(b=2, a=1)', 'VD(b=2)', 'VD(c=2)',
    'A(K(1))', 'A(K(1, y=2))', '[K(1), 1]', '[K(1, y=2), 0]', '[K(1, y=3)]', "{'a': K(1), 'b': 1}",
    "{'a': K(1, y=2), 'b': 0}", 'C(K(1), 1)', 'C(K(1, y=2), 0)', 'pg.Dict(a=G(1))',
    'pg.Dict(a=G(1, y=2))', 'pg.List([WK(1)])', 'pg.List([WK(1, y=2)])',
    'A(VD(b=1))', 'A(VD(c=1))', 'K(1, y={1})',
    'C(q=2, p=1)', 'B(y=2, x=1)', 'F(y=2, x=1)',
]

QUICK_SKIP = set()   # the whole pool is cheap enough for the quick tier.


# ---------------------------------------------------------------------------
# Structural model of the pool: same expressions, plain stand-ins.
# ---------------------------------------------------------------------------

class _Missing:
  def __repr__(self):
    return 'MISSING'

_MISSING = _Missing()


class _MObj:
  def __init__(self, name, items):
    self.name, self.items = name, items


def _model_cls(name, fields, defaults=(), varargs=None, varkw=False):
  """A stand-in constructor that returns _MObj(name, ((field, value)...)).

  varargs: name of the field that holds the surplus positional arguments (a
  list); varkw: keywords other than the fields are attributes of the object."""
  defaults = dict(defaults)

  class _Ctor:
    def __call__(self, *args, **kwargs):
      if len(args) > len(fields) and varargs is None:
        raise TypeError('too many positional arguments')
      if not varkw and set(kwargs) - set(fields):
        raise TypeError('unknown keyword')
      vals = dict(zip(fields, args))
      vals.update(kwargs)
      if varargs is not None:
        vals[varargs] = list(args[len(fields):])
      out = []
      for f in fields:
        if f in vals:
          out.append((f, vals[f]))
        elif f in defaults:
          out.append((f, defaults[f]))
        else:
          out.append((f, _MISSING))
      if varargs is not None:
        out.append((varargs, vals[varargs]))
      out += [(k, v) for k, v in vals.items() if k not in fields and k != varargs]
      return _MObj(name, tuple(out))

    def partial(self, *args, **kwargs):
      return self(*args, **kwargs)
  return _Ctor()


class _ModelPg:
  MISSING_VALUE = _MISSING
  List = staticmethod(lambda x=(): list(x))
  Dict = staticmethod(lambda *a, **k: dict(*a, **k))


_MODEL_NS = dict(
    pg=_ModelPg,
    A=_model_cls('A', ['x']), A2=_model_cls('A2', ['x']),
    B=_model_cls('B', ['x', 'y'], {'y': None}),
    C=_model_cls('C', ['p', 'q']), N=_model_cls('N', ['x']),
    L1=_model_cls('L1', ['x']), L2=_model_cls('L2', ['x']),
    PD=lambda **kw: {'a': kw.get('a', _MISSING), 'b': kw.get('b', _MISSING)},
    F=_model_cls('F', ['x', 'y'], {'y': 1}), W=_model_cls('W', ['x', 'y'], {'y': 0}),
    WE=_model_cls('WE', ['x', 'y'], {'y': 0}),
    K=_model_cls('K', ['x'], varkw=True), K2=_model_cls('K2', ['x'], varkw=True),
    KR=_model_cls('KR', [], varkw=True),
    G=_model_cls('G', ['x'], varargs='args', varkw=True),
    WK=_model_cls('WK', ['x'], varkw=True),
    WJ=_model_cls('WJ', ['x'], varargs='args', varkw=True),
    VD=lambda **kw: dict({'a': 0}, **kw),
)
# Functions and methods are plain Python: the model holds the real ones, and
# `_norm` refuses them (the statement does not say when two functions denote
# the same value), so pairs with such a value get no same-value verdict.
exec(_PARTS['IMP'] + _PARTS['FN'] + _PARTS['H'] + _PARTS['PT'] + _PARTS['CBK']  # pylint: disable=exec-used
     + _PARTS['DC'] + _PARTS['PL'] + _PARTS['EN'], _MODEL_NS)
# the referenced values (the model of a shared value is a value).
_MODEL_NS.update(r_1=_MODEL_NS['A'](1), r_2=_MODEL_NS['A'](1), r_3=_MODEL_NS['A'](2),
                 r_d={'k': 1}, r_l=[1])


def _norm(v):
  """Hashable normal form: equal iff the two values denote the same value."""
  if v is _MISSING:
    return ('M',)
  if v is None or isinstance(v, (bool, int, float, str)):
    return v        # Python number equality: 1 == True == 1.0.
  # opaque leaves whose own type defines equality by value (Python semantics:
  # 1 == Fraction(1), bytearray(b'a') == b'a'); leaves that
  # are compared by identity (P, _K), callables and pg.KeyPath get no verdict.
  if isinstance(v, (fractions.Fraction, bytes, range, enum.Enum, type(Ellipsis))):
    return v
  if isinstance(v, bytearray):
    return bytes(v)
  if isinstance(v, _MODEL_NS['V']):
    return ('V', v.k)
  if isinstance(v, _MODEL_NS['U']):
    return ('U', v.k)
  if isinstance(v, _MObj):
    # (the order in which the attributes were given does not make another value.)
    return ('O', v.name, frozenset((k, _norm(x)) for k, x in v.items))
  if isinstance(v, list):
    return ('L', tuple(_norm(x) for x in v))
  if isinstance(v, tuple):
    return ('T', tuple(_norm(x) for x in v))
  if isinstance(v, dict):
    return ('D', frozenset((k, _norm(x)) for k, x in v.items()))
  if isinstance(v, (set, frozenset)):
    return ('S', frozenset(_norm(x) for x in v))
  raise TypeError(v)


def _model(expr):
  return eval(expr, dict(_MODEL_NS))  # pylint: disable=eval-used


def _try_norm(expr):
  """Normal form of the value of `expr`, or None if the model has no verdict."""
  try:
    return _norm(_model(expr))
  except Exception:  # pylint: disable=broad-except
    return None


# ---------------------------------------------------------------------------
# Labels (input classes).
# ---------------------------------------------------------------------------

def _orderable(v):
  """True if the leaf's own type orders its values (probe of Python's <, not of pyglove)."""
  try:
    v < v  # pylint: disable=pointless-statement,comparison-with-itself
    return True
  except TypeError:
    return False


def _kind(v):
  if isinstance(v, type(pg.MISSING_VALUE)):
    return 'missing'
  if v is None:
    return 'none'
  for t, n in ((bool, 'bool'), (int, 'int'), (float, 'float'), (str, 'str'),
               (list, 'list'), (tuple, 'tuple'), (dict, 'dict'),
               ((set, frozenset), 'set')):
    if isinstance(v, t):
      return n
  if isinstance(v, pg.Ref):
    return 'ref'
  if isinstance(v, pg.geno.CustomDecisionPoint):
    return 'custom'
  if isinstance(v, pg.Object):
    return 'obj'
  if isinstance(v, pg.Symbolic):
    return type(v).__name__
  # functions, methods, builtins, classes, functools.partial, instances with __call__.
  if callable(v):
    return 'callable'
  if isinstance(v, (numbers.Number, pg.KeyPath, bytes, bytearray)):
    return 'primitive-like'
  return 'ordered-opaque' if _orderable(v) else 'unordered-opaque'


# Leaf kinds that eq / lt / hash treat by a branch of their own.  A defect of
# such a branch shows at top level and below any container, so pairs that hold
# such a leaf at aligned positions are labelled by the leaf pair, not by the
# containers around it (one defect, one id).  The last three are the leaves
# that end in the fall-back branch (Python's own ==, <, hash of the leaf): the
# ones Python identifies with a primitive of another kind, the ones whose type
# has a < of its own and the ones whose type has none.
SPECIAL_KINDS = ('callable', 'set', 'ref', 'custom', 'primitive-like',
                 'ordered-opaque', 'unordered-opaque')


def _children(v):
  """Aligned-walk view: key -> child for containers, None for leaves."""
  if _kind(v) in SPECIAL_KINDS:
    return None
  if isinstance(v, dict):
    get = v.sym_getattr if isinstance(v, pg.Dict) else v.__getitem__
    return {k: get(k) for k in v.keys()}
  if isinstance(v, (list, tuple)):
    return dict(enumerate(v))
  if isinstance(v, pg.Object):
    return {k: v.sym_getattr(k) for k in v.sym_keys()}
  return None


def _special_kinds(v, depth=0):
  """The special leaf kinds that occur anywhere in v."""
  k = _kind(v)
  if k in SPECIAL_KINDS:
    return {k}
  out = set()
  ch = _children(v)
  if ch and depth < 8:
    for c in ch.values():
      out |= _special_kinds(c, depth + 1)
  return out


def _holds_mixed_tuple(v, depth=0):
  """True if v holds a tuple whose elements are not all numbers."""
  if isinstance(v, tuple) and not all(isinstance(x, _NUM) for x in v):
    return True
  ch = _children(v)
  if ch and depth < 8:
    return any(_holds_mixed_tuple(c, depth + 1) for c in ch.values())
  return False


# Structural input classes of a pair (found at aligned positions), and the
# order in which one label is picked when several apply (one defect, one id).
_STRUCT = ('tuple-elements', 'permuted-dict-keys', 'same-qualname-classes',
           'typed-missing-different-specs')
_LEAF_PRIORITY = ('primitive-like', 'set', 'callable', 'ref', 'custom',
                  'unordered-opaque', 'ordered-opaque')
_NUM = (bool, int, float)
# two objects of the same class (at aligned positions) with different sets of
# attribute keys (classes with a non-const key field, *args / **kwargs).  It
# ranks below the leaf classes: such objects that hold e.g. callables show the
# defect of the callables.
_DIFF_KEYS = 'same-class-different-keys'


def _typed_missing(v):
  return isinstance(v, pg.typing.MissingValue)


def _aligned(a, b, out, depth=0):
  """Walks a and b at aligned positions; fills out['struct'] (structural
  classes) and out['leaf'] (label of the first aligned pair with a special leaf).

    tuple-elements: two tuples whose elements are not all numbers (the pool's
      other tuples hold mutually comparable numbers only);
    permuted-dict-keys: two dicts with the same keys in a different order;
    typed-missing-different-specs: two typed missing values of different specs.
  """
  ka, kb = _kind(a), _kind(b)
  if ka in SPECIAL_KINDS or kb in SPECIAL_KINDS:
    if out['leaf'] is None:
      out['leaf'] = '+'.join(sorted({k for k in (ka, kb) if k in SPECIAL_KINDS})) + '-leaves'
    return
  if ka == kb == 'missing':
    if _typed_missing(a) and _typed_missing(b) and str(a.value_spec) != str(b.value_spec):
      out['struct'].add('typed-missing-different-specs')
    return
  if depth >= 8:
    return
  if ka in ('list', 'tuple') and kb in ('list', 'tuple'):
    if ka == kb == 'tuple' and not all(isinstance(x, _NUM) for x in a + b):
      out['struct'].add('tuple-elements')
    for x, y in zip(a, b):         # lt looks at the common prefix, whatever the lengths.
      _aligned(x, y, out, depth + 1)
  elif ka == kb == 'dict':
    la, lb = list(a.keys()), list(b.keys())
    if la != lb and set(la) == set(lb):
      out['struct'].add('permuted-dict-keys')
    ga = a.sym_getattr if isinstance(a, pg.Dict) else a.__getitem__
    gb = b.sym_getattr if isinstance(b, pg.Dict) else b.__getitem__
    sb = set(lb)
    for k in la:
      if k in sb:
        _aligned(ga(k), gb(k), out, depth + 1)
  elif isinstance(a, pg.Object) and type(a) is type(b):
    # the attributes of an object are a dict: keys in another order are the
    # input class of the order-permuted dicts, other key sets one of their own.
    la, lb = list(a.sym_keys()), list(b.sym_keys())
    if la != lb:
      out['struct'].add('permuted-dict-keys' if set(la) == set(lb) else _DIFF_KEYS)
    for k in la:
      if b.sym_hasattr(k):
        _aligned(a.sym_getattr(k), b.sym_getattr(k), out, depth + 1)


def _is_special(lab):
  return lab in _STRUCT or lab.endswith('-leaves') or lab == _DIFF_KEYS


def _pick(labels):
  """The one special label of a set of pair labels (by the fixed priority), or None."""
  labels = set(labels)
  for st in _STRUCT:
    if st in labels:
      return st
  kinds = set()
  for l in labels:
    if l.endswith('-leaves'):
      kinds |= set(l[:-len('-leaves')].split('+'))
  for k in _LEAF_PRIORITY:
    if k in kinds:
      return k + '-leaves'
  if _DIFF_KEYS in labels:
    return _DIFF_KEYS
  return None


def _pair_label(a, b):
  out = {'struct': set(), 'leaf': None}
  _aligned(a, b, out)
  if (isinstance(a, pg.Object) and isinstance(b, pg.Object)
      and type(a) is not type(b)
      and type(a).__qualname__ == type(b).__qualname__):
    out['struct'].add('same-qualname-classes')
  for st in _STRUCT:
    if st in out['struct']:
      return st
  if out['leaf']:
    return out['leaf']
  if _DIFF_KEYS in out['struct']:
    return _DIFF_KEYS
  return '~'.join(sorted([_kind(a), _kind(b)]))


def _multi_label(vals):
  lab = _pick(_pair_label(a, b) for a, b in itertools.combinations(vals, 2))
  return lab or '~'.join(sorted(set(_kind(v) for v in vals)))


def _plain_unhashable(v):
  """True if v holds a plain (non-symbolic) list/dict/set: python-unhashable."""
  if isinstance(v, pg.Symbolic):
    return False
  if isinstance(v, (list, dict, set)):
    return True
  if isinstance(v, tuple):
    return any(_plain_unhashable(x) for x in v)
  return False


def _holds_unhashable(v, depth=0):
  """True if v holds (anywhere below symbolic containers, objects and plain
  tuples) a plain list / dict / set or a leaf that Python's hash() refuses:
  such a value has no hash.  Only the leaf's own hash() is probed."""
  if isinstance(v, pg.Ref) or depth > 8:
    return False               # a reference does not hash its target.
  if isinstance(v, pg.Symbolic):
    if isinstance(v, (pg.Object, pg.Dict, pg.List)):
      return any(_holds_unhashable(x, depth + 1) for x in v.sym_values())
    return False
  if isinstance(v, (list, dict, set)):
    return True
  if isinstance(v, (tuple, frozenset)):
    return any(_holds_unhashable(x, depth + 1) for x in v)
  if isinstance(v, type(pg.MISSING_VALUE)):
    return False
  try:
    hash(v)
    return False
  except TypeError:
    return True


def _outcome(r):
  """('ok', value) or ('exc', exception type name) of a _call result."""
  return r if r[0] == 'ok' else ('exc', r[1].split(':')[0])


_O = ('def _o(f, *a):\n  try: return ("ok", f(*a))\n'
      '  except Exception as e: return ("exc", type(e).__name__)\n')


def _opted_in(v):
  return isinstance(v, pg.Object) and type(v).use_symbolic_comparison


# ---------------------------------------------------------------------------
# Random nestings for the thorough tier.
# ---------------------------------------------------------------------------

_LEAVES = ['None', 'True', '0', '1', '2', '1.0', '0.5', "'a'", "'b'", "''"]
# the thorough tier also nests the special leaf kinds at random positions: one
# kind per expression, so that the input class of a pair stays one kind.
_LEAF_FAMILIES = [
    ['f_add1', 'f_add2', 'h1.m1', 'p_1', 'functools.partial(g_k1, k=2)', 'CE(1)'],
    ['{1}', '{2}', 'frozenset({1})'],
    ['V(1)', 'V(2)'],
    ['U(1)', 'U(2)', 'P()', 'E.a'],
    ['fractions.Fraction(2, 1)', 'fractions.Fraction(1, 2)', 'bytearray([97])', 'bytes([97])'],
    ['pg.Ref(r_1)', 'pg.Ref(r_2)'],
]


def _rand_expr(r, depth, leaves=None):
  # no MISSING_VALUE below symbolic containers: pg.List / pg.Dict treat it as
  # "delete this element" on construction, so it does not denote a value there.
  leaves = leaves or _LEAVES
  if depth <= 0 or r.random() < 0.3:
    return r.choice(leaves)
  k = r.randrange(6)
  if k == 0:
    return '[' + ', '.join(_rand_expr(r, depth - 1, leaves) for _ in range(r.randrange(3))) + ']'
  if k == 1:
    return 'pg.List([' + ', '.join(_rand_expr(r, depth - 1, leaves) for _ in range(r.randrange(3))) + '])'
  if k == 2:
    keys = r.sample(['a', 'b', 'c'], r.randrange(4))
    return '{' + ', '.join(f'{k!r}: {_rand_expr(r, depth - 1, leaves)}' for k in keys) + '}'
  if k == 3:
    keys = r.sample(['a', 'b', 'c'], r.randrange(4))
    return 'pg.Dict({' + ', '.join(f'{k!r}: {_rand_expr(r, depth - 1, leaves)}' for k in keys) + '})'
  if k == 4:
    n = r.randrange(3)
    elems = [r.choice(['0', '1', '2', '1.0', 'True']) for _ in range(n)]
    return '(' + ''.join(e + ', ' for e in elems) + ')'
  cls = r.choice(['A', 'A', 'A2', 'B', 'C', 'F', 'W', 'K', 'K', 'G'])
  if cls in ('K', 'G'):
    # a variable set of attributes (the keys in a random order).
    args = [_rand_expr(r, depth - 1, leaves)] + [
        f'{k}={_rand_expr(r, depth - 1, leaves)}' for k in r.sample(['a', 'b', 'c'], r.randrange(3))]
    return f'{cls}(' + ', '.join(args) + ')'
  if cls == 'C':
    return f'C({_rand_expr(r, depth - 1, leaves)}, {_rand_expr(r, depth - 1, leaves)})'
  if cls == 'B' and r.random() < 0.5:
    return f'B({_rand_expr(r, depth - 1, leaves)}, {_rand_expr(r, depth - 1, leaves)})'
  return f'{cls}({_rand_expr(r, depth - 1, leaves)})'


_CHECK_NS = None


def _new_ns(name):
  """A namespace for the preamble; pg.functor looks its module up in sys.modules."""
  import sys
  import types
  sys.modules.setdefault(name, types.ModuleType(name))
  return {'__name__': name}


def _constructible(e):
  """Random expressions that the library refuses to construct are not values."""
  global _CHECK_NS
  if _CHECK_NS is None:
    _CHECK_NS = _new_ns('c06chk')
    exec(PRE, _CHECK_NS)  # pylint: disable=exec-used
  try:
    eval(e, _CHECK_NS)  # pylint: disable=eval-used
    return True
  except Exception:  # pylint: disable=broad-except
    return False


def _pool(tier, seed):
  exprs = list(POOL)
  extra, depth = (24, 2) if tier == 'quick' else (300, 3)
  r = rng(seed, 'c06-pool-' + tier)
  seen = set(exprs)
  tries = 0
  while len(exprs) < len(POOL) + extra and tries < 20 * extra:
    tries += 1
    leaves = _LEAVES
    if tier != 'quick' and r.random() < 0.5:
      leaves = _LEAVES * 2 + r.choice(_LEAF_FAMILIES) * 2
    e = _rand_expr(r, depth, leaves)
    if e not in seen and _constructible(e):
      seen.add(e)
      exprs.append(e)
  return exprs


def _build(exprs):
  ns = _new_ns('c06ns')
  exec(PRE, ns)  # pylint: disable=exec-used
  xs = [eval(e, ns) for e in exprs]  # pylint: disable=eval-used
  ys = [eval(e, ns) for e in exprs]  # pylint: disable=eval-used
  return ns, xs, ys


_W_LAST = [None, None]


def _w(ea, eb, body, ec=None):
  key = (ea, eb, ec)
  if _W_LAST[0] != key:       # the cases of one pair come in a row.
    s = _pre(ea, eb, ec or '') + f'a = {ea}\nb = {eb}\n'
    if ec is not None:
      s += f'c = {ec}\n'
    _W_LAST[:] = [key, s]
  return _fit(_W_LAST[1] + body, key)


def _call(fn, *args):
  try:
    return ('ok', fn(*args))
  except RecursionError:
    return ('exc', 'RecursionError')
  except Exception as e:  # pylint: disable=broad-except
    return ('exc', f'{type(e).__name__}: {e}')


# ---------------------------------------------------------------------------
# Driver 1: pair and triple laws.
# ---------------------------------------------------------------------------

def drv_laws(tier, seed):
  exprs = _pool(tier, seed)
  n = len(exprs)
  rec = Recorder(
      'C06', 'eq/ne/lt/gt/hash laws over all pairs and triples',
      scope=f'{n} pool values x 2 independent constructions; all {n*n} ordered '
            f'pairs, all {n**3} triples; seed adds random nestings')
  _, xs, ys = _build(exprs)
  norms = [_try_norm(e) for e in exprs]
  _check_laws(rec, exprs, xs, ys, norms)
  return rec.result()


def _check_laws(rec, exprs, xs, ys, norms, pair_label=None, kind=None, pick=None,
                literal_hash=True, skip=None):
  """The unary, pair and triple laws over xs[i] / ys[j] (two independent
  constructions of exprs[i]).

    pair_label(i, j, x, y): input class of a pair (default: `_pair_label`);
    kind(x): input class of one value (default: `_kind`);
    pick(labels): the one class of a triple, or None (default: `_pick`);
    literal_hash: demand hash(a) == pg.hash(a) of opted-in classes (else only
      what the pair law `operator.hash-equal-for-==` demands);
    skip(i, j): pairs left out of the scope (and the triples through them).
  """
  n = len(exprs)
  plabel = pair_label or (lambda i, j, x, y: _pair_label(x, y))
  kind_of = kind or _kind
  pick_of = pick or _pick
  E = [[None] * n for _ in range(n)]     # eq(X[i], Y[j])
  L = [[None] * n for _ in range(n)]     # lt(X[i], Y[j])
  R = [[None] * n for _ in range(n)]     # lt(Y[j], X[i])
  H = [None] * n                         # pg.hash(X[i]) / 'skip' / None if raised
  HY = [None] * n                        # pg.hash(Y[j]) / None if raised or skipped
  OH = [None] * n                        # hash(X[i]) of symbolic values / None
  OHY = [None] * n                       # hash(Y[j]) of symbolic values / None
  PL = [[None] * n for _ in range(n)]    # pair label of (X[i], Y[j])
  j_of = list(range(n))

  # ---- unary: reflexivity, hash defined and stable, operators agree.
  for i, e in enumerate(exprs):
    x, y = xs[i], ys[i]
    k = kind_of(x)
    r = _call(pg.eq, x, x)
    rec.case(f'eq.reflexive-same-object/{k}', e, r == ('ok', True), f'pg.eq(a, a) -> {r}',
             _w(e, 'a', 'assert pg.eq(a, a) is True'))
    r = _call(pg.ne, x, x)
    rec.case(f'ne.irreflexive-same-object/{k}', e, r == ('ok', False), f'pg.ne(a, a) -> {r}',
             _w(e, 'a', 'assert pg.ne(a, a) is False'))
    # a raise is the same defect as `lt.total` of the pair (a, a): same case id.
    r = _call(pg.lt, x, x)
    if r[0] == 'exc':
      rec.case(f'lt.total/{plabel(i, i, x, x)}', (e, e), False, f'pg.lt(a, a) -> {r}',
               _w(e, 'a', 'assert isinstance(pg.lt(a, b), bool)'))
    else:
      rec.case(f'lt.irreflexive-same-object/{k}', e, r == ('ok', False), f'pg.lt(a, a) -> {r}',
               _w(e, 'a', 'assert pg.lt(a, a) is False'))
    r = _call(pg.gt, x, x)
    if r[0] == 'exc':
      rec.case(f'lt.total/{plabel(i, i, x, x)}', (e, e), False, f'pg.gt(a, a) -> {r}',
               _w(e, 'a', 'assert isinstance(pg.gt(a, b), bool)'))
    else:
      rec.case(f'gt.irreflexive-same-object/{k}', e, r == ('ok', False), f'pg.gt(a, a) -> {r}',
               _w(e, 'a', 'assert pg.gt(a, a) is False'))
    # -- hashing.  A plain list / dict / set has no hash at all (Python); a
    # value that holds a Python-unhashable leaf has none either: pg.hash may
    # refuse it (TypeError) -- if it answers, the answer obeys the laws.
    if _plain_unhashable(x):
      H[i] = 'skip'
    else:
      no_hash = _holds_unhashable(x)
      ksfx = k + ('+unhashable-leaf' if no_hash else '')
      h1, h2 = _call(pg.hash, x), _call(pg.hash, x)
      if no_hash:
        ok = (_outcome(h1) == _outcome(h2) and
              (isinstance(h1[1], int) if h1[0] == 'ok' else h1[1].startswith('TypeError')))
        rec.case(f'hash.stable-or-refused/{ksfx}', e, ok, f'pg.hash(a) -> {h1}, again {h2}',
                 _fit(_pre(e) + _O + f'a = {e}\nr = _o(pg.hash, a)\n'
                      'assert r == _o(pg.hash, a) and (r == ("exc", "TypeError") or isinstance(r[1], int))', e))
      else:
        ok = h1[0] == 'ok' and isinstance(h1[1], int) and h1 == h2
        rec.case(f'hash.defined-and-stable/{k}', e, ok, f'pg.hash(a) -> {h1}, again {h2}',
                 _w(e, 'a', 'assert isinstance(pg.hash(a), int) and pg.hash(a) == pg.hash(a)'))
      H[i] = h1[1] if h1[0] == 'ok' else None
      hy = _call(pg.hash, y)
      HY[j_of[i]] = hy[1] if hy[0] == 'ok' else None
      if isinstance(x, pg.Symbolic):
        r = _call(x.sym_hash)
        rec.case(f'sym_hash.agrees-with-pg.hash/{ksfx}', e, _outcome(r) == _outcome(h1),
                 f'a.sym_hash() -> {r}, pg.hash(a) -> {h1}',
                 _fit(_pre(e) + _O + f'a = {e}\nassert _o(a.sym_hash) == _o(pg.hash, a)', e))
        # hash() of every symbolic value (for the pair law on == below).
        r = _call(hash, x)
        OH[i] = r[1] if r[0] == 'ok' else None
        ry = _call(hash, y)
        OHY[i] = ry[1] if ry[0] == 'ok' else None
        if _opted_in(x) and literal_hash:
          # hash() agrees with the symbolic hash: the same answer, or both refuse.
          rec.case(f'operator.hash-agrees/{ksfx}', e, _outcome(r) == _outcome(h1),
                   f'hash(a) -> {r}, pg.hash(a) -> {h1}',
                   _fit(_pre(e) + _O + f'a = {e}\nassert _o(hash, a) == _o(pg.hash, a)', e))

  # ---- pairs.
  for i in range(n):
    x = xs[i]
    for j in range(n):
      if skip is not None and skip(i, j):
        continue
      y = ys[j]
      ea, eb = exprs[i], exprs[j]
      key = (ea, eb)
      lab = PL[i][j] = plabel(i, j, x, y)
      req = _call(pg.eq, x, y)
      rne = _call(pg.ne, x, y)
      rlt = _call(pg.lt, x, y)
      rgt = _call(pg.gt, x, y)
      rrl = _call(pg.lt, y, x)
      rre = _call(pg.eq, y, x)
      rec.case(f'eq.total/{lab}', key, req[0] == 'ok' and isinstance(req[1], bool),
               f'pg.eq(a, b) -> {req}', _w(ea, eb, 'assert isinstance(pg.eq(a, b), bool)'))
      rec.case(f'lt.total/{lab}', key, rlt[0] == 'ok' and isinstance(rlt[1], bool),
               f'pg.lt(a, b) -> {rlt}', _w(ea, eb, 'assert isinstance(pg.lt(a, b), bool)'))
      if req[0] == 'ok':
        E[i][j] = bool(req[1])
        rec.case(f'ne.is-not-eq/{lab}', key, rne == ('ok', not req[1]),
                 f'eq={req} ne={rne}', _w(ea, eb, 'assert pg.ne(a, b) == (not pg.eq(a, b))'))
        rec.case(f'eq.symmetric/{lab}', key, rre == req, f'eq(a,b)={req} eq(b,a)={rre}',
                 _w(ea, eb, 'assert pg.eq(a, b) == pg.eq(b, a)'))
        # which pool values denote the same value (structural model of the pool).
        if norms[i] is not None and norms[j] is not None:
          want = norms[i] == norms[j]
          rec.case(f'eq.same-value-iff-equal/{lab}', key, req[1] == want,
                   f'pg.eq(a, b) -> {req[1]}, structurally {"same" if want else "different"} values',
                   _w(ea, eb, f'assert pg.eq(a, b) is {want}'))
      if rlt[0] == 'ok':
        L[i][j] = bool(rlt[1])
      if rrl[0] == 'ok':
        R[i][j] = bool(rrl[1])
      if rlt[0] == 'ok' or rgt[0] == 'ok' or rrl[0] == 'ok':
        rec.case(f'gt.is-lt-swapped/{lab}', key, rgt == rrl, f'gt(a,b)={rgt} lt(b,a)={rrl}',
                 _w(ea, eb, 'assert pg.gt(a, b) == pg.lt(b, a)'))
      if req[0] == 'ok' and rlt[0] == 'ok' and rrl[0] == 'ok':
        cnt = [bool(rlt[1]), bool(req[1]), bool(rrl[1])].count(True)
        rec.case(f'lt.trichotomy/{lab}', key, cnt == 1,
                 f'lt={rlt[1]} eq={req[1]} gt={rrl[1]} (exactly one must hold)',
                 _w(ea, eb, 'assert [pg.lt(a, b), pg.eq(a, b), pg.lt(b, a)].count(True) == 1'))
      # equal => equal hash (wherever both values have one).
      if req == ('ok', True) and H[i] not in ('skip', None) and HY[j] is not None:
        rec.case(f'hash.equal-for-equal-values/{lab}', key, HY[j] == H[i],
                 f'pg.eq(a, b) but pg.hash(a)={H[i]} pg.hash(b)={HY[j]}',
                 _w(ea, eb, 'assert pg.eq(a, b) and pg.hash(a) == pg.hash(b)'))
      # the same for the operators (Python: a == b implies hash(a) == hash(b)),
      # for every symbolic value whose hash() answers.
      if OH[i] is not None and OHY[j] is not None:
        r0 = _call(lambda: x == y)
        if r0[0] == 'ok' and r0[1] is True:
          rec.case(f'operator.hash-equal-for-==/{lab}', key, OH[i] == OHY[j],
                   f'a == b but hash(a)={OH[i]} hash(b)={OHY[j]}',
                   _w(ea, eb, 'assert a == b and hash(a) == hash(b)'))
      # sym_* methods agree with the functions.
      if isinstance(x, pg.Symbolic):
        for nm, ref in (('sym_eq', req), ('sym_ne', rne), ('sym_lt', rlt), ('sym_gt', rgt)):
          got = _call(getattr(x, nm), y)
          if ref[0] == 'ok':
            rec.case(f'{nm}.agrees-with-function/{lab}', key, got == ref, f'a.{nm}(b)={got} pg fn={ref}',
                     _w(ea, eb, f'assert a.{nm}(b) == pg.{nm[4:]}(a, b)'))
      # operators of opted-in classes.
      if _opted_in(x) and req[0] == 'ok':
        r1 = _call(lambda: x == y)
        r2 = _call(lambda: x != y)
        rec.case(f'operator.==agrees/{lab}', key, r1 == req, f'(a == b)={r1} pg.eq={req}',
                 _w(ea, eb, 'assert (a == b) == pg.eq(a, b)'))
        rec.case(f'operator.!=agrees/{lab}', key, r2 == rne, f'(a != b)={r2} pg.ne={rne}',
                 _w(ea, eb, 'assert (a != b) == pg.ne(a, b)'))
        if _opted_in(y):
          r3 = _call(lambda: y == x)
          rec.case(f'operator.==agrees-reflected/{lab}', key, r3 == req, f'(b == a)={r3} pg.eq(a,b)={req}',
                   _w(ea, eb, 'assert (b == a) == pg.eq(a, b)'))

  # ---- triples through the tables (first witness per case id is re-checked natively).
  perm = PL        # pair labels, filled by the pair loop.

  # Triple laws are checked where the pair laws hold: a triple that contains a
  # pair already reported (raise / trichotomy violation) adds nothing new.
  def pair_ok(i, j):
    if E[i][j] is None or L[i][j] is None or R[i][j] is None:
      return False
    return [L[i][j], E[i][j], R[i][j]].count(True) == 1
  OK = [[pair_ok(i, j) for j in range(n)] for i in range(n)]

  def tid(law, i, j, k):
    """One id per law and input class; all order laws over triples that involve
    a pair of a special class (order-permuted dicts, a special leaf kind, ...)
    share one id per class (one defect); of several classes one is picked."""
    lab = pick_of((perm[i][j], perm[j][k], perm[i][k]))
    if lab:
      return f'triple-laws/{lab}'
    return f'{law}/' + '~'.join(sorted({kind_of(xs[i]), kind_of(xs[j]), kind_of(xs[k])}))

  for i in range(n):
    Ei, Li = E[i], L[i]
    for j in range(n):
      eij, lij = Ei[j], Li[j]
      if not eij and not lij:
        rec.cases += n          # nothing to conclude from (i, j): vacuous for all k.
        continue
      Ej, Lj = E[j], L[j]
      if not OK[i][j]:
        rec.cases += n
        continue
      OKj, OKi = OK[j], OK[i]
      for k in range(n):
        rec.cases += 1
        if not (OKj[k] and OKi[k]):
          continue
        if eij:
          if Ej[k] and Ei[k] is False:
            rec.case(tid('eq.transitive', i, j, k), (exprs[i], exprs[j], exprs[k]), False,
                     'eq(a,b) and eq(b,c) but not eq(a,c)',
                     _w(exprs[i], exprs[j], 'assert not (pg.eq(a, b) and pg.eq(b, c)) or pg.eq(a, c)', exprs[k]))
          if Lj[k] and Li[k] is False:
            rec.case(tid('lt.respects-eq-left', i, j, k), (exprs[i], exprs[j], exprs[k]), False,
                     'eq(a,b) and lt(b,c) but not lt(a,c)',
                     _w(exprs[i], exprs[j], 'assert not (pg.eq(a, b) and pg.lt(b, c)) or pg.lt(a, c)', exprs[k]))
        if lij:
          if Lj[k] and Li[k] is False:
            rec.case(tid('lt.transitive', i, j, k), (exprs[i], exprs[j], exprs[k]), False,
                     'lt(a,b) and lt(b,c) but not lt(a,c)',
                     _w(exprs[i], exprs[j], 'assert not (pg.lt(a, b) and pg.lt(b, c)) or pg.lt(a, c)', exprs[k]))
          if Ej[k] and Li[k] is False:
            rec.case(tid('lt.respects-eq-right', i, j, k), (exprs[i], exprs[j], exprs[k]), False,
                     'lt(a,b) and eq(b,c) but not lt(a,c)',
                     _w(exprs[i], exprs[j], 'assert not (pg.lt(a, b) and pg.eq(b, c)) or pg.lt(a, c)', exprs[k]))
  rec.keys.add(('triples', n ** 3))


# ---------------------------------------------------------------------------
# Driver 2: sorting with functools.cmp_to_key never raises and sorts.
# ---------------------------------------------------------------------------

def drv_sort(tier, seed):
  exprs = _pool(tier, seed)
  n = len(exprs)
  n_sorts = 4000 if tier == 'quick' else 40000
  rec = Recorder(
      'C06', 'sorted(key=cmp_to_key(lt-comparator)) never raises and yields the order',
      scope=f'{n_sorts} seeded samples (size 2..10, with repeats) of {n} pool values x 2 constructions, 2 shuffles each, + fixed samples')
  _, xs, ys = _build(exprs)
  allv = [(e, v) for e, v in zip(exprs, xs)] + [(e, v) for e, v in zip(exprs, ys)]
  short = [ev for ev in allv if len(ev[0]) <= 70]     # witnesses are capped at 1200 chars.
  r = rng(seed, 'c06-sort')
  # Values that hold a special leaf kind (callable, set, ...) are sampled in
  # dedicated samples (one kind at a time, mixed with ordinary values) under an
  # id of their own, so that a defect of one leaf kind never hides the others.
  # The values that hold a tuple with non-number elements form a family of
  # their own (whatever leaves they hold).
  fams = SPECIAL_KINDS + ('tuple-elements',)
  sk = {id(v): frozenset({'tuple-elements'} if _holds_mixed_tuple(v) else _special_kinds(v))
        for _, v in short}
  calm = [ev for ev in short if not sk[id(ev[1])]]
  family = {k: [ev for ev in short if sk[id(ev[1])] == {k}] for k in fams}

  byexpr = {e: v for e, v in zip(exprs, xs)}
  fixed = [list(p) for p in itertools.permutations(
      ["[{'b': 2, 'a': 1}]", "[{'a': 1, 'b': 2}, 1]", "[{'a': 1, 'c': 0}]"])]
  fixed += [list(p) for p in itertools.permutations(["{'a': 1, 'b': 2}", "{'b': 2, 'a': 1}", "{'a': 1, 'b': 3}"])]
  fixed += [list(p) for p in itertools.permutations(['1', 'True', '1.0', '[1]', 'pg.List([1])'], 4)]
  fixed += [list(p) for p in itertools.permutations(['[2]', "['a']", '[fractions.Fraction(2, 1)]'])]
  fixed += [['pg.typing.MissingValue(pg.typing.Int())', '0', 'pg.typing.MissingValue(pg.typing.Str())'],
            ['(1,)', '(r_1,)'], ['bytes([97])', 'bytearray([97])', "'a'", 'bytes([98])']]
  fixed += [['None', '1', 'None'], ['pg.MISSING_VALUE', '0', 'pg.MISSING_VALUE'], ['L1(1)', 'L2(1)'], ['A(1)', 'L2(1)', 'L1(1)'],
            ['None', 'pg.MISSING_VALUE', 'False', "''", '[]', '()', '{}', 'A(None)', 'A.partial()']]
  # objects of one class with different sets of attributes, every order of input.
  fixed += [list(p) for p in itertools.permutations(['K(1)', 'K(1, y=2)', 'K(1, z=2)', 'K(0, y=2)'])]
  fixed += [list(p) for p in itertools.permutations(['G(1)', 'G(1, y=2)', 'G(1, 2)', 'G(1, 2, y=2)'])]
  fixed += [list(p) for p in itertools.permutations(['KR(p2=1)', 'KR(p1=1)', 'KR()'])]
  fixed += [list(p) for p in itertools.permutations(['WJ(1, y=2)', 'WJ(1)', 'WK(1, y=2)', 'WK(1)'])]
  fixed += [list(p) for p in itertools.permutations(['[K(1), 1]', '[K(1, y=2), 0]', '[K(1, y=3)]'])]

  for t in range(n_sorts + len(fixed)):
    fam = None
    if t < len(fixed):
      sample = [(e, byexpr[e]) for e in fixed[t]]
    elif t % 8 == 7 and family[fams[(t // 8) % len(fams)]]:
      fam = fams[(t // 8) % len(fams)]
      size = r.randrange(2, 9)
      sample = [r.choice(family[fam]) for _ in range(2)] + [
          r.choice(family[fam] if r.random() < 0.5 else calm) for _ in range(size - 2)]
    else:
      size = r.randrange(2, 11)
      sample = [r.choice(calm) for _ in range(size)]
    raised = []

    def cmp(a, b):
      try:
        if pg.lt(a[1], b[1]):
          return -1
        if pg.lt(b[1], a[1]):
          return 1
        return 0
      except RecursionError:
        raised.append((a, b, 'RecursionError'))
        return 0
      except Exception as e:  # pylint: disable=broad-except
        raised.append((a, b, f'{type(e).__name__}: {e}'))
        return 0

    s1 = list(sample)
    r.shuffle(s1)
    perm = list(range(len(s1)))
    r.shuffle(perm)
    if t < len(fixed):
      perm = list(reversed(range(len(s1))))
    s2 = [s1[i] for i in perm]
    o1 = sorted(s1, key=functools.cmp_to_key(cmp))
    o2 = sorted(s2, key=functools.cmp_to_key(cmp))
    src = '[' + ', '.join(e for e, _ in s1) + ']'
    pre = _pre(src)
    wit_sort = (pre + 'import functools\n'
                f'vals = {src}\n'
                'sorted(vals, key=functools.cmp_to_key(lambda a, b: -1 if pg.lt(a, b) else (1 if pg.lt(b, a) else 0)))')
    if raised:
      seen = set()
      for a, b, msg in raised:
        lab = _pair_label(a[1], b[1])
        if lab in seen:
          continue
        seen.add(lab)
        rec.case(f'sort.raises/{lab}', (a[0], b[0]), False, f'comparing {a[0]} with {b[0]}: {msg}',
                 _fit(_pre(a[0], b[0]) + 'import functools\n'
                      f'vals = [{a[0]}, {b[0]}]\n'
                      'sorted(vals, key=functools.cmp_to_key(lambda a, b: -1 if pg.lt(a, b) else (1 if pg.lt(b, a) else 0)))', (a[0], b[0])))
      continue
    key = tuple(e for e, _ in s1)
    lab = _multi_label([v for _, v in sample])
    if fam:
      # the ordinary values of the sample may hold a pair of a structural class.
      if fam == 'tuple-elements' or lab not in _STRUCT:
        lab = fam if fam in _STRUCT else f'{fam}-leaves'
    elif not _is_special(lab):
      lab = 'general'      # one id per defect; the pair/triple tables localise by kind.
    rec.case(f'sort.never-raises/{lab}', key, True)
    special = _is_special(lab)
    id_ordered = f'sort.order/{lab}' if special else f'sort.result-ordered/{lab}'
    id_unique = f'sort.order/{lab}' if special else f'sort.unique-up-to-eq/{lab}'
    # the result is ordered: no later element is less than an earlier one.
    bad = None
    for p in range(len(o1)):
      for q in range(p + 1, len(o1)):
        try:
          if pg.lt(o1[q][1], o1[p][1]):
            bad = (o1[p][0], o1[q][0])
            break
        except Exception:  # pylint: disable=broad-except
          pass
      if bad:
        break
    rec.case(id_ordered, key, bad is None,
             f'after sorting, {bad and bad[1]} (later) is lt {bad and bad[0]} (earlier)',
             _fit(wit_sort.replace('sorted(vals', 'out = sorted(vals') +
                  '\nassert not any(pg.lt(out[q], out[p]) for p in range(len(out)) for q in range(p + 1, len(out)))', key))
    # the order is unique up to eq: two shuffles sort to element-wise equal lists.
    try:
      same = all(pg.eq(a[1], b[1]) for a, b in zip(o1, o2))
    except Exception:  # pylint: disable=broad-except
      same = True
    rec.case(id_unique, key, same,
             f'two shuffles sort differently: {[e for e, _ in o1]} vs {[e for e, _ in o2]}',
             _fit(pre + 'import functools\n'
                  f'v1 = {src}\nv2 = [v1[i] for i in {perm!r}]\n'
                  'k = functools.cmp_to_key(lambda a, b: -1 if pg.lt(a, b) else (1 if pg.lt(b, a) else 0))\n'
                  'assert all(pg.eq(a, b) for a, b in zip(sorted(v1, key=k), sorted(v2, key=k)))', key))
  return rec.result()


# ---------------------------------------------------------------------------
# Driver 3: the laws hold for values that have been mutated (or derived by
# cloning and then mutated), i.e. eq / hash / lt always reflect the current
# content.
#
# Scope: a target container (list, dict, object, typed dict) at depth 0..3
# below chains of object / dict / list / typed-object layers; every public
# mutator of the target, run in every notification mode (default, inside
# pg.notify_on_change(False), rebind(skip_notification=True),
# rebind(notify_parents=False)), rebind entered at the target and at the root;
# with and without first using every observer (hash, pg.hash, eq, lt, ==,
# sym_missing, ...) on every node of the chain; in place, or on a deep clone /
# shallow clone / copy.deepcopy of the value; plus seeded sequences of 2-3 such
# steps.  After each step every node on the chain is compared with a value
# freshly built from its *current content* (read through sym_items): the two
# are the same value, so they must be eq both ways, not ne, have equal hashes,
# be neither less nor greater, order the same way against a third value, and
# for opted-in classes ==, != and hash() must agree.
# ---------------------------------------------------------------------------

_LAYERS = {            # name: (template, accessor suffix, key in a path)
    'obj': ('A({})', '.x', 'x'),
    'obj2': ('C(0, {})', '.q', 'q'),
    'dict': ('pg.Dict(k={}, z=0)', "['k']", 'k'),
    'list': ('pg.List([0, {}])', '[1]', '[1]'),
    'tlist': ('T(1, {})', '.tags', 'tags'),
    'tdict': ('T(1, [4], {})', '.sub', 'sub'),
}

_CHAINS = [(), ('obj',), ('dict',), ('list',), ('obj2', 'obj'), ('obj', 'list'),
           ('dict', 'obj'), ('list', 'dict'), ('obj', 'dict', 'list')]

# target kind -> (expression, chains it is also placed below, ops).
# op = (name, family, statement on `p`); rebind ops are given as
# (name, 'rebind', {relative key: value source}).
_TARGETS = {
    'list': ('pg.List([3, 1, 2])', [('tlist',), ('obj', 'tlist')], [
        ('setitem', 'assign', 'p[0] = 9'),
        ('setitem-negative', 'assign', 'p[-1] = 9'),
        ('setitem-slice', 'assign', 'p[0:2] = [7]'),
        ('append', 'insert', 'p.append(9)'),
        ('insert', 'insert', 'p.insert(0, 9)'),
        ('extend', 'insert', 'p.extend([8, 9])'),
        ('iadd', 'insert', 'p += [9]'),
        ('pop', 'delete', 'p.pop()'),
        ('pop-first', 'delete', 'p.pop(0)'),
        ('delitem', 'delete', 'del p[0]'),
        ('delitem-slice', 'delete', 'del p[0:2]'),
        ('remove', 'delete', 'p.remove(1)'),
        ('clear', 'delete', 'p.clear()'),
        ('sort', 'reorder', 'p.sort()'),
        ('reverse', 'reorder', 'p.reverse()'),
        ('imul', 'repeat', 'p *= 2'),
        ('rebind-item', 'rebind', {0: '9'}),
        ('rebind-insertion', 'rebind', {0: 'pg.Insertion(9)'}),
        ('rebind-delete', 'rebind', {1: 'pg.MISSING_VALUE'}),
        ('rebind-append', 'rebind', {3: '9'}),
    ]),
    'dict': ('pg.Dict(a=1, b=2)', [], [
        ('setitem', 'assign', "p['a'] = 9"),
        ('setattr', 'assign', 'p.a = 9'),
        ('setitem-container', 'assign', "p['a'] = [1, {'u': 2}]"),
        ('update-existing', 'assign', 'p.update(a=9)'),
        ('setitem-new', 'insert', "p['c'] = 3"),
        ('update-new', 'insert', "p.update({'c': 3})"),
        ('setdefault', 'insert', "p.setdefault('c', 3)"),
        ('ior', 'insert', "p |= {'c': 3}"),
        ('pop', 'delete', "p.pop('a')"),
        ('delitem', 'delete', "del p['a']"),
        ('delattr', 'delete', 'del p.a'),
        ('popitem', 'delete', 'p.popitem()'),
        ('clear', 'delete', 'p.clear()'),
        ('rebind-item', 'rebind', {'a': '9'}),
        ('rebind-new', 'rebind', {'c': '3'}),
        ('rebind-delete', 'rebind', {'a': 'pg.MISSING_VALUE'}),
        ('rebind-container', 'rebind', {'b': "[1, {'u': 2}]"}),
    ]),
    'obj': ('C(1, 2)', [], [
        ('setattr', 'assign', 'with pg.allow_writable_accessors(True):\n  p.p = 9'),
        ('rebind-field', 'rebind', {'p': '9'}),
        ('rebind-container', 'rebind', {'p': '[1, A(2)]'}),
        ('rebind-two', 'rebind', {'p': '9', 'q': '8'}),
        ('rebind-fn', 'rebind-fn', "p.rebind(lambda k, v: 9 if k.key == 'p' else v{kw})"),
    ]),
    # objects of factory-made classes (only below the chains listed here).
    'functor': (None, [(), ('obj',), ('list', 'dict')], [
        ('setattr', 'assign', 'with pg.allow_writable_accessors(True):\n  p.x = 9'),
        ('rebind-field', 'rebind', {'x': '9'}),
        ('rebind-container', 'rebind', {'y': '[1, A(2)]'}),
    ]),
    'wrapped': (None, [(), ('obj',), ('list', 'dict')], [
        ('setattr', 'assign', 'with pg.allow_writable_accessors(True):\n  p.x = 9'),
        ('rebind-field', 'rebind', {'x': '9'}),
        ('rebind-container', 'rebind', {'y': '[1, A(2)]'}),
    ]),
    'wrapped-eq': (None, [(), ('obj',), ('list', 'dict')], [
        ('rebind-field', 'rebind', {'x': '9'}),
        ('rebind-two', 'rebind', {'x': '9', 'y': '8'}),
    ]),
    # objects with a variable set of attributes (a non-const key field; the
    # *args / **kwargs of a functor): keys added, removed, replaced, re-added in
    # another position, next to a change of a fixed field.
    'varkey-obj': (None, [(), ('obj',), ('list', 'dict')], [
        ('setattr-new-key', 'insert', 'with pg.allow_writable_accessors(True):\n  p.z = 3'),
        ('setattr-key', 'assign', 'with pg.allow_writable_accessors(True):\n  p.y = 9'),
        ('rebind-field', 'rebind', {'x': '9'}),
        ('rebind-key', 'rebind', {'y': '9'}),
        ('rebind-new-key', 'rebind', {'z': '3'}),
        ('rebind-new-key-before', 'rebind', {'b': '3'}),
        ('rebind-delete-key', 'rebind', {'y': 'pg.MISSING_VALUE'}),
        ('rebind-replace-key', 'rebind', {'y': 'pg.MISSING_VALUE', 'z': '2'}),
        ('readd-key', 'reorder', "p.rebind({'y': pg.MISSING_VALUE}); p.rebind({'y': 2})"),
    ]),
    'varkw-functor': (None, [(), ('obj',), ('list', 'dict')], [
        ('rebind-field', 'rebind', {'x': '9'}),
        ('rebind-new-key', 'rebind', {'z': '3'}),
        ('rebind-delete-key', 'rebind', {'y': 'pg.MISSING_VALUE'}),
        ('rebind-replace-key', 'rebind', {'y': 'pg.MISSING_VALUE', 'z': '2'}),
        ('rebind-append-arg', 'rebind', {'args[1]': '3'}),
        ('rebind-delete-arg', 'rebind', {'args[0]': 'pg.MISSING_VALUE'}),
        ('rebind-args', 'rebind', {'args': '[]'}),
        ('readd-key', 'reorder', "p.rebind({'y': pg.MISSING_VALUE}); p.rebind({'y': 2})"),
    ]),
    'tdict': (None, [('tdict',), ('list', 'tdict')], [
        ('setitem', 'assign', "p['u'] = 7"),
        ('setattr', 'assign', 'p.w = [1]'),
        ('delitem', 'delete', "del p['w']"),
        ('pop', 'delete', "p.pop('u')"),
        ('clear', 'delete', 'p.clear()'),
        ('rebind-item', 'rebind', {'u': '7'}),
        ('rebind-delete', 'rebind', {'w': 'pg.MISSING_VALUE'}),
    ]),
}
_TARGET_SRC = {'list': 'pg.List([3, 1, 2])', 'dict': 'pg.Dict(a=1, b=2)',
               'obj': 'C(1, 2)', 'tdict': "{'u': 2, 'w': 5}", 'functor': 'F(1, 2)',
               'wrapped': 'W(1, 2)', 'wrapped-eq': 'WE(1, 2)',
               'varkey-obj': 'K(1, y=2, c=0)', 'varkw-functor': 'G(1, 2, y=2, c=0)'}


def _target_chains(kind):
  """The chains a target kind is placed below (None as expression: only the listed ones)."""
  expr, extra, _ = _TARGETS[kind]
  return ([] if expr is None else list(_CHAINS)) + list(extra)

_MODES = ('default', 'notify_on_change-off')
_REBIND_MODES = ('default', 'notify_on_change-off', 'skip_notification', 'notify_parents-off')
_VIAS = ('inplace', 'deep-clone', 'shallow-clone', 'deepcopy')


def _indent(code):
  return '\n'.join('  ' + l for l in code.split('\n'))


def _chain_expr(chain, target_src):
  e = target_src
  for name in reversed(chain):
    e = _LAYERS[name][0].format(e)
  return e


def _chain_accessors(chain):
  """Accessor suffixes of every node on the chain: ['', '.x', ".x['k']", ...]."""
  out, acc = [''], ''
  for name in chain:
    acc += _LAYERS[name][1]
    out.append(acc)
  return out


def _chain_path(chain):
  path = ''
  for name in chain:
    k = _LAYERS[name][2]
    path += k if (k.startswith('[') or not path) else '.' + k
  return path


def _join_path(path, key):
  if isinstance(key, int):
    return f'{path}[{key}]'
  return f'{path}.{key}' if path else key


def _step_stmts(kind, chain):
  """All (op name, family, mode, statement) steps for a target below `chain`."""
  path = _chain_path(chain)
  out = []
  for name, family, what in _TARGETS[kind][2]:
    if family == 'rebind':
      local = '{' + ', '.join(f'{k!r}: {v}' for k, v in what.items()) + '}'
      root = '{' + ', '.join(f'{_join_path(path, k)!r}: {v}' for k, v in what.items()) + '}'
      forms = [('rebind', f'p.rebind({local}{{kw}})')]
      if chain:
        forms.append(('rebind-from-root', f'a.rebind({root}{{kw}})'))
    elif family == 'rebind-fn':
      forms = [('rebind', what)]
    else:
      forms = [(family, what)]
    for fam, stmt in forms:
      if '{kw}' in stmt:
        for mode in _REBIND_MODES:
          kw = {'skip_notification': ', skip_notification=True',
                'notify_parents-off': ', notify_parents=False'}.get(mode, '')
          out.append((name, fam, mode, stmt.replace('{kw}', kw)))
      else:
        for mode in _MODES:
          out.append((name, fam, mode, stmt))
  return out


def _step_code(stmt, mode):
  if mode == 'notify_on_change-off':
    stmt = 'with pg.notify_on_change(False):\n' + _indent(stmt)
  # a refused / failing mutation is not this property's business; whatever
  # state it leaves behind must still obey the laws.
  return 'try:\n' + _indent(stmt) + '\nexcept Exception:\n  pass\n'


class _NoRebuild(Exception):
  pass


_CLS_NAMES = {}      # class -> its name in the preamble (WE is a wrapper class named _K).


def _src(v):
  """Source of a freshly built value with the current content of v."""
  if isinstance(v, pg.Object):
    items = [(k, x) for k, x in v.sym_items()]
    args = ', '.join(f'{k}={_src(x)}' for k, x in items
                     if not isinstance(x, type(pg.MISSING_VALUE)))
    partial = any(isinstance(x, type(pg.MISSING_VALUE)) for _, x in items)
    return f'{_CLS_NAMES.get(type(v), type(v).__name__)}{".partial" if partial else ""}({args})'
  if isinstance(v, dict):
    items = v.sym_items() if isinstance(v, pg.Dict) else v.items()
    return 'pg.Dict({' + ', '.join(f'{k!r}: {_src(x)}' for k, x in items
                                   if not isinstance(x, type(pg.MISSING_VALUE))) + '})'
  if isinstance(v, list):
    items = list(v.sym_values() if isinstance(v, pg.List) else v)
    if any(isinstance(x, type(pg.MISSING_VALUE)) for x in items):
      raise _NoRebuild()      # pg.List drops MISSING_VALUE elements on construction.
    return 'pg.List([' + ', '.join(_src(x) for x in items) + '])'
  if isinstance(v, type(pg.MISSING_VALUE)):
    return 'pg.MISSING_VALUE'
  return repr(v)


_WARM = ('for n in nodes(a):\n'
         '  c = n.clone(deep=True); pg.hash(n); hash(n); n.sym_hash(); pg.eq(n, c); pg.lt(n, c); n == c\n'
         '  n.sym_missing(); n.sym_nondefault(); n.sym_puresymbolic\n')

# (law, assertion on n (mutated node), m (fresh, same content), o (fresh, original content of the root)).
_MUT_LAWS = [
    ('eq.same-value-iff-equal', 'pg.eq(n, m) is True and pg.eq(m, n) is True'),
    ('ne.is-not-eq', 'pg.ne(n, m) is False and pg.ne(m, n) is False'),
    ('hash.equal-for-equal-values', 'pg.hash(n) == pg.hash(m)'),
    ('sym_hash.agrees-with-pg.hash', 'n.sym_hash() == pg.hash(n)'),
    ('lt.trichotomy', 'not pg.lt(n, m) and not pg.lt(m, n) and not pg.gt(n, m) and not pg.gt(m, n)'),
    ('sym_eq.agrees-with-function', 'n.sym_eq(m) is True and n.sym_ne(m) is False'),
    ('sym_lt.agrees-with-function', 'n.sym_lt(m) is False and n.sym_gt(m) is False'),
    ('eq.transitive', 'pg.eq(n, o) == pg.eq(m, o) and pg.eq(o, n) == pg.eq(o, m)'),
    ('lt.respects-eq-left', 'pg.lt(n, o) == pg.lt(m, o)'),
    ('lt.respects-eq-right', 'pg.lt(o, n) == pg.lt(o, m)'),
]
# the mutated node against the ORIGINAL content of the root: whatever the two
# values are, exactly one of less / equal / greater holds, by the functions and
# by the methods, and gt is lt swapped.
_MUT_LAW_ORIGINAL = (
    'lt.trichotomy-vs-original',
    '[pg.lt(n, o), pg.eq(n, o), pg.lt(o, n)].count(True) == 1 and pg.gt(n, o) == pg.lt(o, n) '
    'and n.sym_lt(o) == pg.lt(n, o) and n.sym_eq(o) == pg.eq(n, o) and pg.ne(n, o) != pg.eq(n, o)')
_MUT_LAWS_OPTED_IN = [
    ('operator.hash-agrees', 'hash(n) == pg.hash(n) and hash(n) == hash(m) and len({n, m}) == 1 and m in {n: 0}'),
    ('operator.==agrees', '(n == m) is True and (m == n) is True'),
    ('operator.!=agrees', '(n != m) is False and (m != n) is False'),
]


def drv_mutation(tier, seed):
  rec = Recorder(
      'C06', 'eq/ne/lt/hash laws between a mutated (or cloned-then-mutated) value and a fresh value of the same content',
      scope='targets list/dict/object/typed dict below chains of <=3 object/dict/list/typed-object layers; '
            'every public mutator x notification mode (default, notify_on_change(False), skip_notification, '
            'notify_parents=False) x rebind at target/root x observers used before or not x '
            'in place / deep clone / shallow clone / deepcopy; seeded 2-3 step sequences')
  base = _new_ns('c06mut')
  exec(PRE + 'import copy\n', base)  # pylint: disable=exec-used
  _CLS_NAMES.update({v: k for k, v in base.items() if inspect.isclass(v) and not k.startswith('_')})
  compiled = {}

  def run(code, ns):
    c = compiled.get(code)
    if c is None:
      c = compiled[code] = compile(code, '<c06>', 'exec')
    exec(c, ns)  # pylint: disable=exec-used

  def ev(expr, ns):
    c = compiled.get(('e', expr))
    if c is None:
      c = compiled[('e', expr)] = compile(expr, '<c06>', 'eval')
    return eval(c, ns)  # pylint: disable=eval-used

  skipped = [0]
  law_code = {}
  for law, cond in _MUT_LAWS + _MUT_LAWS_OPTED_IN + [_MUT_LAW_ORIGINAL]:
    law_code[law] = compile(cond, '<c06-law>', 'eval')

  def scenario(kind, chain, steps, warm, via):
    """steps: [(op name, family, mode, stmt)]; checks after every step."""
    expr = _chain_expr(chain, _TARGET_SRC[kind])
    accs = _chain_accessors(chain)
    setup = f'a = {expr}\n'
    if via == 'deep-clone':
      setup = f's = {expr}\n{{warm_s}}a = s.clone(deep=True)\n'
    elif via == 'shallow-clone':
      setup = f's = {expr}\n{{warm_s}}a = s.clone()\n'
    elif via == 'deepcopy':
      setup = f'import copy\ns = {expr}\n{{warm_s}}a = copy.deepcopy(s)\n'
    nodes_def = 'nodes = lambda r: [' + ', '.join('r' + x for x in accs) + ']\n'
    warm_code = _WARM if warm else ''
    setup = nodes_def + setup.replace('{warm_s}', warm_code.replace('nodes(a)', 'nodes(s)'))
    code = setup + warm_code + f'p = a{accs[-1]}\n'
    ns = dict(base)
    try:
      run(code, ns)
    except Exception as e:  # pylint: disable=broad-except
      rec.case(f'mutation.setup/{via}', (kind, chain, warm), False,
               f'building / observing the value raised {type(e).__name__}: {e}',
               _fit(_pre(expr) + code, expr))
      return
    done = code
    observe = 'try:\n' + _indent(_WARM.rstrip('\n')) + '\nexcept Exception:\n  pass\n'
    for n_done, (name, family, mode, stmt) in enumerate(steps):
      step = _step_code(stmt, mode)
      if n_done:
        step = observe + step       # every observer is used again between two steps.
      run(step, ns)
      done += step
      key = (kind, chain, tuple(s[0] + '@' + s[2] for s in steps), warm, via)
      if len(steps) > 1:
        # sequences: one input class for "all steps notified", one for the rest.
        quiet = any(s[2] != 'default' for s in steps[:n_done + 1])
        suffix = 'after-sequence/' + ('some-notification-off' if quiet else 'default')
      else:
        suffix = f'after-{family}/{mode}'
      suffix += '' if via == 'inplace' else '+copied'      # the kind of copy is in the key.
      subjects = [('a', ns['a'])]
      if via != 'inplace':
        subjects.append(('s', ns['s']))     # the source of the clone obeys the laws, too.
      for var, root in subjects:
        try:
          nodes = ns['nodes'](root)
        except Exception:  # pylint: disable=broad-except
          nodes = [root]                     # the chain was cut by the mutation.
        o_src = expr
        try:
          o = ev(o_src, ns)
        except Exception:  # pylint: disable=broad-except
          continue
        for idx, n in enumerate(nodes):
          if not isinstance(n, pg.Symbolic):
            continue
          if tier == 'quick' and 0 < idx < len(nodes) - 1:
            continue                         # quick: the root and the mutated target.
          try:
            m_src = _src(n)
          except _NoRebuild:
            skipped[0] += 1                  # e.g. a list left with a MISSING_VALUE element:
            continue                         # no fresh value has this content.
          try:
            m = ev(m_src, ns)
          except Exception as e:  # pylint: disable=broad-except
            rec.case(f'mutation.rebuild/{suffix}', key, False,
                     f'cannot rebuild a fresh value from the content: {type(e).__name__}: {e}',
                     _fit(_pre(expr) + done + f'n = nodes({var})[{idx}]\nprint(n)\nraise AssertionError("content of n cannot be rebuilt")', key))
            continue
          env = dict(pg=pg, n=n, m=m, o=o)
          laws = _MUT_LAWS + (_MUT_LAWS_OPTED_IN if _opted_in(n) else [])
          sfx = suffix + ('/source-of-clone' if var == 's' else '')
          rec.keys.add((sfx, repr(key), idx))
          for law, cond in laws + [_MUT_LAW_ORIGINAL]:
            try:
              ok, msg = bool(eval(law_code[law], env)), f'not ({cond})'  # pylint: disable=eval-used
            except Exception as e:  # pylint: disable=broad-except
              ok, msg = False, f'{cond} raised {type(e).__name__}: {e}'
            if ok:
              rec.cases += 1
              continue
            if law == _MUT_LAW_ORIGINAL[0]:
              # n and o are two different values in general: the input class of
              # the pair is what it is for the pair tables (e.g. a key deleted
              # and added again makes an order-permuted dict).
              lab = _pair_label(n, o)
              if _is_special(lab) and lab != _DIFF_KEYS:
                rec.case(f'lt.trichotomy/{lab}', key + (idx,), False,
                         f'{msg}; n = node {idx} of the chain after {name!r}, o = {o_src}',
                         _fit(_pre(expr, m_src) + done + f'n = nodes({var})[{idx}]\no = {o_src}\nassert {cond}', key))
                continue
            rec.case(f'{law}/{sfx}', key + (idx,), False,
                     f'{msg}; n = node {idx} of the chain after {name!r}, m = {m_src}',
                     _fit(_pre(expr, m_src) + done +
                          f'n = nodes({var})[{idx}]\nm = {m_src}\no = {o_src}\nassert {cond}', key))

  # (in a sequence every observer is used again after each step, see `observe`.)
  # ---- systematic sweep: single steps.  The quick tier runs every step with
  # the observers used first; the cold variant (default mode) runs on the
  # shallow chains, the clone variants on the shallow chains and the deepest
  # one.  The thorough tier runs everything.
  full = tier != 'quick'
  via_chains = {'deep-clone': ((), ('obj',), ('obj', 'dict', 'list'), ('obj', 'tlist'), ('tdict',)),
                'shallow-clone': (('obj',), ('tdict',)),
                'deepcopy': ((), ('obj', 'tlist'))}
  for kind in _TARGETS:
    for chain in _target_chains(kind):
      shallow = len(chain) <= 1
      for st in _step_stmts(kind, chain):
        scenario(kind, chain, [st], True, 'inplace')
        if full or (shallow and st[2] == 'default'):
          scenario(kind, chain, [st], False, 'inplace')
        if st[2] in ('default', 'notify_on_change-off'):
          for via in _VIAS[1:]:
            if full or chain in via_chains[via]:
              scenario(kind, chain, [st], True, via)

  # ---- seeded sequences of 2-3 steps.
  r = rng(seed, 'c06-mutation-' + tier)
  n_seq = 300 if tier == 'quick' else 6000
  kinds = list(_TARGETS)
  for _ in range(n_seq):
    kind = r.choice(kinds)
    chain = r.choice(_target_chains(kind))
    pool = _step_stmts(kind, chain)
    steps = [r.choice(pool) for _ in range(r.randrange(2, 4))]
    scenario(kind, chain, steps, r.random() < 0.7, r.choice(_VIAS + ('inplace',) * 3))
  rec.scope += f'; {skipped[0]} node states skipped (content not constructible)'
  return rec.result()


# ---------------------------------------------------------------------------
# Driver 4: the laws on objects of the classes that the library itself ships
# (pg.geno / pg.hyper / pg.tuning / pg.patching / HTML controls / pg.symbolic
# helpers / pyglove.ext.*), one field varied at a time.
#
# A class of the library may define its own sym_eq / sym_lt / sym_hash / __eq__
# / __hash__ (CustomDecisionPoint, DNA, the tuning data entities do), and such
# a definition can forget -- or handle in only one of the three -- any single
# field.  So the scope is: every concrete pg.Object class defined in a pyglove
# module; for each class a base object and, for every declared field, objects
# that differ from the base in that field only (values derived from the field's
# value spec: numbers, strings, enum values, lists, dicts, key paths, callables,
# nested library objects, None where allowed); each built twice; the same
# values below a list, a symbolic dict, an object field and (decision points) a
# pg.geno.Space.  All ordered pairs and triples of a class's family go through
# the laws; the base objects of all classes (and a few ordinary values) form
# one more table for the laws across classes.
#
# The oracle is the laws only: whether two objects that differ in a field are
# the same value is up to the class (a class may treat a field as irrelevant),
# but then eq, lt and hash must say so consistently.
#
# Case ids: <law>/lib/<class>.<field> for pairs that differ in that one field;
# lib/<class>/same-fields, /several-fields, /different-containers for the other
# pairs of a family; lib/cross-class across classes.  Where the values of the
# differing field are of an input class with an id of its own (callables, sets,
# references, leaves without <, permuted dict keys, ...) the pair carries that
# id (the defect is the leaf kind's, whatever holds it); an object that stands
# for a value inferred from its context, held by a symbolic dict / an object
# field, is `inferred-value-in-symbolic-parent`.
#
# hash(): for these classes the operator laws are `==`/`!=` agree with pg.eq /
# pg.ne and a == b implies hash(a) == hash(b); the number hash(a) is not
# compared with pg.hash(a) (the tuning data entities hash their repr, which is
# consistent with ==).
# ---------------------------------------------------------------------------

_LIB_EXT = ('pyglove.ext.evolution', 'pyglove.ext.mutfun', 'pyglove.ext.early_stopping',
            'pyglove.ext.scalars')
# Left out: pg.Diff (see the note at the pool), pg.Ref (in the pool, with its
# targets; it cannot be built from a schema).
_LIB_EXCLUDE = ('pyglove.core.symbolic.diff.Diff', 'pyglove.core.symbolic.ref.Ref')
# Base arguments where the first values that fit the field specs one by one do
# not fit together.
_LIB_BASE = {
    'pyglove.core.hyper.categorical.OneOf': {'candidates': '[1, 2]'},
    'pyglove.core.hyper.categorical.ManyOf': {'candidates': '[1, 2, 3]', 'num_choices': '2'},
    'pyglove.core.hyper.categorical.Choices': {'candidates': '[1, 2, 3]', 'num_choices': '2'},
    'pyglove.core.hyper.derived.ValueReference': {'reference_paths': "[pg.KeyPath.parse('a')]"},
}
# Field values instead of the derived ones.  CustomDecisionPoint: one function
# (against None) per function field -- two different functions there would show
# two known defects (no order on callables; eq ignores the function fields) in
# one pair.
_LIB_FIELD = {
    ('pyglove.core.geno.custom.CustomDecisionPoint', 'next_dna_fn'): ['fv_1'],
    ('pyglove.core.geno.custom.CustomDecisionPoint', 'random_dna_fn'): ['fv_1'],
    # DNA drops children that hold nothing: children with a value.
    ('pyglove.core.geno.base.DNA', 'children'): ['[pg.geno.DNA(1)]', '[pg.geno.DNA(2)]',
                                                 '[pg.geno.DNA(1), pg.geno.DNA(2)]'],
}
_LIB_CUSTOM = 'pyglove.core.geno.custom.CustomDecisionPoint'
_LIB_NS = None
_LIB_CACHE = {}


def _lib_ns():
  global _LIB_NS
  if _LIB_NS is None:
    _LIB_NS = _new_ns('c06lib')
    exec(PRE, _LIB_NS)  # pylint: disable=exec-used
  return _LIB_NS


def _lib_path(c):
  return c.__module__ + '.' + c.__qualname__


def _lib_short(c):
  return _lib_path(c).replace('pyglove.core.', '').replace('pyglove.', '')


def _lib_ctor(c):
  return f'_c({c.__module__!r}, {c.__qualname__!r})'


def _lib_classes():
  """Every concrete pg.Object class defined in a module of the library."""
  import importlib
  import sys
  for m in _LIB_EXT:
    try:
      importlib.import_module(m)
    except Exception:  # pylint: disable=broad-except
      pass
  seen = set()

  def walk(c):
    for sub in c.__subclasses__():
      if sub not in seen:
        seen.add(sub)
        walk(sub)
  walk(pg.Object)
  out = []
  for c in seen:
    mod = c.__module__ or ''
    if (not mod.startswith('pyglove.') or mod.endswith('_test') or '<' in c.__qualname__
        or '.' in c.__qualname__ or inspect.isabstract(c) or _lib_path(c) in _LIB_EXCLUDE):
      continue
    if getattr(sys.modules.get(mod), c.__qualname__, None) is not c:
      continue
    out.append(c)
  return sorted(out, key=_lib_path)


def _lib_eval(src):
  return eval(src, _lib_ns())  # pylint: disable=eval-used


def _lib_fits(spec, src):
  try:
    spec.apply(_lib_eval(src))
    return True
  except Exception:  # pylint: disable=broad-except
    return False


def _lib_spec_srcs(spec, classes, depth=0):
  """Sources of values that the value spec accepts (the oracle does not depend on them)."""
  t = pg.typing
  out = []
  if isinstance(spec, t.Bool):
    out = ['False', 'True']
  elif isinstance(spec, t.Int):
    lo = spec.min_value if spec.min_value is not None else 1
    out = [str(lo), str(lo + 1), str(lo + 2)]
  elif isinstance(spec, t.Float):
    lo = spec.min_value if spec.min_value is not None else 0.0
    out = [repr(lo + 0.5), repr(lo + 1.5), repr(lo + 0.25)]
  elif isinstance(spec, t.Str):
    out = ["'a'", "'b'", "''"]
  elif isinstance(spec, t.Enum):
    out = [repr(v) for v in spec.values if v is None or isinstance(v, (str, int, float, bool))]
  elif isinstance(spec, t.List):
    e = _lib_spec_srcs(spec.element.value, classes, depth + 1) if depth < 3 else []
    out = ['[]'] + [f'[{x}]' for x in e[:2]]
    if len(e) > 1:
      out += [f'[{e[0]}, {e[1]}]', f'[{e[1]}, {e[0]}]']
  elif isinstance(spec, t.Dict):
    out = ['{}']
    fields = list(spec.schema.fields.items()) if spec.schema is not None else []
    for k, f in fields[:2]:
      key = str(k) if isinstance(k, t.ConstStrKey) else 'k'
      vals = _lib_spec_srcs(f.value, classes, depth + 1) if depth < 3 else []
      out += [f'{{{key!r}: {v}}}' for v in vals[:2]]
    if not fields:
      out += ["{'k': 1}", "{'k': 2}", "{'j': 1}"]
  elif isinstance(spec, t.Object):
    cls = spec.cls
    if cls is pg.KeyPath:
      out = ["pg.KeyPath.parse('a')", "pg.KeyPath.parse('a.b')", "pg.KeyPath.parse('b')"]
    elif cls is pg.Symbolic:
      out = ['pg.Dict(k=1)', 'pg.Dict(k=2)', 'pg.List([1])']
    elif inspect.isclass(cls) and issubclass(cls, pg.Object) and depth < 3:
      subs = [c for c in classes if issubclass(c, cls)]
      for sub in subs[:3]:
        # two objects of the first class, one of the next two.
        out += [m['src'] for m in _lib_family(sub, classes, depth + 1)[:(2 if sub is subs[0] else 1)]]
  elif isinstance(spec, t.Callable):
    out = ['fv_1', 'fv_2']
  elif isinstance(spec, t.Type):
    out = ['int', 'str']
  elif isinstance(spec, t.Union):
    for c in spec.candidates:
      out += _lib_spec_srcs(c, classes, depth + 1)[:2]
  elif isinstance(spec, t.Any):
    out = ['1', "{'k': 1}", "{'k': 2}", "'x'", '[1, 2]', '2']
  if spec.is_noneable:
    out.append('None')
  res = []
  for src in out:
    if src not in res and _lib_fits(spec, src):
      res.append(src)
  return res


def _lib_src(c, kw):
  return _lib_ctor(c) + '(' + ', '.join(f'{k}={v}' for k, v in kw.items()) + ')'


def _lib_builds(src):
  try:
    _lib_eval(src)
    return True
  except Exception:  # pylint: disable=broad-except
    return False


def _lib_is_default(spec, src):
  """True if the plain value of `src` is the default of the field (Python's ==, plain data only)."""
  try:
    v, d = _lib_eval(src), spec.default
    plain = (type(None), bool, int, float, str, list, dict)
    return isinstance(v, plain) and isinstance(d, plain) and type(v) in (type(d), *type(d).__mro__) and v == d
  except Exception:  # pylint: disable=broad-except
    return False


def _lib_family(c, classes, depth=0):
  """[{'field': None or name, 'kw': {field: source}, 'src': source}]: the base
  object first, then the objects that differ from it in one field.  Empty if
  no base object can be built from the schema."""
  if c in _LIB_CACHE:
    return _LIB_CACHE[c]
  _LIB_CACHE[c] = []            # guards the recursion through Object fields.
  path = _lib_path(c)
  fields = [(str(k), f.value) for k, f in c.__schema__.fields.items()
            if isinstance(k, pg.typing.ConstStrKey)]
  alts = {}

  def values(k, spec):
    if k not in alts:
      alts[k] = _LIB_FIELD.get((path, k)) or _lib_spec_srcs(spec, classes, depth)
    return alts[k]
  kw = dict(_LIB_BASE.get(path, {}))
  for k, spec in fields:
    if k not in kw and not spec.has_default:
      if not values(k, spec):
        return []
      kw[k] = alts[k][0]
  if not _lib_builds(_lib_src(c, kw)):
    # the first values do not fit together: try the other values of one field.
    for k in list(kw):
      found = [v for v in alts[k][1:] if _lib_builds(_lib_src(c, dict(kw, **{k: v})))]
      if found:
        kw[k] = found[0]
        break
    else:
      return []
  fam = [dict(field=None, kw=kw, src=_lib_src(c, kw))]
  _LIB_CACHE[c] = list(fam)     # a field of the class's own type (DNA.children) holds the base object.
  for k, spec in fields:
    for v in values(k, spec):
      if kw.get(k) == v or (k not in kw and _lib_is_default(spec, v)):
        continue      # the base has this value.
      kw2 = dict(kw, **{k: v})
      src = _lib_src(c, kw2)
      if _lib_builds(src):
        fam.append(dict(field=k, kw=kw2, src=src))
  _LIB_CACHE[c] = fam
  return fam


# container around a library object -> (template, the object inside).
_LIB_WRAP = [
    ('list', '[{}]', lambda w: w[0]),
    ('sym-dict', 'pg.Dict(k={})', lambda w: w.sym_getattr('k')),
    ('object-field', 'A({})', lambda w: w.sym_getattr('x')),
]
_LIB_WRAP_DP = ('geno-space', "_c('pyglove.core.geno.space', 'Space')(elements=[{}])",
                lambda w: w.sym_getattr('elements')[0])
# leaf kinds whose pairs of the *same* kind have a known input class of their own.
_LIB_LEAF_CLASSES = ('callable', 'set', 'ref', 'unordered-opaque')
# values that stand for a value computed from the context (pg.symbolic.Inferential):
# as an entry of a symbolic dict / a field of an object they are an input class
# of their own (reading the entry computes the value).
_LIB_INFERRED = pg.symbolic.Inferential


def _lib_field_label(c, f, fa, fb):
  """Input class of a pair of objects of class c that differ in field f (values fa, fb)."""
  fl = _pair_label(fa, fb)
  if fl in _STRUCT:
    return fl
  if fl.endswith('-leaves'):
    kinds = set(fl[:-len('-leaves')].split('+'))
    if _lib_path(c) == _LIB_CUSTOM and 'callable' in kinds:
      return 'custom-leaves'      # eq ignores the function fields (a finding of its own).
    for k in _LEAF_PRIORITY:
      if k in kinds and k in _LIB_LEAF_CLASSES:
        return k + '-leaves'
  return f'lib/{_lib_short(c)}.{f}'


def _lib_rank(lab):
  """Order in which one class is picked for a triple: the most specific first."""
  if lab == 'inferred-value-in-symbolic-parent':
    r = 0
  elif not lab.startswith('lib/'):
    r = 6
  elif lab == 'lib/cross-class':
    r = 4
  elif lab.endswith('/several-fields'):
    r = 2
  elif lab.endswith('/different-containers'):
    r = 3
  elif lab.endswith('/same-fields'):
    r = 5
  else:
    r = 1                       # lib/<class>.<field>
  return r, lab


def _lib_pick(labels):
  labels = [l for l in labels if l is not None]
  return _pick(labels) or min(labels, key=_lib_rank)


def _lib_getattr(v, f):
  try:
    return v.sym_getattr(f)
  except Exception:  # pylint: disable=broad-except
    return None


def drv_library(tier, seed):
  del seed
  rec = Recorder(
      'C06', 'eq/ne/lt/gt/hash laws on objects of the classes the library ships, one field varied at a time',
      scope='')
  full = tier != 'quick'
  try:
    classes = _lib_classes()
    families = [(c, _lib_family(c, classes)) for c in classes]
  except Exception as e:  # pylint: disable=broad-except
    rec.case('lib.setup/enumerate-classes', '', False, f'{type(e).__name__}: {e}',
             'import pyglove as pg, pyglove.ext.evolution, pyglove.ext.mutfun, pyglove.ext.scalars')
    return rec.result()
  ns = _lib_ns()
  dp = pg.geno.DecisionPoint
  n_vals = n_cls = 0
  for c, fam in families:
    if not fam:
      continue
    core = c.__module__.startswith('pyglove.core.') and '.views.' not in c.__module__
    per_field = 99 if full else (3 if core else 2)
    members, count = [], {}
    for m in fam:
      count[m['field']] = count.get(m['field'], 0) + 1
      if count[m['field']] <= per_field:
        members.append(dict(m, wrap=None, inner=lambda w: w))
    if full or core:
      # the base below every container, the first object per field below every
      # container (quick: below one of them, taken in turn).
      first, wrapped = set(), []
      wraps = _LIB_WRAP + ([_LIB_WRAP_DP] if issubclass(c, dp) else [])
      for m in members:
        if m['field'] in first:
          continue
        first.add(m['field'])
        for w, (name, tmpl, inner) in enumerate(wraps):
          if full or m['field'] is None or (len(first) - 2) % len(wraps) == w:
            wrapped.append(dict(m, src=tmpl.format(m['src']), wrap=name, inner=inner))
      members += wrapped
    exprs = [m['src'] for m in members]
    try:
      xs = [eval(e, ns) for e in exprs]  # pylint: disable=eval-used
      ys = [eval(e, ns) for e in exprs]  # pylint: disable=eval-used
    except Exception:  # pylint: disable=broad-except
      continue                    # (every source was built before: not reached.)
    short = _lib_short(c)
    names = [str(k) for k in c.__schema__.fields.keys()]

    ndiff = [[sum(mi['kw'].get(f) != mj['kw'].get(f) for f in names) for mj in members] for mi in members]

    def skip(i, j, members=members, ndiff=ndiff):
      # quick: the pairs that differ in at most one field, in the same container.
      return ndiff[i][j] > 1 or members[i]['wrap'] != members[j]['wrap']

    def label(i, j, x, y, c=c, members=members, short=short, names=names):
      mi, mj = members[i], members[j]
      if mi['wrap'] != mj['wrap']:
        return f'lib/{short}/different-containers'
      diff = [f for f in names if mi['kw'].get(f) != mj['kw'].get(f)]
      a, b = mi['inner'](x), mj['inner'](y)
      if not diff:
        if mi['wrap'] in ('sym-dict', 'object-field') and isinstance(a, _LIB_INFERRED):
          return 'inferred-value-in-symbolic-parent'
        return f'lib/{short}/same-fields'
      if mi['wrap'] in ('sym-dict', 'object-field') and isinstance(a, _LIB_INFERRED):
        return 'inferred-value-in-symbolic-parent'
      labs = {_lib_field_label(c, f, _lib_getattr(a, f), _lib_getattr(b, f)) for f in diff}
      return labs.pop() if len(labs) == 1 else (_pick(labs) or f'lib/{short}/several-fields')

    _check_laws(rec, exprs, xs, ys, [None] * len(exprs), pair_label=label,
                kind=lambda v, short=short: f'lib/{short}', pick=_lib_pick, literal_hash=False,
                skip=None if full else skip)
    n_cls += 1
    n_vals += len(exprs)

  # ---- across classes: the base objects of all classes and a few ordinary values.
  bases = [(c, fam[0]['src']) for c, fam in families if fam]
  if not full:
    # quick: the classes of the core and the first class of every other module.
    mods = set()
    bases = [(c, src) for c, src in bases
             if (c.__module__.startswith('pyglove.core.') and '.views.' not in c.__module__)
             or not (c.__module__ in mods or mods.add(c.__module__))]
  plain = ['pg.MISSING_VALUE', 'None', '1', "'a'", '[1]', "{'k': 1}", 'A(1)']
  exprs = [s for _, s in bases] + plain
  owner = [c for c, _ in bases] + [None] * len(plain)
  xs = [eval(e, ns) for e in exprs]  # pylint: disable=eval-used
  ys = [eval(e, ns) for e in exprs]  # pylint: disable=eval-used

  def cross_label(i, j, x, y):
    ci, cj = owner[i], owner[j]
    if ci is None and cj is None:
      return _pair_label(x, y)
    if ci is cj:
      return f'lib/{_lib_short(ci)}/same-fields'
    if ci is not None and cj is not None and ci.__qualname__ == cj.__qualname__:
      return 'same-qualname-classes'
    return 'lib/cross-class'

  def cross_kind(v):
    return f'lib/{_lib_short(type(v))}' if type(v) in owner else _kind(v)

  _check_laws(rec, exprs, xs, ys, [None] * len(exprs), pair_label=cross_label,
              kind=cross_kind, pick=_lib_pick, literal_hash=False)
  rec.scope = (f'{n_cls} of {len(classes)} concrete pg.Object classes defined in pyglove.* '
               f'(the others cannot be built from their schema); {n_vals} values x 2 constructions: '
               'base object + one field changed at a time (values derived from the field specs, '
               f'{"all" if full else "<=3 (core) / <=2 (ext, views)"} per field), plain and below list / pg.Dict / object field / '
               'geno.Space; per class all ordered pairs' +
               ('' if full else ' that differ in at most one field and are in the same container') +
               f' and the triples through them; across classes: the base objects of {len(bases)} classes '
               f'and {len(plain)} ordinary values')
  return rec.result()


def _safe(drv):
  """Last resort: an exception that escapes a driver is reported as a failed case
  (with the traceback), not as a checker error."""
  import functools as _ft
  import traceback as _tb

  @_ft.wraps(drv)
  def run(tier, seed):
    try:
      return drv(tier, seed)
    except Exception as e:  # pylint: disable=broad-except
      tb = _tb.format_exc()
      return dict(title=drv.__name__, scope='aborted by an unexpected exception', cases=1, distinct_nontrivial=1,
                  failures=[dict(case_id=f'unexpected-exception/{drv.__name__}', message=tb[-600:], count=1, input='',
                                 witness=f'raise AssertionError({(type(e).__name__ + ": " + str(e))[:300]!r})')],
                  samples=[])
  return run


DRIVERS = [_safe(d) for d in (drv_laws, drv_sort, drv_mutation, drv_library)]


def replay(rec):
  """Re-executes rec['witness']; returns (ok, message)."""
  try:
    exec(rec['witness'], {})  # pylint: disable=exec-used
    return True, 'witness passes'
  except RecursionError:
    return False, 'RecursionError'
  except Exception as e:  # pylint: disable=broad-except
    return False, f'{type(e).__name__}: {e}'
