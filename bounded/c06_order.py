"""C06 bounded drivers: pg.eq / pg.ne / pg.lt / pg.gt / pg.hash algebraic laws.

Scope: a pool of values given as *source expressions* (so every witness is a
self-contained snippet) -- primitives of each type, None, pg.MISSING_VALUE,
plain and symbolic lists, dicts with permuted key orders, tuples of mutually
comparable primitives, objects of several pg.Object classes (subclass with /
without extra field, partial object, same-qualname classes, a class that opts
out of symbolic comparison) and nestings.  The pool is built twice (X and Y,
independent constructions) so that the identity short cut of pg.eq does not
hide anything.  All ordered pairs and all triples are checked through the
pair tables; the thorough tier adds seeded random nestings.

The oracles are the laws of the statement.  The only extra reference is a
structural model of the *pool* (the same expressions evaluated with plain
Python stand-ins) which says which pool values denote the same value.
"""
import functools
import itertools

import pyglove as pg
from pyvc.bounded import Recorder, rng

_PARTS = {
    '_f': "_f = lambda *n: pg.members([(k, pg.typing.Any()) for k in n])\n",
    'A': "@_f('x')\nclass A(pg.Object): pass\n",
    'A2': "class A2(A): pass\n",
    'B': "@pg.members([('y', pg.typing.Any(default=None))])\nclass B(A): pass\n",
    'C': "@_f('p', 'q')\nclass C(pg.Object): pass\n",
    'N': "@_f('x')\nclass N(pg.Object): use_symbolic_comparison = False\n",
    'L': ("def _mk():\n  @_f('x')\n  class L(pg.Object): pass\n  return L\n"
          "L1, L2 = _mk(), _mk()\n"),
    'PD': ("PD = lambda **kw: pg.Dict.partial(kw, value_spec=pg.typing.Dict("
           "[('a', pg.typing.Any()), ('b', pg.typing.Any())]))\n"),
}
PRE = 'import pyglove as pg\n' + ''.join(_PARTS.values())


def _pre(*exprs):
  """The part of the preamble that the expressions need (witnesses are capped at 1200 chars)."""
  import re
  text = ' '.join(exprs)
  names = set(re.findall(r'\b(A2|A|B|C|N|L1|L2|PD)\b', text))
  need = []
  if names & {'A', 'A2', 'B'}:
    need.append('A')
  for n in ('A2', 'B', 'C', 'N', 'PD'):
    if n in names:
      need.append(n)
  if names & {'L1', 'L2'}:
    need.append('L')
  out = 'import pyglove as pg\n'
  if any(n != 'PD' for n in need):
    out += _PARTS['_f']
  return out + ''.join(_PARTS[n] for n in need)


def _fit(w, key=''):
  if len(w) <= 1190:
    return w
  return ('# witness too long for the record; failing input: ' + repr(key)[:900] +
          '\nraise AssertionError("see failing input")')


POOL = [
    # markers and primitives.
    'pg.MISSING_VALUE', 'None', 'False', 'True', '0', '1', '-1', '2', '10',
    '1.0', '0.5', '-2.5', "float('inf')", "''", "'a'", "'ab'", "'b'", "'1'",
    "'B'",
    # lists (plain and symbolic).
    '[]', '[1]', '[1, 2]', '[2]', '[1, [2]]', '[1, [3]]', '[None]', "['a']",
    '[[]]', 'pg.List([1])', 'pg.List([1, 2])', 'pg.List([])',
    "[{'a': 1, 'b': 2}]", "[{'b': 2, 'a': 1}]", '[None, 1]', '[1, 2, 0]',
    # tuples of mutually comparable primitives.
    '()', '(1,)', '(1, 2)', '(2,)', '(1.5,)', '(True,)', '(1, 2, 3)',
    # dicts (plain and symbolic), permuted key orders.
    '{}', "{'a': 1}", "{'a': 1, 'b': 2}", "{'b': 2, 'a': 1}", "{'a': 2}",
    "{'b': 1}", "{'a': 1, 'b': 3}", "{'a': 1, 'c': 0}",
    'pg.Dict(a=1, b=2)', 'pg.Dict(b=2, a=1)', 'pg.Dict()',
    "{'a': {'x': 1, 'y': 2}}", "{'a': {'y': 2, 'x': 1}}", "{'a': [1]}",
    "{'a': None}", "{'a': 1, 'b': 2, 'c': 3}", "{'c': 3, 'a': 1, 'b': 2}",
    # objects.
    'A(1)', 'A(2)', 'A(None)', 'A([1, 2])', 'A([1, 3])', 'A2(1)', 'B(1)',
    'B(1, 2)', 'B(2, 0)', 'C(1, 2)', 'C(2, 1)', 'C(1, 3)', 'A(A(1))',
    'A(B(1))', "A({'p': 1, 'q': 2})", "A({'q': 2, 'p': 1})", 'A.partial()',
    'C.partial(1)', 'N(1)', 'N(2)', 'L1(1)', 'L2(1)', "A('a')",
    'PD()', 'PD(a=1)', 'PD(b=1)', 'PD(a=1, b=2)', 'PD(b=2, a=1)', "{'a': N(1)}", '[N(1), 0]', '[N(1), 1]', "{'a': N(1), 'b': 0}", "{'a': N(1), 'b': 1}", 'A(N(1))', 'C(N(1), 0)', 'C(N(1), 1)',
    "[{'a': 1, 'c': 0}]", "[{'a': 1, 'b': 2}, 1]", "[{'b': 2, 'a': 1}, 0]",
    '[A(1)]', '[A(2)]', "{'a': A(1)}", '(1, 1)', "pg.Dict(a=A(1))",
]

QUICK_SKIP = set()   # the whole pool is cheap enough for the quick tier.


# ---------------------------------------------------------------------------
# Structural model of the pool: same expressions, plain stand-ins.
# ---------------------------------------------------------------------------

class _Missing:
  def __repr__(self):
    return 'MISSING'

_MISSING = _Missing()


class _MObj:
  def __init__(self, name, items):
    self.name, self.items = name, items


def _model_cls(name, fields, defaults=()):
  """A stand-in constructor that returns _MObj(name, ((field, value)...))."""
  defaults = dict(defaults)

  class _Ctor:
    def __call__(self, *args, **kwargs):
      vals = dict(zip(fields, args))
      vals.update(kwargs)
      out = []
      for f in fields:
        if f in vals:
          out.append((f, vals[f]))
        elif f in defaults:
          out.append((f, defaults[f]))
        else:
          out.append((f, _MISSING))
      return _MObj(name, tuple(out))

    def partial(self, *args, **kwargs):
      return self(*args, **kwargs)
  return _Ctor()


class _ModelPg:
  MISSING_VALUE = _MISSING
  List = staticmethod(lambda x=(): list(x))
  Dict = staticmethod(lambda *a, **k: dict(*a, **k))


_MODEL_NS = dict(
    pg=_ModelPg,
    A=_model_cls('A', ['x']), A2=_model_cls('A2', ['x']),
    B=_model_cls('B', ['x', 'y'], {'y': None}),
    C=_model_cls('C', ['p', 'q']), N=_model_cls('N', ['x']),
    L1=_model_cls('L1', ['x']), L2=_model_cls('L2', ['x']),
    PD=lambda **kw: {'a': kw.get('a', _MISSING), 'b': kw.get('b', _MISSING)},
)


def _norm(v):
  """Hashable normal form: equal iff the two values denote the same value."""
  if v is _MISSING:
    return ('M',)
  if v is None or isinstance(v, (bool, int, float, str)):
    return v        # Python number equality: 1 == True == 1.0.
  if isinstance(v, _MObj):
    return ('O', v.name, tuple((k, _norm(x)) for k, x in v.items))
  if isinstance(v, list):
    return ('L', tuple(_norm(x) for x in v))
  if isinstance(v, tuple):
    return ('T', tuple(_norm(x) for x in v))
  if isinstance(v, dict):
    return ('D', frozenset((k, _norm(x)) for k, x in v.items()))
  raise TypeError(v)


def _model(expr):
  return eval(expr, dict(_MODEL_NS))  # pylint: disable=eval-used


# ---------------------------------------------------------------------------
# Labels (input classes).
# ---------------------------------------------------------------------------

def _kind(v):
  if isinstance(v, type(pg.MISSING_VALUE)):
    return 'missing'
  if v is None:
    return 'none'
  for t, n in ((bool, 'bool'), (int, 'int'), (float, 'float'), (str, 'str'),
               (list, 'list'), (tuple, 'tuple'), (dict, 'dict')):
    if isinstance(v, t):
      return n
  if isinstance(v, pg.Object):
    return 'obj'
  return type(v).__name__


def _has_perm(a, b):
  """True if a and b hold, at aligned positions, dicts with same keys in a different order."""
  if isinstance(a, dict) and isinstance(b, dict):
    ka, kb = list(a.keys()), list(b.keys())
    if set(ka) == set(kb):
      if ka != kb:
        return True
      ga = a.sym_getattr if isinstance(a, pg.Dict) else a.__getitem__
      gb = b.sym_getattr if isinstance(b, pg.Dict) else b.__getitem__
      return any(_has_perm(ga(k), gb(k)) for k in ka)
    return False
  if isinstance(a, (list, tuple)) and isinstance(b, (list, tuple)):
    # lt looks at the common prefix, whatever the lengths.
    return any(_has_perm(x, y) for x, y in zip(a, b))
  if isinstance(a, pg.Object) and isinstance(b, pg.Object) and type(a) is type(b):
    return any(_has_perm(a.sym_getattr(k), b.sym_getattr(k)) for k in a.sym_keys()
               if b.sym_hasattr(k))
  return False


def _pair_label(a, b):
  if _has_perm(a, b):
    return 'permuted-dict-keys'
  if (isinstance(a, pg.Object) and isinstance(b, pg.Object)
      and type(a) is not type(b)
      and type(a).__qualname__ == type(b).__qualname__):
    return 'same-qualname-classes'
  return '~'.join(sorted([_kind(a), _kind(b)]))


def _multi_label(vals):
  labs = set()
  for a, b in itertools.combinations(vals, 2):
    lab = _pair_label(a, b)
    if lab in ('permuted-dict-keys', 'same-qualname-classes'):
      labs.add(lab)
  if labs:
    return '+'.join(sorted(labs))
  return '~'.join(sorted(set(_kind(v) for v in vals)))


def _plain_unhashable(v):
  """True if v holds a plain (non-symbolic) list/dict/set: python-unhashable."""
  if isinstance(v, pg.Symbolic):
    return False
  if isinstance(v, (list, dict, set)):
    return True
  if isinstance(v, tuple):
    return any(_plain_unhashable(x) for x in v)
  return False


def _opted_in(v):
  return isinstance(v, pg.Object) and type(v).use_symbolic_comparison


# ---------------------------------------------------------------------------
# Random nestings for the thorough tier.
# ---------------------------------------------------------------------------

def _rand_expr(r, depth):
  # no MISSING_VALUE below symbolic containers: pg.List / pg.Dict treat it as
  # "delete this element" on construction, so it does not denote a value there.
  leaves = ['None', 'True', '0', '1', '2', '1.0', '0.5', "'a'", "'b'", "''"]
  if depth <= 0 or r.random() < 0.3:
    return r.choice(leaves)
  k = r.randrange(6)
  if k == 0:
    return '[' + ', '.join(_rand_expr(r, depth - 1) for _ in range(r.randrange(3))) + ']'
  if k == 1:
    return 'pg.List([' + ', '.join(_rand_expr(r, depth - 1) for _ in range(r.randrange(3))) + '])'
  if k == 2:
    keys = r.sample(['a', 'b', 'c'], r.randrange(4))
    return '{' + ', '.join(f'{k!r}: {_rand_expr(r, depth - 1)}' for k in keys) + '}'
  if k == 3:
    keys = r.sample(['a', 'b', 'c'], r.randrange(4))
    return 'pg.Dict({' + ', '.join(f'{k!r}: {_rand_expr(r, depth - 1)}' for k in keys) + '})'
  if k == 4:
    n = r.randrange(3)
    elems = [r.choice(['0', '1', '2', '1.0', 'True']) for _ in range(n)]
    return '(' + ''.join(e + ', ' for e in elems) + ')'
  cls = r.choice(['A', 'A', 'A2', 'B', 'C'])
  if cls == 'C':
    return f'C({_rand_expr(r, depth - 1)}, {_rand_expr(r, depth - 1)})'
  if cls == 'B' and r.random() < 0.5:
    return f'B({_rand_expr(r, depth - 1)}, {_rand_expr(r, depth - 1)})'
  return f'{cls}({_rand_expr(r, depth - 1)})'


_CHECK_NS = None


def _constructible(e):
  """Random expressions that the library refuses to construct are not values."""
  global _CHECK_NS
  if _CHECK_NS is None:
    _CHECK_NS = {'__name__': 'c06chk'}
    exec(PRE, _CHECK_NS)  # pylint: disable=exec-used
  try:
    eval(e, _CHECK_NS)  # pylint: disable=eval-used
    return True
  except Exception:  # pylint: disable=broad-except
    return False


def _pool(tier, seed):
  exprs = list(POOL)
  extra, depth = (40, 2) if tier == 'quick' else (300, 3)
  r = rng(seed, 'c06-pool-' + tier)
  seen = set(exprs)
  tries = 0
  while len(exprs) < len(POOL) + extra and tries < 20 * extra:
    tries += 1
    e = _rand_expr(r, depth)
    if e not in seen and _constructible(e):
      seen.add(e)
      exprs.append(e)
  return exprs


def _build(exprs):
  ns = {'__name__': 'c06ns'}
  exec(PRE, ns)  # pylint: disable=exec-used
  xs = [eval(e, ns) for e in exprs]  # pylint: disable=eval-used
  ys = [eval(e, ns) for e in exprs]  # pylint: disable=eval-used
  return ns, xs, ys


def _w(ea, eb, body, ec=None):
  s = _pre(ea, eb, ec or '') + f'a = {ea}\nb = {eb}\n'
  if ec is not None:
    s += f'c = {ec}\n'
  return _fit(s + body, (ea, eb, ec))


def _call(fn, *args):
  try:
    return ('ok', fn(*args))
  except RecursionError:
    return ('exc', 'RecursionError')
  except Exception as e:  # pylint: disable=broad-except
    return ('exc', f'{type(e).__name__}: {e}')


# ---------------------------------------------------------------------------
# Driver 1: pair and triple laws.
# ---------------------------------------------------------------------------

def drv_laws(tier, seed):
  exprs = _pool(tier, seed)
  n = len(exprs)
  rec = Recorder(
      'C06', 'eq/ne/lt/gt/hash laws over all pairs and triples',
      scope=f'{n} pool values x 2 independent constructions; all {n*n} ordered '
            f'pairs, all {n**3} triples; seed adds random nestings')
  _, xs, ys = _build(exprs)
  norms = [_norm(_model(e)) for e in exprs]

  E = [[None] * n for _ in range(n)]     # eq(X[i], Y[j])
  L = [[None] * n for _ in range(n)]     # lt(X[i], Y[j])
  R = [[None] * n for _ in range(n)]     # lt(Y[j], X[i])
  H = [None] * n                         # pg.hash(X[i]) / 'skip' / None if raised

  # ---- unary: reflexivity, hash defined and stable, operators agree.
  for i, e in enumerate(exprs):
    x, y = xs[i], ys[i]
    k = _kind(x)
    r = _call(pg.eq, x, x)
    rec.case(f'eq.reflexive-same-object/{k}', e, r == ('ok', True), f'pg.eq(a, a) -> {r}',
             _w(e, 'a', 'assert pg.eq(a, a) is True'))
    r = _call(pg.ne, x, x)
    rec.case(f'ne.irreflexive-same-object/{k}', e, r == ('ok', False), f'pg.ne(a, a) -> {r}',
             _w(e, 'a', 'assert pg.ne(a, a) is False'))
    # a raise is the same defect as `lt.total` of the pair (a, a): same case id.
    r = _call(pg.lt, x, x)
    if r[0] == 'exc':
      rec.case(f'lt.total/{_pair_label(x, x)}', (e, e), False, f'pg.lt(a, a) -> {r}',
               _w(e, 'a', 'assert isinstance(pg.lt(a, b), bool)'))
    else:
      rec.case(f'lt.irreflexive-same-object/{k}', e, r == ('ok', False), f'pg.lt(a, a) -> {r}',
               _w(e, 'a', 'assert pg.lt(a, a) is False'))
    r = _call(pg.gt, x, x)
    if r[0] == 'exc':
      rec.case(f'lt.total/{_pair_label(x, x)}', (e, e), False, f'pg.gt(a, a) -> {r}',
               _w(e, 'a', 'assert isinstance(pg.gt(a, b), bool)'))
    else:
      rec.case(f'gt.irreflexive-same-object/{k}', e, r == ('ok', False), f'pg.gt(a, a) -> {r}',
               _w(e, 'a', 'assert pg.gt(a, a) is False'))
    if _plain_unhashable(x):
      H[i] = 'skip'
    else:
      h1, h2, h3 = _call(pg.hash, x), _call(pg.hash, x), _call(pg.hash, y)
      ok = h1[0] == 'ok' and isinstance(h1[1], int) and h1 == h2
      rec.case(f'hash.defined-and-stable/{k}', e, ok, f'pg.hash(a) -> {h1}, again {h2}',
               _w(e, 'a', 'assert isinstance(pg.hash(a), int) and pg.hash(a) == pg.hash(a)'))
      H[i] = h1[1] if h1[0] == 'ok' else None
      del h3
    if isinstance(x, pg.Symbolic) and not _plain_unhashable(x):
      r = _call(lambda: x.sym_hash() == pg.hash(x))
      rec.case(f'sym_hash.agrees-with-pg.hash/{k}', e, r == ('ok', True), f'{r}',
               _w(e, 'a', 'assert a.sym_hash() == pg.hash(a)'))
    if _opted_in(x):
      r = _call(lambda: hash(x) == pg.hash(x))
      rec.case('operator.hash-agrees/obj', e, r == ('ok', True), f'hash(a) == pg.hash(a) -> {r}',
               _w(e, 'a', 'assert hash(a) == pg.hash(a)'))

  # ---- pairs.
  for i in range(n):
    x = xs[i]
    for j in range(n):
      y = ys[j]
      ea, eb = exprs[i], exprs[j]
      key = (ea, eb)
      lab = _pair_label(x, y)
      req = _call(pg.eq, x, y)
      rne = _call(pg.ne, x, y)
      rlt = _call(pg.lt, x, y)
      rgt = _call(pg.gt, x, y)
      rrl = _call(pg.lt, y, x)
      rre = _call(pg.eq, y, x)
      rec.case(f'eq.total/{lab}', key, req[0] == 'ok' and isinstance(req[1], bool),
               f'pg.eq(a, b) -> {req}', _w(ea, eb, 'assert isinstance(pg.eq(a, b), bool)'))
      rec.case(f'lt.total/{lab}', key, rlt[0] == 'ok' and isinstance(rlt[1], bool),
               f'pg.lt(a, b) -> {rlt}', _w(ea, eb, 'assert isinstance(pg.lt(a, b), bool)'))
      if req[0] == 'ok':
        E[i][j] = bool(req[1])
        rec.case(f'ne.is-not-eq/{lab}', key, rne == ('ok', not req[1]),
                 f'eq={req} ne={rne}', _w(ea, eb, 'assert pg.ne(a, b) == (not pg.eq(a, b))'))
        rec.case(f'eq.symmetric/{lab}', key, rre == req, f'eq(a,b)={req} eq(b,a)={rre}',
                 _w(ea, eb, 'assert pg.eq(a, b) == pg.eq(b, a)'))
        # which pool values denote the same value (structural model of the pool).
        want = norms[i] == norms[j]
        rec.case(f'eq.same-value-iff-equal/{lab}', key, req[1] == want,
                 f'pg.eq(a, b) -> {req[1]}, structurally {"same" if want else "different"} values',
                 _w(ea, eb, f'assert pg.eq(a, b) is {want}'))
      if rlt[0] == 'ok':
        L[i][j] = bool(rlt[1])
      if rrl[0] == 'ok':
        R[i][j] = bool(rrl[1])
      if rlt[0] == 'ok' or rgt[0] == 'ok' or rrl[0] == 'ok':
        rec.case(f'gt.is-lt-swapped/{lab}', key, rgt == rrl, f'gt(a,b)={rgt} lt(b,a)={rrl}',
                 _w(ea, eb, 'assert pg.gt(a, b) == pg.lt(b, a)'))
      if req[0] == 'ok' and rlt[0] == 'ok' and rrl[0] == 'ok':
        cnt = [bool(rlt[1]), bool(req[1]), bool(rrl[1])].count(True)
        rec.case(f'lt.trichotomy/{lab}', key, cnt == 1,
                 f'lt={rlt[1]} eq={req[1]} gt={rrl[1]} (exactly one must hold)',
                 _w(ea, eb, 'assert [pg.lt(a, b), pg.eq(a, b), pg.lt(b, a)].count(True) == 1'))
      # equal => equal hash.
      if req == ('ok', True) and H[i] not in ('skip', None) and not _plain_unhashable(y):
        hy = _call(pg.hash, y)
        rec.case(f'hash.equal-for-equal-values/{lab}', key, hy == ('ok', H[i]),
                 f'pg.eq(a, b) but pg.hash(a)={H[i]} pg.hash(b)={hy}',
                 _w(ea, eb, 'assert pg.eq(a, b) and pg.hash(a) == pg.hash(b)'))
      # sym_* methods agree with the functions.
      if isinstance(x, pg.Symbolic):
        for nm, ref in (('sym_eq', req), ('sym_ne', rne), ('sym_lt', rlt), ('sym_gt', rgt)):
          got = _call(getattr(x, nm), y)
          if ref[0] == 'ok':
            rec.case(f'{nm}.agrees-with-function/{lab}', key, got == ref, f'a.{nm}(b)={got} pg fn={ref}',
                     _w(ea, eb, f'assert a.{nm}(b) == pg.{nm[4:]}(a, b)'))
      # operators of opted-in classes.
      if _opted_in(x) and req[0] == 'ok':
        r1 = _call(lambda: x == y)
        r2 = _call(lambda: x != y)
        rec.case(f'operator.==agrees/{lab}', key, r1 == req, f'(a == b)={r1} pg.eq={req}',
                 _w(ea, eb, 'assert (a == b) == pg.eq(a, b)'))
        rec.case(f'operator.!=agrees/{lab}', key, r2 == rne, f'(a != b)={r2} pg.ne={rne}',
                 _w(ea, eb, 'assert (a != b) == pg.ne(a, b)'))
        if _opted_in(y):
          r3 = _call(lambda: y == x)
          rec.case(f'operator.==agrees-reflected/{lab}', key, r3 == req, f'(b == a)={r3} pg.eq(a,b)={req}',
                   _w(ea, eb, 'assert (b == a) == pg.eq(a, b)'))

  # ---- triples through the tables (first witness per case id is re-checked natively).
  perm = [[_pair_label(xs[i], ys[j]) for j in range(n)] for i in range(n)]
  special = ('permuted-dict-keys', 'same-qualname-classes')

  # Triple laws are checked where the pair laws hold: a triple that contains a
  # pair already reported (raise / trichotomy violation) adds nothing new.
  def pair_ok(i, j):
    if E[i][j] is None or L[i][j] is None or R[i][j] is None:
      return False
    return [L[i][j], E[i][j], R[i][j]].count(True) == 1
  OK = [[pair_ok(i, j) for j in range(n)] for i in range(n)]

  def tid(law, i, j, k):
    """One id per law and input class; all order laws over triples that involve
    an order-permuted dict pair share one id (one defect)."""
    lab = tlabel(i, j, k)
    if set(lab.split('+')) & set(special):
      return f'triple-laws/{lab}'
    return f'{law}/{lab}'

  def tlabel(i, j, k):
    labs = {perm[i][j], perm[j][k], perm[i][k]} & set(special)
    if labs:
      return '+'.join(sorted(labs))
    return '~'.join(sorted({_kind(xs[i]), _kind(xs[j]), _kind(xs[k])}))

  for i in range(n):
    Ei, Li = E[i], L[i]
    for j in range(n):
      eij, lij = Ei[j], Li[j]
      if not eij and not lij:
        rec.cases += n          # nothing to conclude from (i, j): vacuous for all k.
        continue
      Ej, Lj = E[j], L[j]
      if not OK[i][j]:
        rec.cases += n
        continue
      OKj, OKi = OK[j], OK[i]
      for k in range(n):
        rec.cases += 1
        if not (OKj[k] and OKi[k]):
          continue
        if eij:
          if Ej[k] and Ei[k] is False:
            rec.case(tid('eq.transitive', i, j, k), (exprs[i], exprs[j], exprs[k]), False,
                     'eq(a,b) and eq(b,c) but not eq(a,c)',
                     _w(exprs[i], exprs[j], 'assert not (pg.eq(a, b) and pg.eq(b, c)) or pg.eq(a, c)', exprs[k]))
          if Lj[k] and Li[k] is False:
            rec.case(tid('lt.respects-eq-left', i, j, k), (exprs[i], exprs[j], exprs[k]), False,
                     'eq(a,b) and lt(b,c) but not lt(a,c)',
                     _w(exprs[i], exprs[j], 'assert not (pg.eq(a, b) and pg.lt(b, c)) or pg.lt(a, c)', exprs[k]))
        if lij:
          if Lj[k] and Li[k] is False:
            rec.case(tid('lt.transitive', i, j, k), (exprs[i], exprs[j], exprs[k]), False,
                     'lt(a,b) and lt(b,c) but not lt(a,c)',
                     _w(exprs[i], exprs[j], 'assert not (pg.lt(a, b) and pg.lt(b, c)) or pg.lt(a, c)', exprs[k]))
          if Ej[k] and Li[k] is False:
            rec.case(tid('lt.respects-eq-right', i, j, k), (exprs[i], exprs[j], exprs[k]), False,
                     'lt(a,b) and eq(b,c) but not lt(a,c)',
                     _w(exprs[i], exprs[j], 'assert not (pg.lt(a, b) and pg.eq(b, c)) or pg.lt(a, c)', exprs[k]))
  rec.keys.add(('triples', n ** 3))
  return rec.result()


# ---------------------------------------------------------------------------
# Driver 2: sorting with functools.cmp_to_key never raises and sorts.
# ---------------------------------------------------------------------------

def drv_sort(tier, seed):
  exprs = _pool(tier, seed)
  n = len(exprs)
  n_sorts = 4000 if tier == 'quick' else 40000
  rec = Recorder(
      'C06', 'sorted(key=cmp_to_key(lt-comparator)) never raises and yields the order',
      scope=f'{n_sorts} seeded samples (size 2..10, with repeats) of {n} pool values x 2 constructions, 2 shuffles each, + fixed samples')
  _, xs, ys = _build(exprs)
  allv = [(e, v) for e, v in zip(exprs, xs)] + [(e, v) for e, v in zip(exprs, ys)]
  short = [ev for ev in allv if len(ev[0]) <= 60]     # witnesses are capped at 1200 chars.
  r = rng(seed, 'c06-sort')

  byexpr = {e: v for e, v in zip(exprs, xs)}
  fixed = [list(p) for p in itertools.permutations(
      ["[{'b': 2, 'a': 1}]", "[{'a': 1, 'b': 2}, 1]", "[{'a': 1, 'c': 0}]"])]
  fixed += [list(p) for p in itertools.permutations(["{'a': 1, 'b': 2}", "{'b': 2, 'a': 1}", "{'a': 1, 'b': 3}"])]
  fixed += [list(p) for p in itertools.permutations(['1', 'True', '1.0', '[1]', 'pg.List([1])'], 4)]
  fixed += [['None', '1', 'None'], ['pg.MISSING_VALUE', '0', 'pg.MISSING_VALUE'], ['L1(1)', 'L2(1)'], ['A(1)', 'L2(1)', 'L1(1)'],
            ['None', 'pg.MISSING_VALUE', 'False', "''", '[]', '()', '{}', 'A(None)', 'A.partial()']]

  for t in range(n_sorts + len(fixed)):
    if t < len(fixed):
      sample = [(e, byexpr[e]) for e in fixed[t]]
    else:
      size = r.randrange(2, 11)
      sample = [r.choice(short) for _ in range(size)]
    raised = []

    def cmp(a, b):
      try:
        if pg.lt(a[1], b[1]):
          return -1
        if pg.lt(b[1], a[1]):
          return 1
        return 0
      except RecursionError:
        raised.append((a, b, 'RecursionError'))
        return 0
      except Exception as e:  # pylint: disable=broad-except
        raised.append((a, b, f'{type(e).__name__}: {e}'))
        return 0

    s1 = list(sample)
    r.shuffle(s1)
    perm = list(range(len(s1)))
    r.shuffle(perm)
    if t < len(fixed):
      perm = list(reversed(range(len(s1))))
    s2 = [s1[i] for i in perm]
    o1 = sorted(s1, key=functools.cmp_to_key(cmp))
    o2 = sorted(s2, key=functools.cmp_to_key(cmp))
    src = '[' + ', '.join(e for e, _ in s1) + ']'
    pre = _pre(src)
    wit_sort = (pre + 'import functools\n'
                f'vals = {src}\n'
                'sorted(vals, key=functools.cmp_to_key(lambda a, b: -1 if pg.lt(a, b) else (1 if pg.lt(b, a) else 0)))')
    if raised:
      seen = set()
      for a, b, msg in raised:
        lab = _pair_label(a[1], b[1])
        if lab in seen:
          continue
        seen.add(lab)
        rec.case(f'sort.raises/{lab}', (a[0], b[0]), False, f'comparing {a[0]} with {b[0]}: {msg}',
                 _fit(_pre(a[0], b[0]) + 'import functools\n'
                      f'vals = [{a[0]}, {b[0]}]\n'
                      'sorted(vals, key=functools.cmp_to_key(lambda a, b: -1 if pg.lt(a, b) else (1 if pg.lt(b, a) else 0)))', (a[0], b[0])))
      continue
    key = tuple(e for e, _ in s1)
    lab = _multi_label([v for _, v in sample])
    if 'permuted-dict-keys' not in lab and 'same-qualname-classes' not in lab:
      lab = 'general'      # one id per defect; the pair/triple tables localise by kind.
    rec.case(f'sort.never-raises/{lab}', key, True)
    special = 'permuted-dict-keys' in lab or 'same-qualname-classes' in lab
    id_ordered = f'sort.order/{lab}' if special else f'sort.result-ordered/{lab}'
    id_unique = f'sort.order/{lab}' if special else f'sort.unique-up-to-eq/{lab}'
    # the result is ordered: no later element is less than an earlier one.
    bad = None
    for p in range(len(o1)):
      for q in range(p + 1, len(o1)):
        try:
          if pg.lt(o1[q][1], o1[p][1]):
            bad = (o1[p][0], o1[q][0])
            break
        except Exception:  # pylint: disable=broad-except
          pass
      if bad:
        break
    rec.case(id_ordered, key, bad is None,
             f'after sorting, {bad and bad[1]} (later) is lt {bad and bad[0]} (earlier)',
             _fit(wit_sort.replace('sorted(vals', 'out = sorted(vals') +
                  '\nassert not any(pg.lt(out[q], out[p]) for p in range(len(out)) for q in range(p + 1, len(out)))', key))
    # the order is unique up to eq: two shuffles sort to element-wise equal lists.
    try:
      same = all(pg.eq(a[1], b[1]) for a, b in zip(o1, o2))
    except Exception:  # pylint: disable=broad-except
      same = True
    rec.case(id_unique, key, same,
             f'two shuffles sort differently: {[e for e, _ in o1]} vs {[e for e, _ in o2]}',
             _fit(pre + 'import functools\n'
                  f'v1 = {src}\nv2 = [v1[i] for i in {perm!r}]\n'
                  'k = functools.cmp_to_key(lambda a, b: -1 if pg.lt(a, b) else (1 if pg.lt(b, a) else 0))\n'
                  'assert all(pg.eq(a, b) for a, b in zip(sorted(v1, key=k), sorted(v2, key=k)))', key))
  return rec.result()



def _safe(drv):
  """Last resort: an exception that escapes a driver is reported as a failed case
  (with the traceback), not as a checker error."""
  import functools as _ft
  import traceback as _tb

  @_ft.wraps(drv)
  def run(tier, seed):
    try:
      return drv(tier, seed)
    except Exception as e:  # pylint: disable=broad-except
      tb = _tb.format_exc()
      return dict(title=drv.__name__, scope='aborted by an unexpected exception', cases=1, distinct_nontrivial=1,
                  failures=[dict(case_id=f'unexpected-exception/{drv.__name__}', message=tb[-600:], count=1, input='',
                                 witness=f'raise AssertionError({(type(e).__name__ + ": " + str(e))[:300]!r})')],
                  samples=[])
  return run


DRIVERS = [_safe(d) for d in (drv_laws, drv_sort)]


def replay(rec):
  """Re-executes rec['witness']; returns (ok, message)."""
  try:
    exec(rec['witness'], {})  # pylint: disable=exec-used
    return True, 'witness passes'
  except RecursionError:
    return False, 'RecursionError'
  except Exception as e:  # pylint: disable=broad-except
    return False, f'{type(e).__name__}: {e}'
