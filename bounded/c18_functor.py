"""C18 bounded drivers: symbolized callables keep Python call semantics.

Reference = the Python interpreter itself: the original function / class is
called directly with the same effective arguments; `inspect.signature().bind*`
decides which arguments are effective when binding happens in two stages.

Two-stage rule taken from the Functor docstring: arguments bound at
construction are kept; call-time positionals are matched from position 0
again; giving a new value to an already bound argument is a TypeError unless
`override_args=True`, in which case the call-time value wins.

Ways of making the symbolic callable: the six function wrappers, the four
class wrappers and three ways of writing a *subclassed* functor
(`class F(pg.Functor)` with a `_call` method: annotated fields, int-annotated
fields, `pg.members`).  Argument values: distinct ints, plus the value classes
None / falsy (0, False, '', 0.0, []) / equal to the parameter's default / a
value that makes the body raise.  A failure seen only with a subclassed
functor (the same case passes with `pg.functor` of the same signature) gets
the id prefix `subclassed-functor.`; otherwise the prefix is `functor.`.

Further input classes: keywords that are not named parameters but carry the
name of the variadic parameters (`args=`, `kw=`), positional-only parameters
(`def f(a, /, ...)`), container-valued arguments edited in place (alone or in
one rebind together with whole arguments), late binding while change
notification is off, and families of callables that share one code object (or
are one object) and differ only in what lives on the function object
(`__defaults__`, `__kwdefaults__`, closure).

Indirect argument values (`drv_indirect_argument_values`): an argument bound as
`pg.Ref(v)` *is* v (the very object; pyglove's documentation of `pg.Ref`:
reading the attribute gives the referenced value, no copy, no conversion), an
argument bound as `pg.symbolic.ValueFromParentChain()` is the value of the
same name in the enclosing symbolic tree, an argument that is a symbolic value
(pg.Dict / pg.Object, possibly already owned by another tree) is that value or
an equal copy.  These are the *effective* arguments the statement speaks of
(they are what the symbolic object reports): the original callable is called
with them directly and must see what the symbolic form sees, for every slot an
argument can sit in (named, element of *args, entry of **kw), however it was
bound (construction, rebind / attribute assignment later, the rest supplied at
call time) and on clones.  A `pg.Ref` given at *call time* is not judged (the
direct call with the same object receives the wrapper, too), nor is JSON of a
`pg.Ref` (refused by design).
"""
import copy
import inspect
import itertools
import re
import sys
import types

import pyglove as pg
from pyvc.bounded import Recorder, rng

MOD = 'c18gen_'
_mod = sys.modules.get(MOD)
if _mod is None:
  _mod = types.ModuleType(MOD)
  sys.modules[MOD] = _mod

POS = ['a', 'b', 'c']


class Sig:
  """One signature shape."""

  def __init__(self, n, ndef, va, kwo, vk, annotated=False, dflavor='int', npo=0):
    self.n, self.ndef, self.va, self.kwo, self.vk = n, ndef, va, tuple(kwo), vk
    self.annotated = annotated
    self.dflavor = dflavor          # 'int' | 'None' | 'falsy': what the defaults are
    self.npo = npo                  # the first npo positional parameters are positional-only
    self.pos = POS[:n]
    self.kwonly = [f'k{j + 1}' for j in range(len(kwo))]
    self.names = self.pos + self.kwonly
    self.defaults = {}
    for i, nm in enumerate(self.pos):
      if i >= n - ndef:
        self.defaults[nm] = self._default(i, -(i + 1))
    for j, d in enumerate(kwo):
      if d:
        self.defaults[f'k{j + 1}'] = self._default(n + j, -(10 + j))
    self.params = self.params_src()
    ret = (['"r"'] + self.pos + (['tuple(args)'] if va else []) + self.kwonly
           + (['tuple(sorted(kw.items()))'] if vk else []))
    self.ret = '(' + ', '.join(ret) + ',)'
    self.id = (f'n{n}d{ndef}' + (f'p{npo}' if npo else '') + ('v' if va else '') + 'k'
               + ''.join('d' if d else 'r' for d in kwo)
               + ('w' if vk else '') + ('t' if annotated else '')
               + ('' if dflavor == 'int' else '~' + dflavor))

  def params_src(self, dexpr=None, annotated=None):
    """Parameter list source; dexpr(name) gives the source of a default (default: its literal)."""
    dexpr = dexpr or (lambda nm: repr(self.defaults[nm]))
    ann = ': int' if (self.annotated if annotated is None else annotated) else ''
    parts = []
    for i, nm in enumerate(self.pos):
      parts.append(f'{nm}{ann}' + (f'={dexpr(nm)}' if nm in self.defaults else ''))
      if i + 1 == self.npo:
        parts.append('/')
    if self.va:
      parts.append(f'*args{ann}')
    elif self.kwo:
      parts.append('*')
    for nm in self.kwonly:
      parts.append(f'{nm}{ann}' + (f'={dexpr(nm)}' if nm in self.defaults else ''))
    if self.vk:
      parts.append(f'**kw{ann}')
    return ', '.join(parts)

  def _default(self, idx, int_value):
    if self.dflavor == 'None':
      return None
    if self.dflavor == 'falsy':
      return (0, '', False)[idx % 3]
    return int_value

  def ctor_src(self):
    return (f'm.Sig({self.n}, {self.ndef}, {self.va}, {self.kwo!r}, {self.vk}, '
            f'{self.annotated}, {self.dflavor!r}, {self.npo})')

  def typed(self, annotated):
    if annotated == self.annotated:
      return self
    return Sig(self.n, self.ndef, self.va, self.kwo, self.vk, annotated, self.dflavor, self.npo)

  # The body returns every argument it received; a string argument 'boom'
  # makes it raise ValueError (errors of the body must propagate unchanged).
  _BODY = '{ind}r_ = {ret}\n{ind}if "\'boom\'" in repr(r_): raise ValueError("boom")\n'

  def fn_src(self, name=None):
    return (f'def {name or "f_" + self.id}({self.params}):\n'
            + self._BODY.format(ind='  ', ret=self.ret) + '  return r_\n')

  def cls_src(self, name=None):
    return (f'class {name or "C_" + self.id}:\n  def __init__(self, {self.params}):\n'
            + self._BODY.format(ind='    ', ret=self.ret) + '    self.r = r_\n')

  def subclass_src(self, name, style):
    """A subclassed functor computing the same thing as fn_src (no *args)."""
    assert not self.va
    t = 'int' if self.annotated else 'Any'
    lines = []
    if style == 'pg.members':
      vs = 'pg.typing.Any'
      fields = [f"('{nm}', {vs}(" + (f'default={self.defaults[nm]!r}' if nm in self.defaults else '') + '))'
                for nm in self.names]
      if self.vk:
        fields.append(f'(pg.typing.StrKey(), {vs}())')
      lines.append(f'@pg.members([{", ".join(fields)}], init_arg_list={self.pos!r})')
      lines.append(f'class {name}(pg.Functor):')
    else:
      if self.kwonly:
        lines.append(f'@pg.use_init_args({self.pos!r})')
      lines.append(f'class {name}(pg.Functor):')
      for nm in self.names:
        lines.append(f'  {nm}: {t}' + (f' = {self.defaults[nm]!r}' if nm in self.defaults else ''))
      if self.vk:
        lines.append(f'  __kwargs__: {t}')
    lines.append('  def _call(self):')
    if self.names:
      lines.append('    ' + ', '.join(self.names) + ', = ' + ', '.join(f'self.{nm}' for nm in self.names) + ',')
    if self.vk:
      # Extra keyword arguments: bound ones are attributes, call-time ones are
      # visible through sym_inferred; 'y' and 'z' are the extra names the driver uses.
      lines.append("    kw = {k_: self.sym_inferred(k_) for k_ in ('y', 'z') "
                   "if self.sym_inferred(k_, Any) is not Any}")
    lines.append(self._BODY.format(ind='    ', ret=self.ret) + '    return r_')
    return '\n'.join(lines) + '\n'

  def features(self):
    return ('v' if self.va else '') + ('k' if self.kwo else '') + ('w' if self.vk else '')


def all_sigs(annotated=False, dflavor='int'):
  out = []
  for n in range(4):
    for ndef in range(n + 1):
      for va in (False, True):
        for kwo in [(), (False,), (True,), (False, True), (True, False)]:
          for vk in (False, True):
            out.append(Sig(n, ndef, va, kwo, vk, annotated, dflavor))
  return out


def flavored_sigs():
  """Signatures with at least one default, defaults being None / falsy values."""
  return [s for fl in ('None', 'falsy') for s in all_sigs(dflavor=fl) if s.defaults]


# Ways of symbolizing a function: name -> source template using {f} for the original.
FN_WRAPPERS = {
    'pg.functor': 'pg.functor({f})',
    'pg.functor(spec)': 'pg.functor({spec})({f})',
    'pg.symbolize': 'pg.symbolize({f})',
    'pg.symbolize(spec)': 'pg.symbolize({f}, {spec})',
    'functor_class': 'pg.symbolic.functor_class({f}, add_to_registry=True)',
    'pg.functor(auto_typing)': 'pg.functor(auto_typing=True)({f})',
}
# Ways of writing the same computation as a subclassed functor: name -> (style, int-typed).
SUBCLASS_KINDS = {
    'subclass(annotations)': ('annotations', False),
    'subclass(int-annotations)': ('annotations', True),
    'subclass(pg.members)': ('pg.members', False),
}
CLS_WRAPPERS = {
    'pg.wrap': 'pg.wrap({f})',
    'pg.symbolize(class)': 'pg.symbolize({f})',
    'pg.wrap(spec)': 'pg.wrap({f}, {spec})',
    'pg.wrap(auto_typing)': 'pg.wrap({f}, auto_typing=True)',
}
# Wrappers used only by drv_indirect_argument_values (kept out of the rotations of the other
# drivers): every named parameter and every extra keyword is declared int-or-symbolic-value.
EXTRA_FN_WRAPPERS = {'pg.functor(union-spec)': 'pg.functor({uspec})({f})'}
# 'subclass-of-pg.wrap': class S(pg.wrap(C)) whose own __init__ (same parameters) forwards to super().
EXTRA_CLS_WRAPPERS = {'pg.wrap(union-spec)': 'pg.wrap({f}, {uspec})', 'subclass-of-pg.wrap': None}
FUNCTOR_KINDS = list(FN_WRAPPERS) + list(SUBCLASS_KINDS)
UNTYPED_FUNCTOR_KINDS = ['pg.functor', 'pg.symbolize', 'functor_class', 'subclass(annotations)',
                         'subclass(pg.members)']


def is_typed_kind(kind):
  """Parameters are declared int: only int argument values are legal."""
  return 'auto_typing' in kind or kind == 'subclass(int-annotations)'


def int_values_only(kind):
  return is_typed_kind(kind) or '(spec)' in kind


def sig_for(sig, kind):
  return sig.typed(is_typed_kind(kind))


def pick_kind(i, seed, sig, shift=0, kinds=None):
  """Deterministic rotation of wrapper kinds that is not aligned with any signature feature."""
  kinds = kinds or FUNCTOR_KINDS
  idx = (i + i // len(kinds) + seed + shift) % len(kinds)
  while kinds[idx] in SUBCLASS_KINDS and sig.va:      # *args cannot be read by a `_call()` body
    idx = (idx + 1) % len(kinds)
  return kinds[idx]


def spec_src(sig):
  items = []
  if sig.pos:
    items.append(f"('{sig.pos[0]}', pg.typing.Int())")
  if sig.kwonly:
    items.append(f"('{sig.kwonly[-1]}', pg.typing.Int())")
  if sig.vk:
    items.append('(pg.typing.StrKey(), pg.typing.Int())')
  return '[' + ', '.join(items) + ']'


def union_spec_src(sig):
  vs = ('pg.typing.Union([pg.typing.Int(), pg.typing.Object(pg.Object), pg.typing.Dict(), '
        'pg.typing.List(pg.typing.Any())])')
  items = [f"('{nm}', {vs})" for nm in sig.names]
  if sig.vk:
    items.append(f'(pg.typing.StrKey(), {vs})')
  return '[' + ', '.join(items) + ']'


def is_class_kind(kind):
  return kind in CLS_WRAPPERS or kind in EXTRA_CLS_WRAPPERS


_BUILT = {}


class Prelude(str):
  """Source that defines F (original) and W (symbolic); .compact is a short equivalent."""
  compact = ''


def build(sig, kind):
  """Returns (original, wrapped, prelude source)."""
  key = (sig.id, kind)
  if key in _BUILT:
    return _BUILT[key]
  is_cls = is_class_kind(kind)
  tag = ''.join(ch for ch in kind if ch.isalnum())
  name = ('C_' if is_cls else 'f_') + sig.id.replace('~', '_') + '_' + tag
  head = ('import pyglove as pg, sys, types, typing\n'
          f"m_ = sys.modules.setdefault('{MOD}', types.ModuleType('{MOD}'))\n"
          f"ns_ = {{'__name__': '{MOD}', 'pg': pg, 'Any': typing.Any}}\n")
  if kind in SUBCLASS_KINDS:
    wname = 'S' + name[1:]
    src2 = sig.subclass_src(wname, SUBCLASS_KINDS[kind][0])
    prelude = (head + f'exec({sig.fn_src(name)!r}, ns_)\nF = ns_[{name!r}]\n'
               f'exec({src2!r}, ns_)\n'
               f'W = ns_[{wname!r}]; m_.__dict__[{wname!r}] = W\n')
  elif kind == 'subclass-of-pg.wrap':
    fwd = ', '.join(sig.pos + (['*args'] if sig.va else []) + [f'{nm}={nm}' for nm in sig.kwonly]
                    + (['**kw'] if sig.vk else []))
    sub = f'class S{name}(W0_):\n  def __init__(self, {sig.params}):\n    super().__init__({fwd})\n'
    prelude = (head + f'exec({sig.cls_src(name)!r}, ns_)\n'
               f'F = ns_[{name!r}]; m_.__dict__[{name!r}] = F\n'
               f"ns_['W0_'] = pg.wrap(F)\nexec({sub!r}, ns_)\n"
               f"W = ns_['S{name}']; m_.__dict__['S{name}'] = W\n")
  else:
    src = sig.cls_src(name) if is_cls else sig.fn_src(name)
    tmpl = {**FN_WRAPPERS, **CLS_WRAPPERS, **EXTRA_FN_WRAPPERS, **EXTRA_CLS_WRAPPERS}[kind]
    wsrc = tmpl.format(f=name, spec=spec_src(sig), uspec=union_spec_src(sig))
    prelude = (head + f'exec({src!r}, ns_)\n'
               f'F = ns_[{name!r}]; m_.__dict__[{name!r}] = F\n'
               f"W = eval({wsrc!r}, ns_)\n")
  prelude = Prelude(prelude)
  prelude.compact = ('import pyglove as pg, bounded.c18_functor as m\n'
                     f'F, W, _ = m.build({sig.ctor_src()}, {kind!r})\n')
  ns = {}
  try:
    exec(prelude, ns)  # pylint: disable=exec-used
  except Exception as e:  # pylint: disable=broad-except
    raise BuildError(f'{type(e).__name__}: {e}', prelude) from e
  _BUILT[key] = (ns['F'], ns['W'], prelude)
  return _BUILT[key]


class BuildError(Exception):
  pass


def try_build(rec, sig, kind):
  """build() that records a failure instead of raising."""
  try:
    return build(sig, kind)
  except BuildError as e:
    rec.case(f'{_family(kind)}.symbolizing-a-valid-callable-fails/{kind}', (sig.id, kind), ok=False,
             message=f'{sig.params}: {e.args[0]}', witness=e.args[1])
    return None


def call(fn, *a, **k):
  """('ok', value) | ('TypeError', category) | ('exc', ExceptionName)."""
  try:
    return ('ok', fn(*a, **k))
  except TypeError as e:
    return ('TypeError', _category(str(e)))
  except Exception as e:  # pylint: disable=broad-except
    return ('exc', type(e).__name__)


def _category(msg):
  for pat, cat in (('multiple values', 'multiple-values'), ('unexpected keyword', 'unexpected-keyword'),
                   ('required keyword-only', 'missing-keyword-only-argument'),
                   ('missing', 'missing-argument'), ('positional argument', 'too-many-positional'),
                   ('new value for argument', 'rebinding-without-override')):
    if pat in msg:
      return cat
  return 'other'


_PRIM = (bool, int, float, str, type(None))


def same(a, b):
  """Equality that also tells 0 / False / 0.0 and tuple / list apart."""
  if isinstance(a, (tuple, list)) and isinstance(b, (tuple, list)):
    return (isinstance(a, tuple) == isinstance(b, tuple) and len(a) == len(b)
            and all(same(x, y) for x, y in zip(a, b)))
  if isinstance(a, dict) and isinstance(b, dict):
    return set(a.keys()) == set(b.keys()) and all(same(a[k], b[k]) for k in a.keys())
  if isinstance(a, _PRIM) or isinstance(b, _PRIM):
    return type(a) is type(b) and a == b
  return bool(a == b)


def agree(want, got):
  if want[0] == 'ok':
    return got[0] == 'ok' and same(want[1], got[1])
  if want[0] == 'exc':
    return tuple(got) == tuple(want)      # an error of the body propagates unchanged
  return got[0] == want[0]       # both TypeError (category may be worded differently)


def _short(o):
  return 'ok' if o[0] == 'ok' else (f'TypeError({o[1]})' if o[0] == 'TypeError' else o[1])


def _vs(want, got):
  """Case-id fragment describing expected vs observed outcome."""
  if want[0] == 'ok' and got[0] == 'ok' and not same(want[1], got[1]):
    return 'python-ok/got-different-result'
  return f'python-{_short(want)}/got-{_short(got)}'


def shapes(sig, extra='z'):
  """All (positional count, keyword-name subset) call shapes of a signature."""
  names = sig.names + [extra]
  for p in range(sig.n + 3):
    for mask in range(2 ** len(names)):
      yield p, tuple(nm for i, nm in enumerate(names) if mask >> i & 1)


def mk_args(p, kws, base):
  return tuple(base + i for i in range(p)), {nm: base * 10 + i for i, nm in enumerate(kws)}


# Value classes beyond "distinct ints".  Each is applied to a non-empty seeded
# subset of the supplied arguments of a call shape.
VALUE_CLASSES = ('None', 'falsy', 'default-equal', 'body-raises')
FALSY = (0, False, '', 0.0, [])


def specialize(sig, kind, a, k, vclass, r):
  """(a, k) with some values replaced by values of class `vclass`; None if not applicable."""
  ints_only = int_values_only(kind)
  if ints_only and vclass in ('None', 'body-raises'):
    return None
  slots = [('p', i) for i in range(len(a))] + [('k', nm) for nm in k]
  if vclass == 'default-equal':
    slots = [s for s in slots
             if (s[0] == 'p' and s[1] < sig.n and sig.pos[s[1]] in sig.defaults)
             or (s[0] == 'k' and s[1] in sig.defaults)]
  if not slots:
    return None
  chosen = [s for s in slots if r.random() < 0.5] or [r.choice(slots)]
  a, k = list(a), dict(k)
  for how, at in chosen:
    if vclass == 'None':
      v = None
    elif vclass == 'falsy':
      v = 0 if ints_only else r.choice(FALSY)
    elif vclass == 'body-raises':
      v = 'boom'
    else:
      v = sig.defaults[sig.pos[at] if how == 'p' else at]
    if how == 'p':
      a[at] = v
    else:
      k[at] = v
  return tuple(a), k


def with_value_variants(sig, kind, j, a, k, r):
  """[(tag, a, k)]: the int-valued call and one seeded value-class variant of it."""
  out = [('', a, k)]
  order = VALUE_CLASSES[j % 4:] + VALUE_CLASSES[:j % 4]
  for vclass in order:
    sp = specialize(sig, kind, a, k, vclass, r)
    if sp is not None and sp != (a, k):
      out.append((f'[{vclass}-values]', sp[0], sp[1]))
      break
  return out


def _fmt_call(a, k):
  return ', '.join([repr(x) for x in a] + [f'{n}={v!r}' for n, v in k.items()])


# ---------------------------------------------------------------------------
# Reference for two-stage binding.
# ---------------------------------------------------------------------------

def merge_call(f, sig, named, extras, varargs, args, kw, override):
  """Outcome of calling a functor whose bound state is (named, extras, varargs) with (*args, **kw).

  None: the statement does not say what has to happen (not judged).
  """
  try:
    b2 = inspect.signature(f).bind_partial(*args, **kw)
  except TypeError as e:
    return ('TypeError', _category(str(e)))
  named, extras, varargs = dict(named), dict(extras), tuple(varargs or ())
  for k, v in b2.arguments.items():
    if k in sig.names:
      if k in named and not override:
        return ('TypeError', 'rebinding-without-override')
      named[k] = v
  for k, v in b2.arguments.get('kw', {}).items():
    if k in extras and not override:
      return ('TypeError', 'rebinding-without-override')
    extras[k] = v
  v2 = tuple(b2.arguments.get('args', ()))
  if v2:
    if varargs and not override:
      return None        # both stages give *args: not specified -> not judged
    varargs = v2
  pos = []
  rest = dict(named)
  for nm in sig.pos:
    if nm in rest:
      pos.append(rest.pop(nm))
    else:
      break
  if varargs and len(pos) < sig.n:
    return None          # cannot be written as a Python call -> not judged
  return call(f, *pos, *varargs, **rest, **extras)


def reference_two_stage(f, sig, cargs, ckw, args, kw, override):
  """Outcome of `wrapped(*cargs, **ckw)(*args, **kw)` per Python semantics."""
  try:
    b1 = inspect.signature(f).bind_partial(*cargs, **ckw)
  except TypeError as e:
    return 'ctor', ('TypeError', _category(str(e)))
  named = {k: v for k, v in b1.arguments.items() if k in sig.names}
  extras = dict(b1.arguments.get('kw', {}))
  varargs = tuple(b1.arguments.get('args', ()))
  return 'call', merge_call(f, sig, named, extras, varargs, args, kw, override)


def expected_init_args(f, sig, cargs, ckw):
  """What sym_init_args must describe after construction (None: not judged)."""
  try:
    b = inspect.signature(f).bind_partial(*cargs, **ckw)
  except TypeError:
    return None
  out = {}
  for nm, p in inspect.signature(f).parameters.items():
    if p.kind == p.VAR_POSITIONAL:
      out[nm] = list(b.arguments.get(nm, ()))
    elif p.kind == p.VAR_KEYWORD:
      out.update(b.arguments.get(nm, {}))
    elif nm in b.arguments:
      out[nm] = b.arguments[nm]
    elif p.default is not p.empty:
      out[nm] = p.default
    else:
      out[nm] = pg.MISSING_VALUE
  return out


def init_args_of(x):
  out = {}
  for k, v in x.sym_init_args.items():
    if isinstance(v, pg.List):
      v = list(v)
    out[k] = v
  return out


def same_init_args(rep, exp):
  """sym_init_args agree: same names, same values (an unbound required one is MISSING_VALUE)."""
  if not isinstance(rep, dict) or not isinstance(exp, dict) or set(rep) != set(exp):
    return False
  for k, v in exp.items():
    if v is pg.MISSING_VALUE or rep[k] is pg.MISSING_VALUE or isinstance(rep[k], type(pg.MISSING_VALUE)):
      if not (pg.MISSING_VALUE == v and pg.MISSING_VALUE == rep[k]):
        return False
    elif not same(rep[k], v):
      return False
  return True


# ---------------------------------------------------------------------------
# Case-id family: 'functor.' vs 'subclassed-functor.'
# ---------------------------------------------------------------------------

class BufRec:
  """Buffers Recorder.case calls so that failing ids can be qualified afterwards."""

  def __init__(self):
    self.calls = []
    self.failed = False

  def case(self, case_id, key, ok, message='', witness='', nontrivial=True):
    self.calls.append((case_id, key, ok, message, witness, nontrivial))
    if not ok:
      self.failed = True
    return ok

  def fail_ids(self):
    return {c[0] for c in self.calls if not c[2]}


def run_routine(rec, sig, kind, routine):
  """Runs routine(rec, sig, kind, f, w, prelude) for one way of symbolizing.

  For a subclassed functor the same routine (same inputs) is repeated with
  `pg.functor` of the same signature when something failed: a case that fails
  for both keeps its `functor.` id (one defect, one id); a case that fails only
  for the subclassed functor is reported as `subclassed-functor.`.
  """
  s = sig_for(sig, kind)
  built = try_build(rec, s, kind)
  if built is None:
    return
  if kind not in SUBCLASS_KINDS:
    routine(rec, s, kind, *built)
    return
  buf = BufRec()
  routine(buf, s, kind, *built)
  plain_fail = set()
  if buf.failed:
    pkind = 'pg.functor(auto_typing)' if is_typed_kind(kind) else 'pg.functor'
    pbuilt = try_build(BufRec(), s, pkind)
    if pbuilt is not None:
      pbuf = BufRec()
      routine(pbuf, s, pkind, *pbuilt)
      plain_fail = pbuf.fail_ids()
  for case_id, key, ok, message, witness, nontrivial in buf.calls:
    if not ok and case_id.startswith('functor.') and kind not in case_id and case_id not in plain_fail:
      case_id = 'subclassed-' + case_id
    rec.case(case_id, key, ok, message, witness, nontrivial)


# ---------------------------------------------------------------------------
# Drivers
# ---------------------------------------------------------------------------

def _witness(prelude, body):
  full = prelude + body
  if len(full) > 1150 and getattr(prelude, 'compact', ''):
    return prelude.compact + body
  return full


def _check_signature(rec, sig, kind, f, w, prelude, case_id=None):
  def norm(p):
    name = '**' if p.kind == p.VAR_KEYWORD and kind in SUBCLASS_KINDS else p.name
    return (name, p.kind, p.default)
  want = [norm(p) for p in inspect.signature(f).parameters.values() if p.name != 'self']
  try:
    got = [norm(p) for p in list(inspect.signature(w.__init__).parameters.values())[1:]]
    msg = f'got {got!r}, want {want!r}'
  except Exception as e:  # pylint: disable=broad-except
    got, msg = None, f'{type(e).__name__}: {e}'
  rec.case(case_id or f'{_family(kind)}.init-signature/{kind}', (sig.id, kind),
           ok=got is not None and len(got) == len(want) and all(same(x, y) for x, y in zip(got, want)),
           message=msg,
           witness=_witness(prelude, 'import inspect\n'
                            "n = lambda p: '**' if p.kind == p.VAR_KEYWORD else p.name\n"
                            'a = [(n(p), p.kind, p.default) for p in list(inspect.signature(W.__init__).parameters.values())[1:]]\n'
                            "b = [(n(p), p.kind, p.default) for p in inspect.signature(F).parameters.values() if p.name != 'self']\n"
                            'assert a == b, (a, b)\n'))


def _family(kind):
  if is_class_kind(kind):
    return 'class-wrapper'
  return 'subclassed-functor' if kind in SUBCLASS_KINDS else 'functor'


def _roundtrips(x):
  """(name, source expression over `x`) of every way to copy a symbolic object."""
  return [('clone', 'x.clone()'), ('deep-clone', 'x.clone(deep=True)'),
          ('json-roundtrip', 'pg.from_json(x.to_json())'),
          ('json-str-roundtrip', 'pg.from_json_str(x.to_json_str())')]


def _single_stage_functor(rec, sig, kind, f, w, prelude, cases, deep):
  """cases: [(p, kws, [(value tag, a, k), ...])]; a variant runs only if the int-valued call held."""
  feat = sig.features()
  for p, kws, variants in cases:
    for vtag, a, k in variants:
      want = call(f, *a, **k)
      argsrc = _fmt_call(a, k)
      key = (sig.id, kind, p, kws, vtag and argsrc)
      allok = True
      # (1) everything bound at construction, then called with nothing.
      x = None

      def ctor_then_call():
        nonlocal x
        x = w(*a, **k)
        return x()
      got = got1 = call(ctor_then_call)
      allok &= rec.case(f'functor.bound-at-construction{vtag}/{_vs(want, got)}',
                        key, ok=agree(want, got),
                        message=f'{sig.params}: f({argsrc}) -> {want!r}; W({argsrc})() -> {got!r}',
                        witness=_witness(prelude, f'import bounded.c18_functor as m\n'
                                         f'assert m.agree(m.call(F, {argsrc}), m.call(lambda: W({argsrc})()))\n'))
      # (2) nothing bound, everything supplied at call time.
      y = None

      def call_time():
        nonlocal y
        y = w()
        return y(*a, **k)
      got = call(call_time)
      allok &= rec.case(f'functor.supplied-at-call-time{vtag}/{_vs(want, got)}',
                        key, ok=agree(want, got),
                        message=f'{sig.params}: f({argsrc}) -> {want!r}; W()({argsrc}) -> {got!r}',
                        witness=_witness(prelude, f'import bounded.c18_functor as m\n'
                                         f'assert m.agree(m.call(F, {argsrc}), m.call(lambda: W()({argsrc})))\n'))
      if y is not None and agree(want, got) and (p or kws):
        # Call-time arguments are not remembered: the next call sees none of them.
        want0, got0 = call(f), call(y)
        allok &= rec.case(f'functor.call-after-call{vtag}/{_vs(want0, got0)}', key, ok=agree(want0, got0),
                          message=f'{sig.params}: y = W(); y({argsrc}); y() -> {got0!r}; f() -> {want0!r}',
                          witness=_witness(prelude, 'import bounded.c18_functor as m\n'
                                           f'y = W(); m.call(y, {argsrc})\n'
                                           'assert m.agree(m.call(F), m.call(y))\n'))
      if x is not None and agree(want, got1) and want[0] != 'TypeError':
        # (3) reported arguments.
        exp = expected_init_args(f, sig, a, k)
        try:
          rep = init_args_of(x)
        except Exception as e:  # pylint: disable=broad-except
          rep = f'{type(e).__name__}: {e}'
        allok &= rec.case(f'functor.sym_init_args/fully-bound[{feat}]{vtag}', key, ok=same_init_args(rep, exp),
                          message=f'{sig.params}: W({argsrc}).sym_init_args = {rep!r}, want {exp!r}',
                          witness=_witness(prelude, f'import bounded.c18_functor as m\n'
                                           f'assert m.same_init_args(m.init_args_of(W({argsrc})), '
                                           f'm.expected_init_args(F, None, *m.ak({argsrc})))\n'))
        if deep:
          # (4) copies describe the same call.
          for name, src in _roundtrips(x):
            got = call(lambda: eval(src, {'x': x, 'pg': pg})())  # pylint: disable=eval-used
            allok &= rec.case(
                f'functor.{name}{vtag}/{_vs(want, got)}', key, ok=agree(want, got),
                message=f'{sig.params}: f({argsrc}) -> {want!r}; {src} of W({argsrc}) called -> {got!r}',
                witness=_witness(prelude, f'import bounded.c18_functor as m\nx = W({argsrc})\n'
                                 f'assert m.agree(m.call(F, {argsrc}), m.call(lambda: ({src})()))\n'))
      if not allok:
        break


def ak(*a, **k):
  return a, k


def _pick(items, r, k):
  items = list(items)
  return items if len(items) <= k else r.sample(items, k)


def _single_cases(s, kind, r, limit):
  sh = _pick(shapes(s), r, limit)
  out = []
  for j, (p, kws) in enumerate(sh):
    a, k = mk_args(p, kws, 10)
    out.append((p, kws, with_value_variants(s, kind, j, a, k, r)))
  return out


def drv_functor_single_stage(tier, seed):
  quick = tier == 'quick'
  rec = Recorder(
      'C18', 'functors: all arguments at construction / all at call time vs direct call',
      scope=('240 signature shapes (0..3 positional, 0..n defaults, *args, 0..2 keyword-only '
             'with/without default, **kw) x 6 ways of symbolizing a function + 3 ways of writing a '
             'subclassed functor (no *args); ' + ('40 seeded' if quick else 'all 384')
             + ' further shapes whose defaults are None / falsy; call shapes: 0..n+2 '
             'positionals x every subset of keyword names incl. an unknown one ('
             + ('<=12 seeded shapes per signature' if quick else '<=48 seeded shapes per signature')
             + '); values: distinct ints and, per shape, one of the classes None / falsy / '
             'equal-to-default / body raises; result or error vs the original; a second call '
             'without arguments; sym_init_args; clone / deep clone / JSON round trips; '
             'inspect.signature of generated __init__'))
  r = rng(seed, 'c18-single')
  limit = 12 if quick else 48
  for i, sig in enumerate(all_sigs()):
    use = [pick_kind(i, seed, sig)]
    if not quick or i % 7 == seed % 7:
      use = [k for k in FUNCTOR_KINDS if not (k in SUBCLASS_KINDS and sig.va)]
    for kind in use:
      s = sig_for(sig, kind)
      cases = _single_cases(s, kind, r, limit)

      def routine(rc, s_, kind_, f, w, prelude, cases=cases):
        _check_signature(rc, s_, kind_, f, w, prelude)
        _single_stage_functor(rc, s_, kind_, f, w, prelude, cases, deep=True)
      run_routine(rec, sig, kind, routine)
  fl = flavored_sigs()
  if quick:
    fl = _pick(fl, r, 40)
  for i, sig in enumerate(fl):
    kind = pick_kind(i, seed, sig, kinds=UNTYPED_FUNCTOR_KINDS)
    cases = _single_cases(sig, kind, r, limit)

    def routine2(rc, s_, kind_, f, w, prelude, cases=cases):
      _check_signature(rc, s_, kind_, f, w, prelude)
      _single_stage_functor(rc, s_, kind_, f, w, prelude, cases, deep=True)
    run_routine(rec, sig, kind, routine2)
  return rec.result()


def _two_stage_case(rec, sig, kind, f, w, prelude, c, d, override, how, deep, vtag, a1, k1, a2, k2,
                    via_partial=False):
  """One (construction arguments, call arguments) pair; returns False if any case failed."""
  stage, want = reference_two_stage(f, sig, a1, k1, a2, k2, override)
  if want is None:
    return True
  allok = True
  s1, s2 = _fmt_call(a1, k1), _fmt_call(a2, k2)
  ov_ctor = override and how == 'ctor-flag'
  ov_call = override and how == 'call-flag'
  csrc = s1 + (', override_args=True' if ov_ctor else '')
  csrc = csrc.lstrip(', ')
  dsrc = (s2 + (', override_args=True' if ov_call else '')).lstrip(', ')
  key = (sig.id, kind, c, d, override, how, vtag and (s1, s2), via_partial)
  wn = 'W.partial' if via_partial else 'W'   # both spellings construct a (partially) bound functor
  x = None
  ctor_failed = None

  def run():
    nonlocal x, ctor_failed
    try:
      x = (w.partial if via_partial else w)(*a1, **dict(k1, **({'override_args': True} if ov_ctor else {})))
    except Exception:
      ctor_failed = True
      raise
    return x(*a2, **dict(k2, **({'override_args': True} if ov_call else {})))
  got = call(run)
  what = 'override' if override else 'no-override'
  allok &= rec.case(f'functor.two-stage[{what}]{vtag}/{_vs(want, got)}',
                    key, ok=agree(want, got),
                    message=f'{sig.params}: {wn}({csrc})({dsrc}) -> {got!r}; Python semantics -> {want!r}',
                    witness=_witness(prelude, 'import bounded.c18_functor as m\n'
                                     f'got = m.call(lambda: {wn}({csrc})({dsrc}))\n'
                                     f'assert m.agree({want!r}, got), got\n'))
  if stage == 'ctor' and not ctor_failed:
    allok &= rec.case('functor.two-stage/construction-accepts-invalid-arguments',
                      (sig.id, kind, c), ok=False,
                      message=f'{sig.params}: {wn}({csrc}) did not raise; Python: {want!r}',
                      witness=_witness(prelude, f'import bounded.c18_functor as m\n'
                                       f"assert m.call(lambda: {wn}({csrc}))[0] == 'TypeError'\n"))
  if x is None:
    return allok
  exp = expected_init_args(f, sig, a1, k1)
  if exp is None:
    return allok
  # The call must not have changed what is bound.
  try:
    rep = init_args_of(x)
  except Exception as e:  # pylint: disable=broad-except
    rep = f'{type(e).__name__}: {e}'
  allok &= rec.case(f'functor.sym_init_args/partially-bound[{sig.features()}]{vtag}', (sig.id, kind, c, vtag and s1),
                    ok=same_init_args(rep, exp),
                    message=f'{sig.params}: {wn}({csrc}).sym_init_args = {rep!r}, want {exp!r}',
                    witness=_witness(prelude, f'import bounded.c18_functor as m\n'
                                     f'assert m.same_init_args(m.init_args_of({wn}({csrc})), '
                                     f'm.expected_init_args(F, None, *m.ak({s1})))\n'))
  if stage == 'call' and (a2 or k2):
    # ... nor what a later call without arguments sees.
    want0 = reference_two_stage(f, sig, a1, k1, (), {}, override)[1]
    if want0 is not None:
      got0 = call(x)
      allok &= rec.case(
          f'functor.call-after-call{vtag}/{_vs(want0, got0)}', key, ok=agree(want0, got0),
          message=f'{sig.params}: x = {wn}({csrc}); x({dsrc}); then x() -> {got0!r}; want {want0!r}',
          witness=_witness(prelude, 'import bounded.c18_functor as m\n'
                           f'x = {wn}({csrc}); m.call(lambda: x({dsrc}))\n'
                           f'got = m.call(x)\nassert m.agree({want0!r}, got), got\n'))
  if not deep or stage != 'call' or not agree(want, got):
    return allok
  for name, src in _roundtrips(x):
    def again(src=src):
      y = eval(src, {'x': x, 'pg': pg})  # pylint: disable=eval-used
      if ov_ctor and name.startswith('json'):
        return y(*a2, **dict(k2, override_args=True))   # a construction flag is not an argument
      return y(*a2, **dict(k2, **({'override_args': True} if ov_call else {})))
    got = call(again)
    allok &= rec.case(
        f'functor.two-stage.{name}[{what}]{vtag}/{_vs(want, got)}',
        key, ok=agree(want, got),
        message=f'{sig.params}: x = {wn}({csrc}); ({src})({dsrc}) -> {got!r}; want {want!r}',
        witness=_witness(prelude, 'import bounded.c18_functor as m\n'
                         f'x = {wn}({csrc})\n'
                         f'got = m.call(lambda: ({src})({dsrc}'
                         + (', override_args=True' if ov_ctor and name.startswith('json') and 'override_args' not in dsrc else '')
                         + '))\n'
                         f'assert m.agree({want!r}, got), got\n'))
  return allok


def drv_functor_two_stage(tier, seed):
  quick = tier == 'quick'
  rec = Recorder(
      'C18', 'functors: partial binding at construction + late arguments (with/without override)',
      scope=('same 240 signatures, one way of symbolizing each (6 function wrappers + 3 subclassed '
             'functor styles, rotated by seed); pairs (construction shape, call shape) of positional '
             'counts 0..n+1 and keyword subsets: exhaustive for signatures with <='
             + ('1' if quick else '2') + ' named parameters, '
             + ('10' if quick else '150') + ' seeded pairs otherwise; override_args False / True (as '
             'constructor flag or call flag); construction spelled W(...) or W.partial(...); values: distinct ints and, per pair, one of the classes '
             'None / falsy / equal-to-default / body raises at either stage; oracle = bind_partial '
             'merge + direct call; sym_init_args after the call; a second call without arguments; '
             'clone/JSON copies called the same way'))
  r = rng(seed, 'c18-two')
  for i, sig in enumerate(all_sigs()):
    kind = pick_kind(i, seed, sig)
    s = sig_for(sig, kind)
    sh = [(p, kws) for p, kws in shapes(s) if p <= s.n + 1]
    pairs = list(itertools.product(sh, sh))
    small = len(s.names) <= (1 if quick else 2)
    if not small or len(pairs) > 1500:
      pairs = _pick(pairs, r, 10 if quick else 150)
    plan = []
    for j, (c, d) in enumerate(pairs):
      a1, k1 = mk_args(c[0], c[1], 10)
      a2, k2 = mk_args(d[0], d[1], 20)
      variants = [('', a1, k1, a2, k2)]
      if not small or j % 5 == seed % 5:
        order = VALUE_CLASSES[j % 4:] + VALUE_CLASSES[:j % 4]
        for vclass in order:
          where = ('call', 'ctor', 'both')[(j // 4) % 3]
          s1 = specialize(s, kind, a1, k1, vclass, r) if where != 'call' else None
          s2 = specialize(s, kind, a2, k2, vclass, r) if where != 'ctor' else None
          if s1 is None and s2 is None:
            continue
          b1, l1 = s1 or (a1, k1)
          b2, l2 = s2 or (a2, k2)
          variants.append((f'[{vclass}-values]', b1, l1, b2, l2))
          break
      plan.append((j, c, d, variants))

    def routine(rc, s_, kind_, f, w, prelude, plan=plan):
      for j, c, d, variants in plan:
        for override in (False, True):
          how = ('ctor-flag', 'call-flag')[j % 2]
          for vtag, a1, k1, a2, k2 in variants:
            if not _two_stage_case(rc, s_, kind_, f, w, prelude, c, d, override, how,
                                   (j % 4 == 0), vtag, a1, k1, a2, k2, via_partial=(j % 3 == 2)):
              break
    run_routine(rec, sig, kind, routine)
  return rec.result()


def _r(o):
  return o.r


def drv_class_wrappers(tier, seed):
  quick = tier == 'quick'
  rec = Recorder(
      'C18', 'symbolized classes: __init__ receives the same arguments as the original class',
      scope=('240 __init__ signature shapes x 4 ways of wrapping a class (pg.wrap, pg.symbolize, '
             'with arg specs, auto_typing); call shapes 0..n+2 positionals x every keyword subset '
             'incl. an unknown name (' + ('<=14 seeded per signature, one wrapper kind'
                                         if quick else '<=120 per signature, all kinds')
             + '); values: distinct ints and one of None / falsy / equal-to-default / __init__ '
             'raises per shape; attributes set by __init__ or error vs the original; isinstance; '
             'sym_init_args; clone / JSON copies; partial(...) + rebind(...) late binding; rebind of '
             'one argument after construction; one rebind mixing an edit inside a bound dict value with '
             'a whole argument (both orders); inspect.signature of the wrapper __init__'))
  r = rng(seed, 'c18-cls')
  kinds = list(CLS_WRAPPERS)
  for i, sig in enumerate(all_sigs()):
    use = [kinds[(i + i // len(kinds) + seed) % len(kinds)]] if quick else kinds
    for kind in use:
      s = sig.typed('auto_typing' in kind)
      built = try_build(rec, s, kind)
      if built is None:
        continue
      c, w, prelude = built
      _check_signature(rec, s, kind, c, w, prelude)
      sh = _pick(shapes(s), r, 14 if quick else 120)
      for j, (p, kws) in enumerate(sh):
        a0, k0 = mk_args(p, kws, 10)
        for vtag, a, k in with_value_variants(s, kind, j, a0, k0, r):
          if not _class_case(rec, s, kind, c, w, prelude, j, p, kws, vtag, a, k):
            break
  return rec.result()


def _class_case(rec, s, kind, c, w, prelude, j, p, kws, vtag, a, k):
  allok = True
  argsrc = _fmt_call(a, k)
  key = (s.id, kind, p, kws, vtag and argsrc)
  want = call(lambda: c(*a, **k).r)
  x = None

  def make():
    nonlocal x
    x = w(*a, **k)
    return x.r
  got = call(make)
  allok &= rec.case(f'class-wrapper.construct{vtag}/{_vs(want, got)}',
                    key, ok=agree(want, got),
                    message=f'__init__(self, {s.params}): C({argsrc}).r -> {want!r}; W({argsrc}).r -> {got!r}',
                    witness=_witness(prelude, 'import bounded.c18_functor as m\n'
                                     f'assert m.agree(m.call(lambda: F({argsrc}).r), m.call(lambda: W({argsrc}).r))\n'))
  if x is None or want[0] != 'ok' or not agree(want, got):
    return allok
  allok &= rec.case('class-wrapper.isinstance-of-original', key,
                    ok=isinstance(x, c) and isinstance(x, w), message=f'{type(x)}',
                    witness=_witness(prelude, f'assert isinstance(W({argsrc}), F)\n'))
  exp = expected_init_args(c.__init__, s, (None,) + a, k)
  exp.pop('self', None)
  try:
    repd = init_args_of(x)
  except Exception as e:  # pylint: disable=broad-except
    repd = f'{type(e).__name__}: {e}'
  allok &= rec.case(f'class-wrapper.sym_init_args[{s.features()}]{vtag}', key, ok=same_init_args(repd, exp),
                    message=f'{s.params}: W({argsrc}).sym_init_args = {repd!r}, want {exp!r}',
                    witness=_witness(prelude, 'import bounded.c18_functor as m\n'
                                     f'e = m.expected_init_args(F.__init__, None, *m.ak(None, {argsrc})); e.pop("self")\n'
                                     f'assert m.same_init_args(m.init_args_of(W({argsrc})), e)\n'))
  for name, src in _roundtrips(x):
    got2 = call(lambda: eval(src, {'x': x, 'pg': pg}).r)  # pylint: disable=eval-used
    allok &= rec.case(f'class-wrapper.{name}{vtag}/{_vs(want, got2)}',
                      key, ok=agree(want, got2),
                      message=f'{s.params}: ({src}).r of W({argsrc}) -> {got2!r}, want {want!r}',
                      witness=_witness(prelude, 'import bounded.c18_functor as m\n'
                                       f'x = W({argsrc})\nassert m.agree(m.call(lambda: F({argsrc}).r), m.call(lambda: ({src}).r))\n'))
  # late binding: keyword half at partial(), other half through rebind().
  if not a and len(k) >= 2 and j % 2 == 0:
    names = list(k)
    k1 = {n: k[n] for n in names[::2]}
    k2 = {n: k[n] for n in names[1::2]}

    def late():
      y = w.partial(**k1)
      y.rebind(**k2)
      return y.r
    got3 = call(late)
    # Required arguments must all be present after the rebind for __init__ to run.
    allok &= rec.case(
        f'class-wrapper.partial+rebind{vtag}/{_vs(want, got3)}',
        key, ok=agree(want, got3),
        message=f'{s.params}: W.partial({_fmt_call((), k1)}).rebind({_fmt_call((), k2)}).r -> {got3!r}, want {want!r}',
        witness=_witness(prelude, 'import bounded.c18_functor as m\n'
                         f'y = W.partial({_fmt_call((), k1)}); y.rebind({_fmt_call((), k2)})\n'
                         f'assert m.agree(m.call(lambda: F({argsrc}).r), m.call(lambda: y.r))\n'))
  # one rebind whose paths mix an edit inside a bound container value with a whole argument.
  slots = [s.pos[i] for i in range(min(len(a), s.n))] + [n for n in k if n in s.names]
  if vtag == '' and not int_values_only(kind) and len(slots) >= 2 and j % 2 == 0:
    cn, on = slots[(j // 2) % len(slots)], slots[(j // 2 + 1) % len(slots)]

    def with_values(vals):
      a5, k5 = list(a), dict(k)
      for n, v in vals.items():
        if n in k5:
          k5[n] = v
        else:
          a5[s.pos.index(n)] = v
      return tuple(a5), k5
    a5, k5 = with_values({cn: {'x': 1, 'y': [2, 3]}})
    a6, k6 = with_values({cn: {'x': 1, 'y': [91, 3]}, on: 92})
    want5 = call(lambda: c(*a6, **k6).r)
    for order, batch in (('edit-inside-first', {f'{cn}.y[0]': 91, on: 92}),
                         ('whole-argument-first', {on: 92, f'{cn}.y[0]': 91})):
      def mixed(batch=batch):
        y = w(*a5, **k5)
        y.rebind(batch)
        return y.r
      got5 = call(mixed)
      allok &= rec.case(
          f'class-wrapper.rebind-mixed-paths/{_vs(want5, got5)}', key + (order,), ok=agree(want5, got5),
          message=f'{s.params}: y = W({_fmt_call(a5, k5)}); y.rebind({batch!r}); y.r -> {got5!r}, want {want5!r}',
          witness=_witness(prelude, 'import bounded.c18_functor as m\n'
                           f'y = W({_fmt_call(a5, k5)}); y.rebind({batch!r})\n'
                           f'assert m.agree(m.call(lambda: F({_fmt_call(a6, k6)}).r), m.call(lambda: y.r))\n'))
  # an argument bound later: one keyword argument is given a new value after construction.
  if k and j % 2 == 1:
    nm = list(k)[j % len(k)]
    nv = 777 if vtag == '' else k[nm]
    k3 = dict(k, **{nm: 555})
    want4 = call(lambda: c(*a, **dict(k, **{nm: nv})).r)

    def rebound():
      y = w(*a, **k3)
      y.rebind(**{nm: nv})
      return y.r
    got4 = call(rebound)
    allok &= rec.case(
        f'class-wrapper.rebind-after-construct{vtag}/{_vs(want4, got4)}', key, ok=agree(want4, got4),
        message=f'{s.params}: y = W({_fmt_call(a, k3)}); y.rebind({nm}={nv!r}); y.r -> {got4!r}, want {want4!r}',
        witness=_witness(prelude, 'import bounded.c18_functor as m\n'
                         f'y = W({_fmt_call(a, k3)}); y.rebind({nm}={nv!r})\n'
                         f'assert m.agree(m.call(lambda: F({_fmt_call(a, dict(k, **{nm: nv}))}).r), m.call(lambda: y.r))\n'))
  return allok


# ---------------------------------------------------------------------------
# Histories: arguments bound, re-bound and un-bound after construction.
# ---------------------------------------------------------------------------

def _container(r, v):
  """A JSON-able container value built from the int v (one of three shapes)."""
  return [{'x': v, 'y': [v + 1, v + 2]}, [v, {'p': v + 1}], {'x': {'q': v}, 'w': v + 3}][r.randrange(3)]


def _edit_points(value, suffix='', steps=()):
  """[(path suffix, steps)]: every leaf inside a container, and one new key per dict."""
  out = []
  if isinstance(value, dict):
    for k, v in value.items():
      out += _edit_points(v, f'{suffix}.{k}', steps + (k,))
    out.append((f'{suffix}.n', steps + ('n',)))
  elif isinstance(value, list):
    for i, v in enumerate(value):
      out += _edit_points(v, f'{suffix}[{i}]', steps + (i,))
  elif steps:
    out.append((suffix, steps))
  return out


def _edited(value, steps, v):
  """A deep copy of container `value` with the place `steps` set to v."""
  value = copy.deepcopy(value)
  at = value
  for st in steps[:-1]:
    at = at[st]
  at[steps[-1]] = v
  return value


def _gen_history(r, s, kind):
  """A seeded history and the bound state Python semantics give it.

  Returns dict(lines, named, extras, varargs, ambiguous, ops, late=(a2, k2, override)).
  `ambiguous`: names assigned (after construction) a value equal to their
  default -- whether such a name counts as explicitly bound is not specified.

  Operations: rebind(**several), attribute assignment, del, an edit *inside* a
  bound container value (`x.a.y[0] = v`), and rebind({path: value, ...}) whose
  paths mix edits inside bound values with whole arguments in a seeded order.
  """
  ints_only = int_values_only(kind)
  pool = s.names + (['z'] if s.vk else [])

  def maybe_container(v):
    return _container(r, v) if (not ints_only and r.random() < 0.25) else v
  p1 = r.randrange(s.n + 1) if r.random() < 0.5 else 0
  a1 = tuple(maybe_container(100 + i) for i in range(p1))
  if s.va and p1 == s.n and r.random() < 0.3:
    a1 += (maybe_container(150), 151)
  k1 = {n: maybe_container(110 + t) for t, n in enumerate(pool) if n not in s.pos[:p1] and r.random() < 0.4}
  named = dict(zip(s.pos, a1[:s.n]))
  named.update({n: v for n, v in k1.items() if n != 'z'})
  extras = {n: v for n, v in k1.items() if n == 'z'}
  varargs = list(a1[s.n:]) or None
  amb = set()
  ctor_override = r.random() < 0.3
  lines = [f'x = W({(_fmt_call(a1, k1) + (", override_args=True" if ctor_override else "")).lstrip(", ")})']
  ops = []

  def value(n, t, idx):
    v = 200 + 10 * t + idx
    if r.random() < 0.35:
      cls = r.choice(('None', 'falsy', 'default-equal'))
      if cls == 'default-equal' and n in s.defaults:
        v = s.defaults[n]
      elif cls == 'falsy':
        v = 0 if ints_only else r.choice(FALSY)
      elif cls == 'None' and not ints_only:
        v = None
    elif not ints_only and r.random() < 0.2:
      v = _container(r, v)
    return v, (n in s.defaults and same(v, s.defaults[n]))

  def assign_whole(upd, n, t, idx):
    nonlocal varargs
    if n == 'args':
      upd[n] = [300 + 10 * t, 301 + 10 * t]
      varargs = list(upd[n])
      return
    v, is_default = value(n, t, idx)
    upd[n] = v
    (extras if n == 'z' else named)[n] = v
    (amb.add if is_default else amb.discard)(n)

  def assign_inside(n, steps, v):
    nonlocal varargs
    if n == 'args':
      varargs = _edited(varargs, steps, v)
    elif n in named:
      named[n] = _edited(named[n], steps, v)
    else:
      extras[n] = _edited(extras[n], steps, v)

  for t in range(r.choice((1, 1, 2, 2, 3))):
    op = r.choice(('rebind', 'setattr', 'del', 'del', 'rebind-paths', 'nested-assign'))
    if op in ('rebind-paths', 'nested-assign'):
      holders = list(named.items()) + list(extras.items()) + ([('args', varargs)] if varargs else [])
      points = [(n, sfx, st) for n, val in holders for sfx, st in _edit_points(val)]
      if not points:
        op = 'rebind' if op == 'rebind-paths' else 'setattr'
      elif op == 'nested-assign':
        n, sfx, st = r.choice(points)
        v = 500 + 10 * t
        lines.append(f'x.{n}{sfx} = {v!r}')
        assign_inside(n, st, v)
        ops.append('nested')
        continue
      else:
        inside = r.sample(points, min(len(points), r.choice((1, 1, 2))))
        touched = {n for n, _, _ in inside}
        tops = [n for n in pool + (['args'] if s.va and r.random() < 0.3 else []) if n not in touched]
        tops = r.sample(tops, min(len(tops), r.choice((0, 1, 1, 2))))
        entries = [('in', e) for e in inside] + [('top', n) for n in tops]
        r.shuffle(entries)
        upd = {}
        for idx, (what, e) in enumerate(entries):
          if what == 'in':
            n, sfx, st = e
            upd[n + sfx] = 500 + 10 * t + idx
            assign_inside(n, st, upd[n + sfx])
          else:
            assign_whole(upd, e, t, idx)
        lines.append('x.rebind({' + ', '.join(f'{k!r}: {v!r}' for k, v in upd.items()) + '})')
        ops.append('mixed-batch' if tops else 'nested')
        continue
    if op == 'del':
      cands = sorted(named) + sorted(extras) + (['args'] if varargs else [])
      if not cands:
        op = 'setattr'
      else:
        n = r.choice(cands)
        lines.append(f'del x.{n}')
        ops.append('del')
        named.pop(n, None)
        extras.pop(n, None)
        if n == 'args':
          varargs = None
        amb.discard(n)
        continue
    targets = list(pool) + (['args'] if s.va and r.random() < 0.3 else [])
    if not targets:
      continue
    if op == 'setattr':
      chosen = [r.choice(targets)]
    else:
      chosen = [n for n in targets if r.random() < 0.4] or [r.choice(targets)]
    upd = {}
    for idx, n in enumerate(chosen):
      assign_whole(upd, n, t, idx)
    ops.append(op)
    if op == 'setattr':
      lines += [f'x.{n} = {v!r}' for n, v in upd.items()]
    else:
      lines.append(f'x.rebind({_fmt_call((), upd)})')
  # late call
  p2 = r.choice((0, 0, 1, 2))
  p2 = min(p2, s.n + (1 if s.va else 0))
  a2 = tuple(400 + i for i in range(p2))
  k2 = {n: 410 + t for t, n in enumerate(pool + ['y']) if r.random() < 0.3}
  if not ints_only and k2 and r.random() < 0.3:
    k2[r.choice(sorted(k2))] = None
  override = r.random() < 0.5
  return dict(lines=lines, named=named, extras=extras, varargs=varargs, ambiguous=amb,
              ops=[o for o in ('rebind', 'setattr', 'nested', 'mixed-batch', 'del') if o in ops],
              late=(a2, k2, override), ctor_override=ctor_override)


def _op_class(s, line):
  """Class of one history statement (all of them are legal ways of (un)binding arguments)."""
  if line.startswith('x = '):
    return 'construct'
  if line.startswith('del '):
    n = line[6:]
    return 'del-' + ('varargs' if n == 'args' else 'named-argument' if n in s.names else 'extra-keyword')
  if line.startswith('x.rebind({'):
    return 'rebind-paths'
  if re.match(r'x\.\w+[.\[][^=]*= ', line):
    return 'edit-inside-bound-value'
  return ('rebind' if '.rebind(' in line else 'setattr') + ('-varargs' if 'args' in line else '')


def _history_case(rec, s, kind, f, w, prelude, h, deep):
  lines, named, extras, varargs, amb = h['lines'], h['named'], h['extras'], h['varargs'], h['ambiguous']
  opname = '+'.join((['assign'] if set(h['ops']) & {'rebind', 'setattr'} else [])
                    + (['nested-edit'] if 'nested' in h['ops'] else [])
                    + (['mixed-batch'] if 'mixed-batch' in h['ops'] else [])
                    + (['del'] if 'del' in h['ops'] else []))
  body = '\n'.join(lines) + '\n'
  key = (s.id, kind, tuple(lines))
  hist = '; '.join(lines)
  ns = {'W': w}
  for line in lines:
    try:
      exec(line, ns)  # pylint: disable=exec-used
    except Exception as e:  # pylint: disable=broad-except
      rec.case(f'functor.history/{_op_class(s, line)}-raises-{type(e).__name__}', key, ok=False,
               message=f'{s.params}: {hist}: `{line}` raised {type(e).__name__}: {e}',
               witness=_witness(prelude, body))
      return
  x = ns['x']
  wit = lambda tail: _witness(prelude, 'import bounded.c18_functor as m\n' + body + tail)
  # (a) what the functor reports.
  exp_spec = set(named) | set(extras) | ({'args'} if varargs else set())
  try:
    got_spec = set(x.specified_args)
  except Exception as e:  # pylint: disable=broad-except
    got_spec = f'{type(e).__name__}: {e}'
  rec.case(f'functor.specified_args/after[{opname}]', key,
           ok=isinstance(got_spec, set) and got_spec - amb == exp_spec - amb,
           message=f'{s.params}: {hist}; x.specified_args = {got_spec!r}, bound per history: {sorted(exp_spec)!r}',
           witness=wit(f'assert set(x.specified_args) - {amb!r} == {exp_spec - amb!r}, x.specified_args\n'))
  exp_args = {}
  for nm in s.names:
    exp_args[nm] = named[nm] if nm in named else s.defaults.get(nm, pg.MISSING_VALUE)
  if s.va:
    exp_args['args'] = list(varargs or [])
  exp_args.update(extras)
  try:
    rep = init_args_of(x)
  except Exception as e:  # pylint: disable=broad-except
    rep = f'{type(e).__name__}: {e}'
  shown = {k: ('MISSING' if v is pg.MISSING_VALUE else v) for k, v in exp_args.items()}
  rec.case(f'functor.sym_init_args/after[{opname}]', key, ok=same_init_args(rep, exp_args),
           message=f'{s.params}: {hist}; x.sym_init_args = {rep!r}, want {shown!r}',
           witness=wit(f'e = {shown!r}\n'
                       "e = {k: (pg.MISSING_VALUE if v == 'MISSING' else v) for k, v in e.items()}\n"
                       'assert m.same_init_args(m.init_args_of(x), e), x.sym_init_args\n'))
  # (b) called with nothing.
  want = merge_call(f, s, named, extras, varargs, (), {}, False)
  ok0 = True
  if want is not None:
    got = call(x)
    ok0 = rec.case(f'functor.late-binding[{opname}]/{_vs(want, got)}', key, ok=agree(want, got),
                   message=f'{s.params}: {hist}; x() -> {got!r}; Python semantics -> {want!r}',
                   witness=wit(f'got = m.call(x)\nassert m.agree({want!r}, got), got\n'))
  # (c) called with late arguments.
  a2, k2, override = h['late']
  late_names = set(k2) | set(s.pos[:len(a2)])
  judged = override or h['ctor_override'] or not (late_names & amb)
  eff_override = override or h['ctor_override']
  want2 = merge_call(f, s, named, extras, varargs, a2, k2, eff_override) if judged else None
  what = 'override' if eff_override else 'no-override'
  dsrc = (_fmt_call(a2, k2) + (', override_args=True' if override else '')).lstrip(', ')
  kw2 = dict(k2, **({'override_args': True} if override else {}))
  ok2 = True
  if want2 is not None and (a2 or k2):
    got2 = call(lambda: x(*a2, **kw2))
    ok2 = rec.case(f'functor.late-binding[{opname}]+late-call[{what}]/{_vs(want2, got2)}', key,
                   ok=agree(want2, got2),
                   message=f'{s.params}: {hist}; x({dsrc}) -> {got2!r}; Python semantics -> {want2!r}',
                   witness=wit(f'got = m.call(lambda: x({dsrc}))\nassert m.agree({want2!r}, got), got\n'))
  if not deep:
    return
  # (d) copies describe the same bound state.
  for name, src in _roundtrips(x):
    try:
      y = eval(src, {'x': x, 'pg': pg})  # pylint: disable=eval-used
    except Exception as e:  # pylint: disable=broad-except
      rec.case(f'functor.late-binding[{opname}].{name}/copy-raises-{type(e).__name__}', key, ok=False,
               message=f'{s.params}: {hist}; {src}: {type(e).__name__}: {e}',
               witness=wit(f'{src}\n'))
      continue
    if 'clone' in name:
      try:
        ys = set(y.specified_args)
      except Exception as e:  # pylint: disable=broad-except
        ys = f'{type(e).__name__}: {e}'
      rec.case(f'functor.specified_args/{name}-after[{opname}]', key,
               ok=isinstance(ys, set) and ys - amb == exp_spec - amb,
               message=f'{s.params}: {hist}; ({src}).specified_args = {ys!r}, bound per history: {sorted(exp_spec)!r}',
               witness=wit(f'assert set(({src}).specified_args) - {amb!r} == {exp_spec - amb!r}\n'))
    if want is not None and ok0:
      got = call(y)
      rec.case(f'functor.late-binding[{opname}].{name}/{_vs(want, got)}', key, ok=agree(want, got),
               message=f'{s.params}: {hist}; ({src})() -> {got!r}; want {want!r}',
               witness=wit(f'got = m.call({src})\nassert m.agree({want!r}, got), got\n'))
    if want2 is not None and ok2 and (a2 or k2):
      kw3 = dict(kw2)
      d3 = dsrc
      if h['ctor_override'] and name.startswith('json') and not override:
        kw3['override_args'] = True          # a construction flag is not an argument
        d3 = (dsrc + ', override_args=True').lstrip(', ')
      got = call(lambda: y(*a2, **kw3))
      rec.case(f'functor.two-stage.{name}[{what}]/{_vs(want2, got)}', key, ok=agree(want2, got),
               message=f'{s.params}: {hist}; ({src})({d3}) -> {got!r}; want {want2!r}',
               witness=wit(f'got = m.call(lambda: ({src})({d3}))\nassert m.agree({want2!r}, got), got\n'))


def drv_functor_late_binding(tier, seed):
  quick = tier == 'quick'
  nh = 10 if quick else 100
  rec = Recorder(
      'C18', 'functors: arguments bound, re-bound and un-bound after construction',
      scope=('240 signatures (+ ' + ('30 seeded' if quick else 'all 384') + ' with None / falsy '
             'defaults), one way of symbolizing each (function wrappers and subclassed functors, '
             'rotated by seed); history = construction with 0..n positionals (+ *args) and a keyword '
             'subset (+ an extra keyword), then 1..3 operations from rebind(**several) / attribute '
             'assignment / del of a bound name (incl. *args and extra keywords) / assignment to a place '
             'inside a bound dict/list value or inside *args / rebind({path: value}) mixing such inner '
             'paths with whole arguments in seeded order, values distinct ints '
             'or None / falsy / equal-to-default / nested dict-list containers; then: specified_args and sym_init_args vs the '
             'names/values bound per history (del -> unbound -> default), call with nothing, call '
             'with 0..2 late positionals + keyword subset with/without override (late value for a '
             'bound name is an error without override, for an un-bound name it is not), and the same '
             'on clone / deep clone / JSON copies; ' + str(nh) + ' seeded histories per signature; '
             'also calls under pg.enable_type_check(False), and an argument bound by rebind under '
             'pg.notify_on_change(False) (2 per signature)'))
  r = rng(seed, 'c18-late')
  fl = flavored_sigs()
  if quick:
    fl = _pick(fl, r, 30)
  todo = [(i, sig, pick_kind(i, seed, sig, shift=1)) for i, sig in enumerate(all_sigs())]
  todo += [(i, sig, pick_kind(i, seed, sig, kinds=UNTYPED_FUNCTOR_KINDS)) for i, sig in enumerate(fl)]
  for i, sig, kind in todo:
    s = sig_for(sig, kind)
    hs = [_gen_history(r, s, kind) for _ in range(nh)] if (s.names or s.vk or s.va) else []
    unchecked_calls = []
    for j in range(0, nh, 3):
      unchecked_calls.append(mk_args(r.randrange(s.n + 1), [n for n in s.names[s.n:] if r.random() < 0.7]
                                     + (['z'] if r.random() < 0.3 else []), 10))

    # An argument bound later while change notification is switched off.
    quiet = []
    for nm in _pick(s.names + (['z'] if s.vk else []), r, 2):
      k1 = {n: 110 + t for t, n in enumerate(s.names) if n != nm and (n not in s.defaults or r.random() < 0.3)}
      quiet.append((k1, nm, 777))

    def routine_quiet(rc, s_, kind_, f, w, prelude, quiet=quiet):
      for k1, nm, v in quiet:
        named = dict(k1, **({nm: v} if nm != 'z' else {}))
        want = merge_call(f, s_, named, {nm: v} if nm == 'z' else {}, None, (), {}, False)
        if want is None:
          continue
        body = (f'x = W({_fmt_call((), k1)})\nwith pg.notify_on_change(False):\n'
                f'  x.rebind({nm}={v!r})\n')

        def quiet_rebind(body=body):
          env = {'W': w, 'pg': pg}
          exec(body, env)  # pylint: disable=exec-used
          return env['x']()
        got = call(quiet_rebind)
        rc.case('functor.late-binding-under-notify_on_change(False)',
                (s_.id, kind_, tuple(k1), nm), ok=agree(want, got),
                message=(f'{s_.params}: x = W({_fmt_call((), k1)}); with pg.notify_on_change(False): '
                         f'x.rebind({nm}={v!r}); x() -> {got!r}; Python semantics -> {want!r}'),
                witness=_witness(prelude, 'import bounded.c18_functor as m\n' + body
                                 + f'got = m.call(x)\nassert m.agree({want!r}, got), got\n'))
    run_routine(rec, sig, kind, routine_quiet)

    def routine(rc, s_, kind_, f, w, prelude, hs=hs, unchecked_calls=unchecked_calls):
      for j, h in enumerate(hs):
        _history_case(rc, s_, kind_, f, w, prelude, h, deep=(j % 3 == 0))
      for a, k in unchecked_calls:
        want = call(f, *a, **k)
        argsrc = _fmt_call(a, k)

        def unchecked():
          with pg.enable_type_check(False):
            return w()(*a, **k)
        got = call(unchecked)
        rc.case(f'functor.call-under-enable_type_check(False)/{_vs(want, got)}',
                (s_.id, kind_, a, tuple(k)), ok=agree(want, got),
                message=f'{s_.params}: with pg.enable_type_check(False): W()({argsrc}) -> {got!r}; f({argsrc}) -> {want!r}',
                witness=_witness(prelude, 'import bounded.c18_functor as m\n'
                                 'with pg.enable_type_check(False):\n'
                                 f'  got = m.call(lambda: W()({argsrc}))\n'
                                 f'assert m.agree(m.call(F, {argsrc}), got), got\n'))
    run_routine(rec, sig, kind, routine)
  return rec.result()


# ---------------------------------------------------------------------------
# Argument values of every kind through every copy; re-entrant calls.
# ---------------------------------------------------------------------------

ARG_VALUES = [
    ('None', None), ('bool', True), ('zero', 0), ('int', 7), ('float', 1.5), ('empty-str', ''),
    ('str', 'x y'), ('empty-tuple', ()), ('tuple', (1, 2)), ('nested-tuple', (1, (2, (3,)))),
    ('empty-list', []), ('list', [1, 2]), ('empty-dict', {}), ('dict', {'k': 1}),
    ('nested', {'k': [1, (2, None)], 'l': []}),
]

_REC_SRC = {
    'function': ('def g_{t}(n, tag="t"):\n'
                 '  if n == 0: return (tag,)\n'
                 '  sub = {call}(n - 1, tag + "x"{ov})\n'
                 '  return (sub, n, tag)\n'),
    'subclass': ('class G_{t}(pg.Functor):\n'
                 '  n: Any\n'
                 '  tag: Any = "t"\n'
                 '  def _call(self):\n'
                 '    if self.n == 0: return (self.tag,)\n'
                 '    sub = self(self.n - 1, self.tag + "x", override_args=True)\n'
                 '    return (sub, self.n, self.tag)\n'),
}


def _reentrant_prelude(kind):
  t = ''.join(ch for ch in kind if ch.isalnum())
  head = ('import pyglove as pg, sys, types, typing\n'
          f"m_ = sys.modules.setdefault('{MOD}', types.ModuleType('{MOD}'))\n"
          f"ns_ = {{'__name__': '{MOD}', 'pg': pg, 'Any': typing.Any, 'SELF': [None]}}\n"
          + 'exec(' + repr(_REC_SRC['function'].format(t='py', call='g_py', ov='')) + ', ns_)\n'
          "F = ns_['g_py']\n")
  if kind == 'subclass':
    return head + ('exec(' + repr(_REC_SRC['subclass'].format(t=t)) + ', ns_)\n'
                   f"W = ns_['G_{t}']; m_.__dict__['G_{t}'] = W\n")
  src = _REC_SRC['function'].format(t=t, call='SELF[0]', ov=', override_args=True')
  return head + (f'exec({src!r}, ns_)\n'
                 f"m_.__dict__['g_{t}'] = ns_['g_{t}']\n"
                 f"W = {FN_WRAPPERS[kind].format(f='ns_[' + repr('g_' + t) + ']', spec='[]')}\n")


def drv_functor_values_and_reentrancy(tier, seed):
  del seed
  rec = Recorder(
      'C18', 'functors: argument values of every JSON-able kind through call / clone / JSON; re-entrant calls',
      scope=('f(a, b=-2) as pg.functor, pg.symbolize and the two untyped subclassed functor styles; '
             f'{len(ARG_VALUES)} value kinds (None, bool, 0, int, float, empty/non-empty str, tuple, '
             'list, dict, nested) given positionally or by keyword, at construction or at call time, '
             'then called directly and through clone / deep clone / JSON copies; a self-recursive '
             'callable (depth 0..3) whose symbolic form calls the same functor object again with '
             'overriding arguments, arguments bound at construction / supplied at call time / mixed, '
             'and a following ordinary call'))
  sig = Sig(2, 1, False, (), False)
  plain_fail = set()
  for kind in ('pg.functor', 'pg.symbolize', 'subclass(annotations)', 'subclass(pg.members)'):
    built = try_build(rec, sig, kind)
    if built is None:
      continue
    f, w, prelude = built
    for label, v in ARG_VALUES:
      for how, a, k in (('positional', (v,), {}), ('keyword', (1,), {'b': v})):
        argsrc = _fmt_call(a, k)
        want = call(f, *a, **k)
        runs = [('supplied-at-call-time', f'W()({argsrc})')]
        runs.append(('bound-at-construction', f'W({argsrc})()'))
        runs += [(name, f'(lambda x: {src})(W({argsrc}))()') for name, src in _roundtrips(None)]
        for op, expr in runs:
          got = call(lambda: eval(expr, {'W': w, 'pg': pg}))  # pylint: disable=eval-used
          cid = f'functor.{op}/argument-value:{label}/{_vs(want, got)}'
          ok = agree(want, got)
          if not ok:
            if kind in SUBCLASS_KINDS and cid not in plain_fail:
              cid = 'subclassed-' + cid
            else:
              plain_fail.add(cid)
          rec.case(cid, (kind, label, how, op), ok=ok,
                   message=f'{kind}: f({argsrc}) -> {want!r}; {expr} -> {got!r}',
                   witness=_witness(prelude, 'import bounded.c18_functor as m\n'
                                    f'assert m.agree(m.call(F, {argsrc}), m.call(lambda: {expr}))\n'))
  plain_fail = set()
  for kind in ('pg.functor', 'pg.symbolize', 'functor_class', 'subclass'):
    prelude = _reentrant_prelude(kind)
    ns = {}
    try:
      exec(prelude, ns)  # pylint: disable=exec-used
    except Exception as e:  # pylint: disable=broad-except
      rec.case(f'functor.symbolizing-a-valid-callable-fails/recursive[{kind}]', (kind,), ok=False,
               message=f'{type(e).__name__}: {e}', witness=prelude)
      continue
    f, w = ns['F'], ns['W']
    for depth in range(4):
      for mode, csrc, dsrc in (('bound-at-construction', f'{depth}', ''),
                               ('supplied-at-call-time', '', f'{depth}'),
                               ('mixed', "tag='q'", f'{depth}')):
        want = call(f, depth, **({'tag': 'q'} if mode == 'mixed' else {}))
        body = f'x = W({csrc}); ns_["SELF"][0] = x\n'
        env = {'W': w, 'ns_': ns['ns_']}
        exec(body, env)  # pylint: disable=exec-used
        x = env['x']
        for nth in ('', 'repeated-'):
          got = call(lambda: eval(f'x({dsrc})', {'x': x}))  # pylint: disable=eval-used
          cls = 'depth=0' if depth == 0 else 'depth>0'
          cid = f'functor.{nth}reentrant-call[{cls}]/{_vs(want, got)}'
          ok = agree(want, got)
          if not ok:
            if kind == 'subclass' and cid not in plain_fail:
              cid = 'subclassed-' + cid
            else:
              plain_fail.add(cid)
          rec.case(cid, (kind, depth, mode, nth), ok=ok,
                   message=(f'{kind}: g(n, tag="t") calls itself with (n - 1, tag + "x"); x = W({csrc}); '
                            f'{nth}x({dsrc}) -> {got!r}; plain recursion -> {want!r}'),
                   witness=prelude + 'import bounded.c18_functor as m\n' + body
                   + (f'm.call(lambda: x({dsrc}))\n' if nth else '')
                   + f'got = m.call(lambda: x({dsrc}))\nassert m.agree({want!r}, got), got\n')
          if not ok:
            break
  return rec.result()


# ---------------------------------------------------------------------------
# Keywords that are not named parameters; positional-only parameters.
# ---------------------------------------------------------------------------

def _sigclass(s):
  return ','.join((['*args'] if s.va else []) + (['**kw'] if s.vk else [])) or 'neither'


def _valid_shape(s, r):
  """(a, k) of a call that supplies every required parameter (so Python accepts it)."""
  p = r.randrange(s.npo, s.n + 1)
  a = tuple(10 + i for i in range(p))
  if s.va and p == s.n and r.random() < 0.4:
    a += (18, 19)
  k = {nm: 100 + t for t, nm in enumerate(s.names) if nm not in s.pos[:p]
       and (nm not in s.defaults or r.random() < 0.5)}
  return a, k


COLLISION_VALUES = ([71, 72], 77, (73,), [], None)


def _keyword_collisions(rec, s, kind, f, w, prelude, plan):
  """plan: [(special keyword name, a, k, value)]; f(*a, **k) alone is a valid call."""
  is_cls = kind in CLS_WRAPPERS
  fam = 'class-wrapper' if is_cls else 'functor'
  for name, a, k, v in plan:
    what = {'args': 'varargs', 'kw': 'varkw'}[name]
    base, extra = _fmt_call(a, k), f'{name}={v!r}'
    both = (base + ', ' + extra).lstrip(', ')
    kx = dict(k, **{name: v})
    # W(..., args=[...]) is the symbolic spelling of binding *args (a JSON copy is restored that
    # way): it is not a Python call and is not judged here.
    if is_cls:
      runs = [('construct', call(lambda: f(*a, **kx).r), lambda: w(*a, **kx).r, f'W({both}).r')]
      if name == 'args' and s.va:
        runs = []
    else:
      direct = call(f, *a, **kx)
      runs = [('call-time', direct, lambda: w()(*a, **kx), f'W()({both})'),
              ('bound+call-time', reference_two_stage(f, s, a, k, (), {name: v}, False)[1],
               lambda: w(*a, **k)(**{name: v}), f'W({base})({extra})'),
              ('bound+call-time[override]', reference_two_stage(f, s, a, k, (), {name: v}, True)[1],
               lambda: w(*a, **k)(**{name: v}, override_args=True), f'W({base})({extra}, override_args=True)')]
      if not (name == 'args' and s.va):
        runs.append(('construction', direct, lambda: w(*a, **kx)(), f'W({both})()'))
    for mode, want, thunk, src in runs:
      if want is None:
        continue
      got = call(thunk)
      rec.case(f'{fam}.keyword-named-like-{what}[sig:{_sigclass(s)}]',
               (s.id, kind, mode, a, tuple(k), repr(v)), ok=agree(want, got),
               message=f'{s.params}: {src} -> {got!r}; Python semantics -> {want!r}',
               witness=_witness(prelude, 'import bounded.c18_functor as m\n'
                                f'got = m.call(lambda: {src})\nassert m.agree({want!r}, got), got\n'))


def posonly_sigs():
  out = []
  for n in (1, 2, 3):
    for npo in range(1, n + 1):
      for ndef in range(n + 1):
        for va in (False, True):
          for kwo in ((), (True,)):
            for vk in (False, True):
              out.append(Sig(n, ndef, va, kwo, vk, npo=npo))
  return out


def _posonly_cases(rec, s, kind, f, w, prelude, sh):
  is_cls = kind in CLS_WRAPPERS
  fam = 'class-wrapper' if is_cls else 'functor'
  for p, kws in sh:
    a, k = mk_args(p, kws, 10)
    src = _fmt_call(a, k)
    if is_cls:
      runs = [(call(lambda: f(*a, **k).r), lambda: w(*a, **k).r, f'W({src}).r', f'F({src}).r')]
    else:
      want = call(f, *a, **k)
      runs = [(want, lambda: w()(*a, **k), f'W()({src})', f'F({src})'),
              (want, lambda: w(*a, **k)(), f'W({src})()', f'F({src})')]
      if a:
        # positionals at construction, keywords later
        runs.append((reference_two_stage(f, s, a, {}, (), k, False)[1], lambda: w(*a)(**k),
                     f'W({_fmt_call(a, {})})({_fmt_call((), k)})', f'F({src})'))
    for want, thunk, wsrc, fsrc in runs:
      if want is None:
        continue
      got = call(thunk)
      rec.case(f'{fam}.positional-only-parameters', (s.id, kind, wsrc), ok=agree(want, got),
               message=f'{s.params}: {wsrc} -> {got!r}; {fsrc} -> {want!r}',
               witness=_witness(prelude, 'import bounded.c18_functor as m\n'
                                f'got = m.call(lambda: {wsrc})\nassert m.agree({want!r}, got), got\n'))
  _check_signature(rec, s, kind, f, w, prelude, case_id=f'{fam}.positional-only-parameters')


def drv_keyword_names(tier, seed):
  quick = tier == 'quick'
  rec = Recorder(
      'C18', 'keywords that are not named parameters (the names of *args / **kw); positional-only parameters',
      scope=('240 signatures, one way of symbolizing a function (6 wrappers + 3 subclassed styles, '
             'rotated) and one way of wrapping a class each: a call that Python accepts ('
             + ('2' if quick else '12') + ' seeded per signature and keyword) plus the keyword `args=` / '
             '`kw=` (value: list, int, tuple, [], None), given at call time to an unbound functor, at '
             'call time after binding the rest (with/without override_args), at construction, to the '
             'class constructor; oracle: the same Python call (TypeError without **kw, an entry of kw '
             'with **kw); '
             + ('30 seeded of ' if quick else 'all ') + '192 signatures with 1..3 positional-only '
             'parameters (def f(a, /, ...)) x one function wrapper and one class wrapper: generated '
             '__init__ signature, ' + ('6' if quick else '40') + ' seeded call shapes + every shape '
             'passing a positional-only name by keyword, at call time / construction / split'))
  r = rng(seed, 'c18-kwnames')
  fn_kinds = FUNCTOR_KINDS
  cls_kinds = list(CLS_WRAPPERS)
  per = 2 if quick else 12
  for i, sig in enumerate(all_sigs()):
    kind = pick_kind(i, seed, sig, shift=2)
    if kind in SUBCLASS_KINDS and sig.vk:      # a `_call()` body only reads the extras 'y' and 'z'
      kind = 'pg.functor'
    ckind = cls_kinds[(i + i // len(cls_kinds) + seed + 1) % len(cls_kinds)]
    for kd in (kind, ckind):
      s = sig.typed(is_typed_kind(kd) or 'auto_typing' in kd)
      plan = []
      for name in ('args', 'kw'):
        for j in range(per):
          a, k = _valid_shape(s, r)
          vals = [77] if (int_values_only(kd) and s.vk) else COLLISION_VALUES
          plan.append((name, a, k, vals[(i + j) % len(vals)]))
      if kd in CLS_WRAPPERS:
        built = try_build(rec, s, kd)
        if built is not None:
          _keyword_collisions(rec, s, kd, *built, plan)
      else:
        run_routine(rec, sig, kd, lambda rc, s_, kind_, f, w, prelude, plan=plan:
                    _keyword_collisions(rc, s_, kind_, f, w, prelude, plan))
  po = posonly_sigs()
  if quick:
    po = _pick(po, r, 30)
  fnk = list(FN_WRAPPERS)
  for i, sig in enumerate(po):
    for kd in (fnk[(i + seed) % len(fnk)], cls_kinds[(i + seed) % len(cls_kinds)]):
      s = sig.typed('auto_typing' in kd)
      built = try_build(rec, s, kd)
      if built is None:
        continue
      sh = _pick([x for x in shapes(s) if x[0] <= s.n + 1], r, 6 if quick else 40)
      sh += [(p, tuple(kws)) for p in range(s.n + 1) for kws in
             ([nm for nm in s.names if nm not in s.pos[:p]],
              [nm for nm in s.names if nm not in s.pos[:p] and nm not in s.defaults],
              list(s.names))]
      sh = list(dict.fromkeys(sh))
      _posonly_cases(rec, s, kd, *built, sh)
  return rec.result()


# ---------------------------------------------------------------------------
# Callables that share one code object (or are one object) but differ in what
# lives on the function object: defaults, keyword-only defaults, closure.
# ---------------------------------------------------------------------------

FN_SIBLING_FLAVORS = ('factory-def', 'lambda-in-loop', 'FunctionType-copy', 'defaults-reassigned')
CLS_SIBLING_FLAVORS = ('factory-class', 'init-defaults-reassigned')
SIBLING_FN_KINDS = list(FN_WRAPPERS) + ['as_functor']
N_SIBLINGS = 3


def sibling_defaults(sig, i):
  return {nm: v - 100 * i for nm, v in sig.defaults.items()}


def _sibling_source(sig, flavor):
  """Source defining sib_(i) -> the i-th sibling callable (uses DS_ = per-sibling defaults)."""
  lam = flavor == 'lambda-in-loop'
  params = sig.params_src(lambda nm: f'd_[{nm!r}]', annotated=False if lam else None)
  ret = f'({sig.ret}, free_)'
  posd = [nm for nm in sig.pos if nm in sig.defaults]
  kwd = [nm for nm in sig.kwonly if nm in sig.defaults]
  setd = (f'  g_.__defaults__ = tuple(DS_[i_][n_] for n_ in {posd!r}) or None\n'
          f'  g_.__kwdefaults__ = {{n_: DS_[i_][n_] for n_ in {kwd!r}}} or None\n')
  if flavor in CLS_SIBLING_FLAVORS:
    src = ('def make_(d_, free_):\n  class C_:\n'
           f'    def __init__(self, {params}):\n      self.r = {ret}\n  return C_\n')
    if flavor == 'factory-class':
      return src + 'def sib_(i_):\n  return make_(DS_[i_], i_)\n'
    return (src + 'B_ = make_(DS_[0], 0)\ndef sib_(i_):\n  g_ = B_.__init__\n' + setd + '  return B_\n')
  if lam:
    return (f'LS_ = [(lambda {params}: {ret}) for d_, free_ in zip(DS_, range(len(DS_)))]\n'
            'def sib_(i_):\n  return LS_[i_]\n')
  src = f'def make_(d_, free_):\n  def f_({params}):\n    return {ret}\n  return f_\n'
  if flavor == 'factory-def':
    return src + 'def sib_(i_):\n  return make_(DS_[i_], i_)\n'
  if flavor == 'FunctionType-copy':
    return (src + 'import types\nB_ = make_(DS_[0], 0)\ndef sib_(i_):\n'
            '  if i_ == 0: return B_\n'
            '  g_ = types.FunctionType(B_.__code__, B_.__globals__, B_.__name__, None, B_.__closure__)\n'
            '  g_.__annotations__ = dict(B_.__annotations__); g_.__module__ = B_.__module__\n'
            + setd + '  return g_\n')
  assert flavor == 'defaults-reassigned'
  return src + 'B_ = make_(DS_[0], 0)\ndef sib_(i_):\n  g_ = B_\n' + setd + '  return g_\n'


_SIB_BUILT = {}


def build_siblings(sig, kind, flavor, upto=N_SIBLINGS - 1):
  """Creates and symbolizes siblings 0..upto, in that order; returns [(F_i, W_i)], prelude source.

  The prelude defines FS / WS (lists); for kind 'as_functor' WS holds functor objects.
  For the `*-reassigned` flavors all siblings are one object whose defaults were
  re-assigned before each symbolization: only the last pair is meaningful.
  """
  key = (sig.id, kind, flavor, upto)
  if key in _SIB_BUILT:
    return _SIB_BUILT[key]
  tag = ''.join(ch for ch in kind + flavor if ch.isalnum())
  name = ('C_' if kind in CLS_WRAPPERS else 'f_') + sig.id.replace('~', '_') + '_' + tag
  one_object = flavor.endswith('reassigned')
  if kind == 'as_functor':
    wsrc = 'pg.symbolic.as_functor(g_)'
  else:
    wsrc = (CLS_WRAPPERS if kind in CLS_WRAPPERS else FN_WRAPPERS)[kind].format(f='g_', spec=spec_src(sig))
  ds = [sibling_defaults(sig, i) for i in range(N_SIBLINGS)]
  prelude = (
      'import pyglove as pg, sys, types, typing\n'
      f"m_ = sys.modules.setdefault('{MOD}', types.ModuleType('{MOD}'))\n"
      f"ns_ = {{'__name__': '{MOD}', 'pg': pg, 'Any': typing.Any, 'DS_': {ds!r}}}\n"
      f'exec({_sibling_source(sig, flavor)!r}, ns_)\n'
      'FS, WS = [], []\n'
      f'for i_ in range({upto + 1}):\n'
      "  g_ = ns_['sib_'](i_)\n"
      + (f'  g_.__name__ = g_.__qualname__ = {name!r}\n' if one_object else
         f"  g_.__name__ = g_.__qualname__ = {name!r} + '_s%d' % i_\n")
      + '  m_.__dict__[g_.__name__] = g_\n'
      f'  FS.append(g_); WS.append({wsrc})\n')
  prelude = Prelude(prelude)
  prelude.compact = ('import pyglove as pg, bounded.c18_functor as m\n'
                     f'P_ = m.build_siblings({sig.ctor_src()}, {kind!r}, {flavor!r}, {upto})\n'
                     'FS, WS = [p[0] for p in P_[0]], [p[1] for p in P_[0]]\n')
  ns = {}
  try:
    exec(prelude, ns)  # pylint: disable=exec-used
  except Exception as e:  # pylint: disable=broad-except
    raise BuildError(f'{type(e).__name__}: {e}', prelude) from e
  _SIB_BUILT[key] = (list(zip(ns['FS'], ns['WS'])), prelude)
  return _SIB_BUILT[key]


def _sibling_checks(rec, s, kind, flavor, i, f, w, prelude, sh, json_ok):
  """Sibling i: symbolic form vs the sibling itself (its own defaults and closure)."""
  is_cls = kind in CLS_WRAPPERS
  fam = 'class-wrapper' if is_cls else 'functor'
  base = f'{fam}.callables-sharing-code'
  pre = Prelude(prelude + f'F, W = FS[{i}], WS[{i}]\n')
  pre.compact = prelude.compact + f'F, W = FS[{i}], WS[{i}]\n'
  what = f'sibling {i} ({flavor}) of ({s.params_src(lambda nm: "<" + nm + ">")})'
  if kind != 'as_functor':
    _check_signature(rec, s, kind, f, w, pre, case_id=f'{base}/init-signature')
  for p, kws in sh:
    a, k = mk_args(p, kws, 10)
    src = _fmt_call(a, k)
    key = (s.id, kind, flavor, i, p, kws)
    x = None
    if is_cls:
      want = call(lambda: f(*a, **k).r)

      def make():
        nonlocal x
        x = w(*a, **k)
        return x.r
      runs = [('construct', make, f'W({src}).r', f'F({src}).r')]
    elif kind == 'as_functor':
      want = call(f, *a, **k)
      x = w
      runs = [('supplied-at-call-time', lambda: w(*a, **k), f'W({src})', f'F({src})'),
              ('clone', lambda: w.clone(deep=True)(*a, **k), f'W.clone(deep=True)({src})', f'F({src})')]
    else:
      want = call(f, *a, **k)

      def ctor():
        nonlocal x
        x = w(*a, **k)
        return x()
      runs = [('bound-at-construction', ctor, f'W({src})()', f'F({src})'),
              ('supplied-at-call-time', lambda: w()(*a, **k), f'W()({src})', f'F({src})')]
    allok = True
    for mode, thunk, wsrc, fsrc in runs:
      got = call(thunk)
      allok &= rec.case(f'{base}/{mode}/{_vs(want, got)}', key, ok=agree(want, got),
                        message=f'{what}: {wsrc} -> {got!r}; {fsrc} -> {want!r}',
                        witness=_witness(pre, 'import bounded.c18_functor as m\n'
                                         f'assert m.agree(m.call(lambda: {fsrc}), m.call(lambda: {wsrc}))\n'))
    if x is None or not allok or want[0] != 'ok':
      continue
    if is_cls:
      exp = expected_init_args(f.__init__, s, (None,) + a, k)
      exp.pop('self', None)
      esrc = f'e = m.expected_init_args(F.__init__, None, *m.ak(None, {src})); e.pop("self")\n'
    elif kind == 'as_functor':
      exp = expected_init_args(f, s, (), {})
      esrc = 'e = m.expected_init_args(F, None, (), {})\n'
    else:
      exp = expected_init_args(f, s, a, k)
      esrc = f'e = m.expected_init_args(F, None, *m.ak({src}))\n'
    xsrc = 'W' if kind == 'as_functor' else f'W({src})'
    try:
      rep = init_args_of(x)
    except Exception as e:  # pylint: disable=broad-except
      rep = f'{type(e).__name__}: {e}'
    rec.case(f'{base}/sym_init_args', key, ok=same_init_args(rep, exp),
             message=f'{what}: {xsrc}.sym_init_args = {rep!r}, want {exp!r}',
             witness=_witness(pre, 'import bounded.c18_functor as m\n' + esrc
                              + f'assert m.same_init_args(m.init_args_of({xsrc}), e)\n'))
    if kind == 'as_functor':
      continue
    for name, csrc in _roundtrips(x):
      if name.startswith('json') and not json_ok:
        continue
      tail = '.r' if is_cls else '()'
      got = call(lambda: eval(f'({csrc}){tail}', {'x': x, 'pg': pg}))  # pylint: disable=eval-used
      rec.case(f'{base}/{name}/{_vs(want, got)}', key, ok=agree(want, got),
               message=f'{what}: x = W({src}); ({csrc}){tail} -> {got!r}; want {want!r}',
               witness=_witness(pre, f'import bounded.c18_functor as m\nx = W({src})\n'
                                f'got = m.call(lambda: ({csrc}){tail})\nassert m.agree({want!r}, got), got\n'))


def _sibling_shapes(s, r, limit):
  """Call shapes: only the required parameters (every default is used), all of them, seeded others."""
  req_p = len([nm for nm in s.pos if nm not in s.defaults])
  req_k = tuple(nm for nm in s.kwonly if nm not in s.defaults)
  sh = [(req_p, req_k), (0, tuple(nm for nm in s.names if nm not in s.defaults)),
        (s.n, tuple(s.kwonly))]
  sh += _pick([x for x in shapes(s) if 'z' not in x[1] and x[0] <= s.n + (1 if s.va else 0)], r, limit)
  return list(dict.fromkeys(sh))


def drv_callables_sharing_code(tier, seed):
  quick = tier == 'quick'
  rec = Recorder(
      'C18', 'callables that share a code object (or are one object) but have their own defaults / closure',
      scope=(('48 seeded of the ' if quick else 'all ') + 'signatures with >= 1 default among the 240; '
             f'{N_SIBLINGS} sibling callables per signature with different positional defaults, '
             'keyword-only defaults and closure value, made by: a factory with a nested def, lambdas '
             'in a comprehension, types.FunctionType copies of one code object, one function whose '
             '__defaults__/__kwdefaults__ are re-assigned before it is symbolized again; classes made '
             'by a factory / whose __init__ defaults are re-assigned; all siblings symbolized first '
             '(6 function wrappers + as_functor, 4 class wrappers; '
             + ('one function kind and one class kind' if quick else 'two function kinds and two class kinds')
             + ' per signature, rotated'
             + '), then each compared with its own original: generated __init__ signature, calls '
             'using every default / none / ' + ('4' if quick else '8') + ' seeded shapes at '
             'construction and at call time, sym_init_args, clone / JSON copies; the same function '
             'object symbolized by several wrappers in a row (typed before untyped and back)'))
  r = rng(seed, 'c18-siblings')
  sigs = [s for s in all_sigs() if s.defaults]
  if quick:
    sigs = _pick(sigs, r, 48)
  cls_kinds = list(CLS_WRAPPERS)
  limit = 4 if quick else 8
  for i, sig in enumerate(sigs):
    fk = SIBLING_FN_KINDS[(i + seed) % len(SIBLING_FN_KINDS)]
    ck = cls_kinds[(i + seed) % len(cls_kinds)]
    todo = [(fk, FN_SIBLING_FLAVORS[(i // 2 + seed) % len(FN_SIBLING_FLAVORS)]),
            (ck, CLS_SIBLING_FLAVORS[(i // 3 + seed) % len(CLS_SIBLING_FLAVORS)])]
    if not quick:
      todo += [(SIBLING_FN_KINDS[(i + seed + 3) % len(SIBLING_FN_KINDS)],
                FN_SIBLING_FLAVORS[(i // 2 + seed + 2) % len(FN_SIBLING_FLAVORS)]),
               (cls_kinds[(i + seed + 2) % len(cls_kinds)],
                CLS_SIBLING_FLAVORS[(i // 3 + seed + 1) % len(CLS_SIBLING_FLAVORS)])]
    for kind, flavor in todo:
      s = sig.typed('auto_typing' in kind and flavor != 'lambda-in-loop')
      sh = _sibling_shapes(s, r, limit)
      if flavor.endswith('reassigned'):
        # one object: each symbolic form is judged right after it was made.
        stages = [(u, [u]) for u in range(N_SIBLINGS)]
      else:
        stages = [(N_SIBLINGS - 1, list(range(N_SIBLINGS)))]
      for upto, which in stages:
        try:
          pairs, prelude = build_siblings(s, kind, flavor, upto)
        except BuildError as e:
          rec.case(f'{_family(kind) if kind != "as_functor" else "functor"}.symbolizing-a-valid-callable-fails/{kind}',
                   (s.id, kind, flavor), ok=False, message=f'{s.params} ({flavor}): {e.args[0]}', witness=e.args[1])
          continue
        for j in which:
          _sibling_checks(rec, s, kind, flavor, j, pairs[j][0], pairs[j][1], prelude, sh, json_ok=True)
  # One function object symbolized several times in a row by different wrappers.
  orders = list(itertools.permutations(['pg.functor(auto_typing)', 'pg.functor', 'pg.functor(spec)', 'pg.symbolize'], 3))
  many = _pick(all_sigs(), r, 12 if quick else 120)
  for i, sig in enumerate(many):
    order = orders[(i + seed) % len(orders)]
    s = sig.typed(True)
    src = s.fn_src('g_')
    name = 'f_' + s.id + '_many' + str((i + seed) % len(orders))
    prelude = Prelude(
        'import pyglove as pg, sys, types, typing\n'
        f"m_ = sys.modules.setdefault('{MOD}', types.ModuleType('{MOD}'))\n"
        f"ns_ = {{'__name__': '{MOD}', 'pg': pg, 'Any': typing.Any}}\n"
        f'exec({src!r}, ns_)\ng_ = ns_["g_"]; g_.__name__ = g_.__qualname__ = {name!r}\n'
        'm_.__dict__[g_.__name__] = g_\n'
        'FS, WS = [], []\n'
        + ''.join(f'FS.append(g_); WS.append({FN_WRAPPERS[k].format(f="g_", spec=spec_src(s))})\n' for k in order))
    ns = {}
    try:
      exec(prelude, ns)  # pylint: disable=exec-used
    except Exception as e:  # pylint: disable=broad-except
      rec.case('functor.symbolizing-a-valid-callable-fails/one-callable-many-wrappers', (s.id, order), ok=False,
               message=f'{s.params}: {order}: {type(e).__name__}: {e}', witness=prelude)
      continue
    f = ns['g_']
    for j, kind in enumerate(order):
      w = ns['WS'][j]
      pre = Prelude(prelude + f'F, W = FS[{j}], WS[{j}]\n')
      for t, (p, kws) in enumerate(_sibling_shapes(s, r, 3)):
        a, k = mk_args(p, kws, 10)
        for vtag, a, k in with_value_variants(s, kind, t, a, k, r):
          want = call(f, *a, **k)
          src2 = _fmt_call(a, k)
          for mode, thunk, wsrc in (('bound-at-construction', lambda: w(*a, **k)(), f'W({src2})()'),
                                    ('supplied-at-call-time', lambda: w()(*a, **k), f'W()({src2})')):
            got = call(thunk)
            rec.case(f'functor.one-callable-many-wrappers/{mode}{vtag}/{_vs(want, got)}',
                     (s.id, order, j, p, kws, vtag and src2), ok=agree(want, got),
                     message=(f'{s.params} symbolized by {" then ".join(order)}; wrapper #{j} ({kind}): '
                              f'{wsrc} -> {got!r}; F({src2}) -> {want!r}'),
                     witness=_witness(pre, 'import bounded.c18_functor as m\n'
                                      f'assert m.agree(m.call(F, {src2}), m.call(lambda: {wsrc}))\n'))
  return rec.result()


# ---------------------------------------------------------------------------
# Indirect argument values: references, values inferred from the enclosing
# tree, symbolic values (see the module docstring for the reading of
# "effective argument").
# ---------------------------------------------------------------------------

@pg.members([('v', pg.typing.Any(default=0))])
class RefTarget(pg.Object):
  """A symbolic object used as a (referenced) argument value."""


_PARENT_VALUE = '<value of the same name in the parent>'
# name -> (group, source defining T, how the argument is written for the symbolic form, the
#          effective argument, whether the effective argument has to be the very object T).
INDIRECT_VALUES = {
    'ref:pg.Dict': ('reference', 'T = pg.Dict(w=4)', 'pg.Ref(T)', 'T', True),
    'ref:pg.List': ('reference', 'T = pg.List([1, 2])', 'pg.Ref(T)', 'T', True),
    'ref:pg.Object': ('reference', 'T = m.RefTarget(3)', 'pg.Ref(T)', 'T', True),
    'ref:node-owned-by-another-tree': ('reference', 'P_ = pg.Dict(c=pg.Dict(w=4)); T = P_.c',
                                       'pg.Ref(T)', 'T', True),
    'ref:functor-object': ('reference', 'T = pg.functor(lambda q=1: q)(2)', 'pg.Ref(T)', 'T', True),
    'ref:plain-dict': ('reference', "T = {'w': 4}", 'pg.Ref(T)', 'T', True),
    'ref:plain-list': ('reference', 'T = [1, 2]', 'pg.Ref(T)', 'T', True),
    'ref-inside-dict': ('reference-inside-container', 'T = pg.Dict(w=4)', "{'cfg': pg.Ref(T), 'n': 1}",
                        "{'cfg': T, 'n': 1}", True),
    'ref-inside-list': ('reference-inside-container', 'T = m.RefTarget(3)', '[pg.Ref(T), 1]', '[T, 1]', True),
    'value:pg.Dict': ('symbolic-value', 'T = pg.Dict(w=4, u=[1])', 'T', 'T', False),
    'value:pg.Object': ('symbolic-value', 'T = m.RefTarget([3])', 'T', 'T', False),
    'value:node-owned-by-another-tree': ('symbolic-value', 'P_ = pg.Dict(c=m.RefTarget(5)); T = P_.c',
                                         'T', 'T', False),
    'inferred:from-parent': ('inferred-from-parent', 'T = None', 'pg.symbolic.ValueFromParentChain()',
                             _PARENT_VALUE, False),
}
IND_FN_KINDS = ['pg.functor', 'pg.symbolize', 'functor_class', 'subclass(annotations)',
                'subclass(pg.members)', 'pg.functor(union-spec)']
IND_CLS_KINDS = ['pg.wrap', 'pg.symbolize(class)', 'pg.wrap(union-spec)', 'subclass-of-pg.wrap']


def same_eff(w, g, shared=()):
  """g is the effective argument w: the very object for members of `shared`, else an equal value."""
  if any(w is t for t in shared):
    return g is w
  if isinstance(w, tuple):
    return isinstance(g, tuple) and len(w) == len(g) and all(same_eff(x, y, shared) for x, y in zip(w, g))
  if isinstance(w, list):
    return (isinstance(g, list) and isinstance(w, pg.List) <= isinstance(g, pg.List) and len(w) == len(g)
            and all(same_eff(w[i], g[i], shared) for i in range(len(w))))
  if isinstance(w, dict):
    return (isinstance(g, dict) and isinstance(w, pg.Dict) <= isinstance(g, pg.Dict)
            and set(w.keys()) == set(g.keys()) and all(same_eff(w[k], g[k], shared) for k in w.keys()))
  if isinstance(w, pg.Symbolic):
    return type(g) is type(w) and pg.eq(w, g)
  return same(w, g)


def agree_eff(want, got, shared=()):
  if want[0] == 'ok':
    return got[0] == 'ok' and same_eff(want[1], got[1], shared)
  return agree(want, got)


def _tuple_leaves(v):
  if isinstance(v, tuple):
    for x in v:
      yield from _tuple_leaves(x)
  else:
    yield v


def _eff_outcome(want, got, shared):
  if want[0] == 'ok' and got[0] == 'ok' and not same_eff(want[1], got[1], shared):
    if any(isinstance(l, pg.symbolic.Inferential) for l in _tuple_leaves(got[1])):
      return 'python-ok/got-the-stored-placeholder-instead-of-the-value'
    if same_eff(want[1], got[1], ()):
      return 'python-ok/got-a-copy-of-the-referenced-value'
  return _vs(want, got)


def _slot_name(s, slot):
  how, at = slot
  if how == 'k':
    return at
  return s.pos[at] if at < s.n else f'args[{at - s.n}]'


def _slot_class(s, slot):
  nm = _slot_name(s, slot)
  return 'named' if nm in s.names else ('varargs-element' if nm.startswith('args[') else 'extra-keyword')


def _indirect_shape(s, r, varargs):
  """(a, k) of a call Python accepts; with elements of *args if `varargs`; with an extra keyword if **kw."""
  p = s.n if varargs else r.randrange(s.n + 1)
  a = tuple(10 + i for i in range(p)) + ((18, 19) if varargs else ())
  k = {nm: 100 + t for t, nm in enumerate(s.names) if nm not in s.pos[:p]
       and (nm not in s.defaults or r.random() < 0.6)}
  if s.vk:
    k['z'] = 130
  return a, k


def _indirect_plan(s, kind, r, thorough):
  """[(a, k, slots, vname, alt)]: per call shape one case per slot class, then one with several slots."""
  plan = []
  is_cls = is_class_kind(kind)
  shapes_ = [_indirect_shape(s, r, s.va and r.random() < 0.6) for _ in range(2 if thorough else 1)]
  for a, k in shapes_:
    slots = [('p', i) for i in range(len(a))] + [('k', nm) for nm in k]
    by_class = {}
    for sl in slots:
      by_class.setdefault(_slot_class(s, sl), []).append(sl)

    def vnames(chosen):
      names = [v for v, d in INDIRECT_VALUES.items()
               if not (d[0] == 'inferred-from-parent'
                       and (is_cls or any(_slot_class(s, sl) == 'varargs-element' for sl in chosen)))]
      return r.sample(names, 3) if thorough else [r.choice(names)]
    todo = [[r.choice(v)] for _, v in sorted(by_class.items())]
    if len(slots) >= 2:
      todo.append(sorted(r.sample(slots, r.randrange(2, min(len(slots), 3) + 1))))
    for chosen in todo:
      for vname in vnames(chosen):
        plan.append((a, k, tuple(chosen), vname, r.randrange(2)))
  return plan


def _indirect_snippets(s, kind, a, k, slots, vname, alt):
  """[(mode, mode group, source)]; each source defines `want` and `got` (and T)."""
  group, setup, sym, direct, _ = INDIRECT_VALUES[vname]
  is_cls = is_class_kind(kind)
  inferred = group == 'inferred-from-parent'
  names = [_slot_name(s, sl) for sl in slots]
  has_va = len(a) > s.n
  va_slot = any(nm.startswith('args[') for nm in names)

  def direct_of(nm):
    return str(900 + names.index(nm)) if direct is _PARENT_VALUE else direct

  def args_src(fill):
    """Source of the argument list, the chosen slots written by fill(name)."""
    aa = [repr(v) for v in a]
    kk = {n: repr(v) for n, v in k.items()}
    for (how, at), nm in zip(slots, names):
      if how == 'p':
        aa[at] = fill(nm)
      else:
        kk[at] = fill(nm)
    return aa, kk

  def join(aa, kk):
    return ', '.join(list(aa) + [f'{n}={v}' for n, v in kk.items()])

  def as_keywords(aa, kk):
    return dict(list(zip(s.pos, aa)) + list(kk.items()))
  sa, sk = args_src(lambda nm: sym)
  da, dk = args_src(direct_of)
  pa, pk = args_src(lambda nm: '555')
  inv = (lambda x: f'{x}.r') if is_cls else (lambda x, late='': f'{x}({late})')
  want = f'want = m.call(lambda: {inv("F(" + join(da, dk) + ")") if is_cls else "F(" + join(da, dk) + ")"})\n'
  head = setup + '\n' + want
  if inferred:
    parent = ', '.join(f'{nm}={direct_of(nm)}' for nm in names)
    make = lambda ctor: f'  H = pg.Dict({parent}, x={ctor}); x = H.x\n'
    copy_of = lambda how: f'H.{how}.x'
  else:
    make = lambda ctor: f'  x = {ctor}\n'
    copy_of = lambda how: f'x.{how}'

  def snippet(ctor, ops='', result=None):
    return (head + 'def run_():\n' + make(ctor) + ops + f'  return {result or inv("x")}\n'
            + 'got = m.call(run_)\n')
  out = [('bound-at-construction', 'bound', snippet(f'W({join(sa, sk)})'))]
  # bound later: a whole-argument rebind / an attribute assignment / partial() + rebind().
  sym_kw = {nm: sym for nm in names}
  if not va_slot and not has_va and is_cls and alt:
    rest = {n: v for n, v in as_keywords(pa, pk).items() if n not in names}
    ops = f'  x.rebind({join((), sym_kw)})\n'
    out.append(('partial+rebind', 'bound-later', snippet(f'W.partial({join((), rest)})', ops)))
  elif len(names) == 1 and not va_slot and not is_cls and alt:
    out.append(('attribute-assignment', 'bound-later',
                snippet(f'W({join(pa, pk)})', f'  x.{names[0]} = {sym}\n')))
  else:
    paths = '{' + ', '.join(f'{nm!r}: {sym}' for nm in names) + '}'
    out.append(('rebind', 'bound-later', snippet(f'W({join(pa, pk)})', f'  x.rebind({paths})\n')))
  # the rest of the arguments supplied at call time.
  if not is_cls and not va_slot and not has_va:
    rest = {n: v for n, v in as_keywords(sa, sk).items() if n not in names}
    if rest:
      out.append(('rest-at-call-time', 'bound',
                  snippet(f'W({join((), sym_kw)})', result=inv('x', join((), rest)))))
  # copies.
  ctor = f'W({join(sa, sk)})'
  copies = [('clone', 'clone()'), ('deep-clone', 'clone(deep=True)')]
  for mode, how in copies[alt:alt + 1]:
    out.append((mode, 'copy', snippet(ctor, result=inv(copy_of(how)))))
  if group == 'symbolic-value':
    out.append(('json-roundtrip', 'copy', snippet(ctor, result=inv('pg.from_json(x.to_json())'))))
  # what the symbolic object reports.
  reads, wants = [], []
  for nm in names:
    if nm.startswith('args['):
      reads.append(f"(x.sym_init_args['args']{nm[4:]}, x.sym_inferred('args'){nm[4:]})")
    else:
      reads.append(f'(x.sym_init_args[{nm!r}], x.sym_inferred({nm!r}))')
    wants.append(f'({direct_of(nm)}, {direct_of(nm)})')
  rep = (setup + "\nwant = ('ok', (" + ', '.join(wants) + ',))\n'
         + 'def run_():\n' + make(ctor) + '  return (' + ', '.join(reads) + ',)\ngot = m.call(run_)\n')
  out.append(('reported', 'reported', rep))
  return out


def _wrong_slot_classes(s, want, got, shared):
  """Slot classes of the arguments that differ in a result `("r", *named, args, *kwonly, kw)`; None if unknown."""
  n_items = 1 + s.n + (1 if s.va else 0) + len(s.kwonly) + (1 if s.vk else 0)
  if not (want[0] == got[0] == 'ok' and isinstance(got[1], tuple) and isinstance(want[1], tuple)
          and len(want[1]) == len(got[1]) == n_items):
    return None
  labels = ['-'] + ['named'] * s.n + (['varargs-element'] if s.va else []) + ['named'] * len(s.kwonly) \
      + (['extra-keyword'] if s.vk else [])
  wrong = {lb for lb, x, y in zip(labels, want[1], got[1]) if not same_eff(x, y, shared)}
  return sorted(wrong) if wrong and '-' not in wrong else None


def _indirect_cases(rec, s, kind, f, w, prelude, plan):
  fam = 'class-wrapper' if is_class_kind(kind) else 'functor'
  me = sys.modules[__name__]
  for a, k, slots, vname, alt in plan:
    group, _, _, _, ident = INDIRECT_VALUES[vname]
    classes = sorted({_slot_class(s, sl) for sl in slots})
    call_failed = False
    for mode, mgroup, source in _indirect_snippets(s, kind, a, k, slots, vname, alt):
      if call_failed and mgroup != 'reported':
        continue          # a later binding / a copy of a call that is already wrong says nothing new
      env = {'pg': pg, 'm': me, 'F': f, 'W': w}
      try:
        exec(source, env)  # pylint: disable=exec-used
        want, got = env['want'], env['got']
      except Exception as e:  # pylint: disable=broad-except
        want, got = ('ok', None), ('exc', f'{type(e).__name__} outside the call')
      shared = [env['T']] if ident and 'T' in env else []
      ok = agree_eff(want, got, shared)
      tag, message = '+'.join(classes), ''
      if not ok:
        if mgroup != 'reported':
          call_failed = True
          tag = '+'.join(_wrong_slot_classes(s, want, got, shared) or classes)
        message = (f'{s.params}; {vname} in {[_slot_name(s, sl) for sl in slots]} ({mode}): '
                   f'got {got!r}; the original called with the effective arguments: {want!r}')
      rec.case(f'{fam}.argument-bound-as-{group}/{mgroup}[{tag}]/{_eff_outcome(want, got, shared)}',
               (s.id, kind, vname, mode, a, tuple(k), slots), ok=ok, message=message,
               witness=_witness(prelude, 'import bounded.c18_functor as m\n' + source
                                + f'assert m.agree_eff(want, got, {"[T]" if ident else "[]"}), got\n'))


def drv_indirect_argument_values(tier, seed):
  quick = tier == 'quick'
  rec = Recorder(
      'C18', 'arguments bound as references / inferred from the parent / symbolic values: the callable sees the effective value',
      scope=('240 signatures x one way of symbolizing a function (pg.functor, pg.symbolize, functor_class, '
             '2 untyped subclassed styles, pg.functor with int-or-symbolic value specs) and one way of '
             'wrapping a class (pg.wrap, pg.symbolize, pg.wrap with value specs, a subclass of the '
             'pg.wrap class whose own __init__ forwards to super()), rotated by seed ('
             + ('per signature one of the two families, seeded' if quick else 'two of each per signature') + '); '
             + ('1 seeded call shape' if quick else '2 seeded call shapes') + ' Python accepts (0..n '
             'positionals, elements of *args, keywords, an extra keyword for **kw); per shape one argument '
             'of every slot class (named / element of *args / entry of **kw) and one seeded set of 2..3 '
             f'slots written as one of {len(INDIRECT_VALUES)} indirect values ('
             + ('1 seeded' if quick else '3 seeded') + ' per slot set): pg.Ref of pg.Dict / pg.List / '
             'pg.Object / a node owned by another tree / a functor object / a plain dict / a plain list, a dict or list holding a '
             'pg.Ref, a pg.Dict / pg.Object value without and with a parent, ValueFromParentChain '
             '(functors inside a pg.Dict, not for *args); bound at construction, later (rebind of the '
             'whole argument, attribute assignment, partial + rebind), with the rest supplied at call '
             'time, on clone / deep clone (JSON copy for symbolic values); oracle: the original called '
             'with the effective values (the referenced object itself; the parent value; an equal '
             'symbolic value); also what sym_init_args / sym_inferred report'))
  r = rng(seed, 'c18-indirect')
  for i, sig in enumerate(all_sigs()):
    if not (sig.names or sig.va or sig.vk):
      continue
    fkinds = [pick_kind(i, seed, sig, kinds=IND_FN_KINDS)]
    ckinds = [IND_CLS_KINDS[(i + i // len(IND_CLS_KINDS) + seed) % len(IND_CLS_KINDS)]]
    if quick:
      if r.randrange(2):
        fkinds = []
      else:
        ckinds = []
    else:
      fkinds.append(pick_kind(i, seed, sig, shift=3, kinds=IND_FN_KINDS))
      ckinds.append(IND_CLS_KINDS[(i + i // len(IND_CLS_KINDS) + seed + 2) % len(IND_CLS_KINDS)])
    for kind in fkinds:
      plan = _indirect_plan(sig, kind, r, not quick)
      run_routine(rec, sig, kind, lambda rc, s_, kind_, f, w, prelude, plan=plan:
                  _indirect_cases(rc, s_, kind_, f, w, prelude, plan))
    for kind in ckinds:
      built = try_build(rec, sig, kind)
      if built is not None:
        _indirect_cases(rec, sig, kind, *built, _indirect_plan(sig, kind, r, not quick))
  return rec.result()


DRIVERS = [drv_functor_single_stage, drv_functor_two_stage, drv_functor_late_binding,
           drv_class_wrappers, drv_functor_values_and_reentrancy, drv_keyword_names,
           drv_callables_sharing_code, drv_indirect_argument_values]


def replay(rec):
  """Re-executes rec['witness']; returns (ok, message)."""
  try:
    exec(rec['witness'], {})  # pylint: disable=exec-used
    return True, 'witness passes'
  except BaseException as e:  # pylint: disable=broad-except
    return False, f'{type(e).__name__}: {e}'[:500]
