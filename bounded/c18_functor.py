"""C18 bounded drivers: symbolized callables keep Python call semantics.

Reference = the Python interpreter itself: the original function / class is
called directly with the same effective arguments; `inspect.signature().bind*`
decides which arguments are effective when binding happens in two stages.

Two-stage rule taken from the Functor docstring: arguments bound at
construction are kept; call-time positionals are matched from position 0
again; giving a new value to an already bound argument is a TypeError unless
`override_args=True`, in which case the call-time value wins.
"""
import inspect
import itertools
import sys
import types

import pyglove as pg
from pyvc.bounded import Recorder, rng

MOD = 'c18gen_'
_mod = sys.modules.get(MOD)
if _mod is None:
  _mod = types.ModuleType(MOD)
  sys.modules[MOD] = _mod

POS = ['a', 'b', 'c']


class Sig:
  """One signature shape."""

  def __init__(self, n, ndef, va, kwo, vk, annotated=False):
    self.n, self.ndef, self.va, self.kwo, self.vk = n, ndef, va, tuple(kwo), vk
    self.annotated = annotated
    self.pos = POS[:n]
    self.kwonly = [f'k{j + 1}' for j in range(len(kwo))]
    self.names = self.pos + self.kwonly
    ann = ': int' if annotated else ''
    parts = []
    for i, nm in enumerate(self.pos):
      parts.append(f'{nm}{ann}' if i < n - ndef else f'{nm}{ann}={-(i + 1)}')
    if va:
      parts.append(f'*args{ann}')
    elif kwo:
      parts.append('*')
    for j, d in enumerate(kwo):
      parts.append(f'k{j + 1}{ann}' + (f'={-(10 + j)}' if d else ''))
    if vk:
      parts.append(f'**kw{ann}')
    self.params = ', '.join(parts)
    ret = (['"r"'] + self.pos + (['tuple(args)'] if va else []) + self.kwonly
           + (['tuple(sorted(kw.items()))'] if vk else []))
    self.ret = '(' + ', '.join(ret) + ',)'
    self.id = (f'n{n}d{ndef}' + ('v' if va else '') + 'k' + ''.join('d' if d else 'r' for d in kwo)
               + ('w' if vk else '') + ('t' if annotated else ''))

  def fn_src(self, name=None):
    return f'def {name or "f_" + self.id}({self.params}):\n  return {self.ret}\n'

  def cls_src(self, name=None):
    return (f'class {name or "C_" + self.id}:\n  def __init__(self, {self.params}):\n'
            f'    self.r = {self.ret}\n')

  def features(self):
    return ('v' if self.va else '') + ('k' if self.kwo else '') + ('w' if self.vk else '')


def all_sigs(annotated=False):
  out = []
  for n in range(4):
    for ndef in range(n + 1):
      for va in (False, True):
        for kwo in [(), (False,), (True,), (False, True), (True, False)]:
          for vk in (False, True):
            out.append(Sig(n, ndef, va, kwo, vk, annotated))
  return out


# Wrapper kinds: name -> (is_class, source template using {f} for the original).
FN_WRAPPERS = {
    'pg.functor': 'pg.functor({f})',
    'pg.functor(spec)': 'pg.functor({spec})({f})',
    'pg.symbolize': 'pg.symbolize({f})',
    'pg.symbolize(spec)': 'pg.symbolize({f}, {spec})',
    'functor_class': 'pg.symbolic.functor_class({f}, add_to_registry=True)',
    'pg.functor(auto_typing)': 'pg.functor(auto_typing=True)({f})',
}
CLS_WRAPPERS = {
    'pg.wrap': 'pg.wrap({f})',
    'pg.symbolize(class)': 'pg.symbolize({f})',
    'pg.wrap(spec)': 'pg.wrap({f}, {spec})',
    'pg.wrap(auto_typing)': 'pg.wrap({f}, auto_typing=True)',
}


def spec_src(sig):
  items = []
  if sig.pos:
    items.append(f"('{sig.pos[0]}', pg.typing.Int())")
  if sig.kwonly:
    items.append(f"('{sig.kwonly[-1]}', pg.typing.Int())")
  if sig.vk:
    items.append('(pg.typing.StrKey(), pg.typing.Int())')
  return '[' + ', '.join(items) + ']'


_BUILT = {}


def build(sig, kind):
  """Returns (original, wrapped, prelude source)."""
  key = (sig.id, kind)
  if key in _BUILT:
    return _BUILT[key]
  is_cls = kind in CLS_WRAPPERS
  tag = ''.join(ch for ch in kind if ch.isalnum())
  name = ('C_' if is_cls else 'f_') + sig.id + '_' + tag
  src = sig.cls_src(name) if is_cls else sig.fn_src(name)
  tmpl = (CLS_WRAPPERS if is_cls else FN_WRAPPERS)[kind]
  wsrc = tmpl.format(f=name, spec=spec_src(sig))
  prelude = ('import pyglove as pg, sys, types\n'
             f"m_ = sys.modules.setdefault('{MOD}', types.ModuleType('{MOD}'))\n"
             f"ns_ = {{'__name__': '{MOD}', 'pg': pg}}\n"
             f'exec({src!r}, ns_)\n'
             f'F = ns_[{name!r}]; m_.__dict__[{name!r}] = F\n'
             f"W = eval({wsrc!r}, ns_)\n")
  ns = {}
  try:
    exec(prelude, ns)  # pylint: disable=exec-used
  except Exception as e:  # pylint: disable=broad-except
    raise BuildError(f'{type(e).__name__}: {e}', prelude) from e
  _BUILT[key] = (ns['F'], ns['W'], prelude)
  return _BUILT[key]


class BuildError(Exception):
  pass


def try_build(rec, sig, kind):
  """build() that records a failure instead of raising."""
  try:
    return build(sig, kind)
  except BuildError as e:
    rec.case(f'{_family(kind)}.symbolizing-a-valid-callable-fails/{kind}', (sig.id, kind), ok=False,
             message=f'{sig.params}: {e.args[0]}', witness=e.args[1])
    return None


def call(fn, *a, **k):
  """('ok', value) | ('TypeError', category) | ('exc', ExceptionName)."""
  try:
    return ('ok', fn(*a, **k))
  except TypeError as e:
    return ('TypeError', _category(str(e)))
  except Exception as e:  # pylint: disable=broad-except
    return ('exc', type(e).__name__)


def _category(msg):
  for pat, cat in (('multiple values', 'multiple-values'), ('unexpected keyword', 'unexpected-keyword'),
                   ('missing', 'missing-argument'), ('positional argument', 'too-many-positional'),
                   ('new value for argument', 'rebinding-without-override')):
    if pat in msg:
      return cat
  return 'other'


def agree(want, got):
  if want[0] == 'ok':
    return got[0] == 'ok' and got[1] == want[1]
  return got[0] == want[0]       # both TypeError (category may be worded differently)


def _short(o):
  return 'ok' if o[0] == 'ok' else (f'TypeError({o[1]})' if o[0] == 'TypeError' else o[1])


def _vs(want, got):
  """Case-id fragment describing expected vs observed outcome."""
  if want[0] == 'ok' and got[0] == 'ok' and want[1] != got[1]:
    return 'python-ok/got-different-result'
  return f'python-{_short(want)}/got-{_short(got)}'


def shapes(sig, extra='z'):
  """All (positional count, keyword-name subset) call shapes of a signature."""
  names = sig.names + [extra]
  for p in range(sig.n + 3):
    for mask in range(2 ** len(names)):
      yield p, tuple(nm for i, nm in enumerate(names) if mask >> i & 1)


def mk_args(p, kws, base):
  return tuple(base + i for i in range(p)), {nm: base * 10 + i for i, nm in enumerate(kws)}


def _fmt_call(a, k):
  return ', '.join([repr(x) for x in a] + [f'{n}={v!r}' for n, v in k.items()])


# ---------------------------------------------------------------------------
# Reference for two-stage binding.
# ---------------------------------------------------------------------------

def reference_two_stage(f, sig, cargs, ckw, args, kw, override):
  """Outcome of `wrapped(*cargs, **ckw)(*args, **kw)` per Python semantics."""
  isig = inspect.signature(f)
  try:
    b1 = isig.bind_partial(*cargs, **ckw)
  except TypeError as e:
    return 'ctor', ('TypeError', _category(str(e)))
  try:
    b2 = isig.bind_partial(*args, **kw)
  except TypeError as e:
    return 'call', ('TypeError', _category(str(e)))
  named = {k: v for k, v in b1.arguments.items() if k in sig.names}
  extras = dict(b1.arguments.get('kw', {}))
  varargs = tuple(b1.arguments.get('args', ()))
  for k, v in b2.arguments.items():
    if k in sig.names:
      if k in named and not override:
        return 'call', ('TypeError', 'rebinding-without-override')
      named[k] = v
  for k, v in b2.arguments.get('kw', {}).items():
    if k in extras and not override:
      return 'call', ('TypeError', 'rebinding-without-override')
    extras[k] = v
  v2 = tuple(b2.arguments.get('args', ()))
  if v2:
    if varargs and not override:
      return 'call', None        # both stages give *args: not specified -> not judged
    varargs = v2
  pos = []
  rest = dict(named)
  for nm in sig.pos:
    if nm in rest:
      pos.append(rest.pop(nm))
    else:
      break
  if varargs and len(pos) < sig.n:
    return 'call', None          # cannot be written as a Python call -> not judged
  return 'call', call(f, *pos, *varargs, **rest, **extras)


def expected_init_args(f, sig, cargs, ckw):
  """What sym_init_args must describe after construction (None: not judged)."""
  try:
    b = inspect.signature(f).bind_partial(*cargs, **ckw)
  except TypeError:
    return None
  out = {}
  for nm, p in inspect.signature(f).parameters.items():
    if p.kind == p.VAR_POSITIONAL:
      out[nm] = list(b.arguments.get(nm, ()))
    elif p.kind == p.VAR_KEYWORD:
      out.update(b.arguments.get(nm, {}))
    elif nm in b.arguments:
      out[nm] = b.arguments[nm]
    elif p.default is not p.empty:
      out[nm] = p.default
    else:
      out[nm] = pg.MISSING_VALUE
  return out


def init_args_of(x):
  out = {}
  for k, v in x.sym_init_args.items():
    if isinstance(v, pg.List):
      v = list(v)
    out[k] = v
  return out


# ---------------------------------------------------------------------------
# Drivers
# ---------------------------------------------------------------------------

def _witness(prelude, body):
  return prelude + body


def _check_signature(rec, sig, kind, f, w, prelude):
  want = [(p.name, p.kind, p.default) for p in inspect.signature(f).parameters.values()
          if p.name != 'self']
  try:
    got = [(p.name, p.kind, p.default)
           for p in list(inspect.signature(w.__init__).parameters.values())[1:]]
    msg = f'got {got!r}, want {want!r}'
  except Exception as e:  # pylint: disable=broad-except
    got, msg = None, f'{type(e).__name__}: {e}'
  rec.case(f'{_family(kind)}.init-signature/{kind}', (sig.id, kind), ok=got == want, message=msg,
           witness=_witness(prelude, 'import inspect\n'
                            'a = [(p.name, p.kind, p.default) for p in list(inspect.signature(W.__init__).parameters.values())[1:]]\n'
                            "b = [(p.name, p.kind, p.default) for p in inspect.signature(F).parameters.values() if p.name != 'self']\n"
                            'assert a == b, (a, b)\n'))


def _family(kind):
  return 'class-wrapper' if kind in CLS_WRAPPERS else 'functor'


def _roundtrips(x):
  """(name, source expression over `x`) of every way to copy a symbolic object."""
  return [('clone', 'x.clone()'), ('deep-clone', 'x.clone(deep=True)'),
          ('json-roundtrip', 'pg.from_json(x.to_json())'),
          ('json-str-roundtrip', 'pg.from_json_str(x.to_json_str())')]


def _single_stage_functor(rec, sig, kind, f, w, prelude, shape_iter, deep):
  for p, kws in shape_iter:
    a, k = mk_args(p, kws, 10)
    want = call(f, *a, **k)
    argsrc = _fmt_call(a, k)
    feat = sig.features()
    # (1) everything bound at construction, then called with nothing.
    x = None

    def ctor_then_call():
      nonlocal x
      x = w(*a, **k)
      return x()
    got = got1 = call(ctor_then_call)
    rec.case(f'functor.bound-at-construction/{_vs(want, got)}',
             (sig.id, kind, p, kws), ok=agree(want, got),
             message=f'{sig.params}: f({argsrc}) -> {want!r}; W({argsrc})() -> {got!r}',
             witness=_witness(prelude, f'import bounded.c18_functor as m\n'
                              f'assert m.agree(m.call(F, {argsrc}), m.call(lambda: W({argsrc})()))\n'))
    # (2) nothing bound, everything supplied at call time.
    got = call(lambda: w()(*a, **k))
    rec.case(f'functor.supplied-at-call-time/{_vs(want, got)}',
             (sig.id, kind, p, kws), ok=agree(want, got),
             message=f'{sig.params}: f({argsrc}) -> {want!r}; W()({argsrc}) -> {got!r}',
             witness=_witness(prelude, f'import bounded.c18_functor as m\n'
                              f'assert m.agree(m.call(F, {argsrc}), m.call(lambda: W()({argsrc})))\n'))
    if x is None or want[0] != 'ok' or not agree(want, got1):
      continue
    # (3) reported arguments.
    exp = expected_init_args(f, sig, a, k)
    try:
      rep = init_args_of(x)
    except Exception as e:  # pylint: disable=broad-except
      rep = f'{type(e).__name__}: {e}'
    rec.case(f'functor.sym_init_args/fully-bound[{feat}]', (sig.id, kind, p, kws), ok=rep == exp,
             message=f'{sig.params}: W({argsrc}).sym_init_args = {rep!r}, want {exp!r}',
             witness=_witness(prelude, f'import bounded.c18_functor as m\n'
                              f'assert m.init_args_of(W({argsrc})) == {exp!r}\n'))
    if not deep:
      continue
    # (4) copies describe the same call.
    for name, src in _roundtrips(x):
      got = call(lambda: eval(src, {'x': x, 'pg': pg})())  # pylint: disable=eval-used
      rec.case(f'functor.{name}/{_vs(want, got)}', (sig.id, kind, p, kws),
               ok=agree(want, got),
               message=f'{sig.params}: f({argsrc}) -> {want!r}; {src} of W({argsrc}) called -> {got!r}',
               witness=_witness(prelude, f'import bounded.c18_functor as m\nx = W({argsrc})\n'
                                f'assert m.agree(m.call(F, {argsrc}), m.call(lambda: ({src})()))\n'))


def _pick(items, r, k):
  items = list(items)
  return items if len(items) <= k else r.sample(items, k)


def drv_functor_single_stage(tier, seed):
  quick = tier == 'quick'
  rec = Recorder(
      'C18', 'functors: all arguments at construction / all at call time vs direct call',
      scope=('240 signature shapes (0..3 positional, 0..n defaults, *args, 0..2 keyword-only '
             'with/without default, **kw) x 6 ways of symbolizing a function; call shapes: 0..n+2 '
             'positionals x every subset of keyword names incl. an unknown one ('
             + ('<=24 seeded shapes per signature' if quick else 'all shapes')
             + '); result or TypeError vs the original; sym_init_args; clone / deep clone / '
             'JSON round trips; inspect.signature of generated __init__'))
  r = rng(seed, 'c18-single')
  kinds = list(FN_WRAPPERS)
  for i, sig in enumerate(all_sigs()):
    use = [kinds[(i + seed) % len(kinds)]] if quick else kinds
    if not quick or i % 7 == seed % 7:
      use = kinds
    for kind in use:
      s = Sig(sig.n, sig.ndef, sig.va, sig.kwo, sig.vk, annotated=True) if 'auto_typing' in kind else sig
      built = try_build(rec, s, kind)
      if built is None:
        continue
      f, w, prelude = built
      _check_signature(rec, s, kind, f, w, prelude)
      sh = list(shapes(s))
      if quick:
        sh = _pick(sh, r, 24)
      elif len(sh) > 160:
        sh = _pick(sh, r, 160)
      _single_stage_functor(rec, s, kind, f, w, prelude, sh, deep=True)
  return rec.result()


def _two_stage_case(rec, sig, kind, f, w, prelude, c, d, override, how, deep):
  (p1, kws1), (p2, kws2) = c, d
  a1, k1 = mk_args(p1, kws1, 10)
  a2, k2 = mk_args(p2, kws2, 20)
  stage, want = reference_two_stage(f, sig, a1, k1, a2, k2, override)
  if want is None:
    return
  s1, s2 = _fmt_call(a1, k1), _fmt_call(a2, k2)
  ov_ctor = override and how == 'ctor-flag'
  ov_call = override and how == 'call-flag'
  csrc = s1 + (', override_args=True' if ov_ctor else '')
  csrc = csrc.lstrip(', ')
  dsrc = (s2 + (', override_args=True' if ov_call else '')).lstrip(', ')
  x = None
  ctor_failed = None

  def run():
    nonlocal x, ctor_failed
    try:
      x = w(*a1, **dict(k1, **({'override_args': True} if ov_ctor else {})))
    except Exception:
      ctor_failed = True
      raise
    return x(*a2, **dict(k2, **({'override_args': True} if ov_call else {})))
  got = call(run)
  what = 'override' if override else 'no-override'
  rec.case(f'functor.two-stage[{what}]/{_vs(want, got)}',
           (sig.id, kind, c, d, override, how), ok=agree(want, got),
           message=f'{sig.params}: W({csrc})({dsrc}) -> {got!r}; Python semantics -> {want!r}',
           witness=_witness(prelude, 'import bounded.c18_functor as m\n'
                            f'got = m.call(lambda: W({csrc})({dsrc}))\n'
                            f'assert m.agree({want!r}, got), got\n'))
  if stage == 'ctor' and not ctor_failed:
    rec.case('functor.two-stage/construction-accepts-invalid-arguments',
             (sig.id, kind, c), ok=False,
             message=f'{sig.params}: W({csrc}) did not raise; Python: {want!r}',
             witness=_witness(prelude, f'import bounded.c18_functor as m\n'
                              f"assert m.call(lambda: W({csrc}))[0] == 'TypeError'\n"))
  if x is None:
    return
  exp = expected_init_args(f, sig, a1, k1)
  if exp is None:
    return
  try:
    rep = init_args_of(x)
  except Exception as e:  # pylint: disable=broad-except
    rep = f'{type(e).__name__}: {e}'
  rec.case(f'functor.sym_init_args/partially-bound[{sig.features()}]', (sig.id, kind, c),
           ok=rep == exp, message=f'{sig.params}: W({csrc}).sym_init_args = {rep!r}, want {exp!r}',
           witness=_witness(prelude, f'import bounded.c18_functor as m\n'
                            f'assert m.init_args_of(W({csrc})) == {exp!r}\n'))
  if not deep or stage != 'call' or not agree(want, got):
    return
  for name, src in _roundtrips(x):
    def again(src=src):
      y = eval(src, {'x': x, 'pg': pg})  # pylint: disable=eval-used
      if ov_ctor and name.startswith('json'):
        return y(*a2, **dict(k2, override_args=True))   # a construction flag is not an argument
      return y(*a2, **dict(k2, **({'override_args': True} if ov_call else {})))
    got = call(again)
    rec.case(f'functor.two-stage.{name}[{what}]/{_vs(want, got)}',
             (sig.id, kind, c, d, override, how), ok=agree(want, got),
             message=f'{sig.params}: x = W({csrc}); ({src})({dsrc}) -> {got!r}; want {want!r}',
             witness=_witness(prelude, 'import bounded.c18_functor as m\n'
                              f'x = W({csrc})\n'
                              f'got = m.call(lambda: ({src})({dsrc}' + (', override_args=True' if ov_ctor and name.startswith('json') and 'override_args' not in dsrc else '') + '))\n'
                              f'assert m.agree({want!r}, got), got\n'))


def drv_functor_two_stage(tier, seed):
  quick = tier == 'quick'
  rec = Recorder(
      'C18', 'functors: partial binding at construction + late arguments (with/without override)',
      scope=('same 240 signatures; pairs (construction shape, call shape) of positional counts '
             '0..n+1 and keyword subsets: exhaustive for signatures with <=2 named parameters, '
             + ('10' if quick else '150') + ' seeded pairs otherwise; override_args False / True (as '
             'constructor flag or call flag); oracle = bind_partial merge + direct call; '
             'sym_init_args of the partially bound functor; clone/JSON copies called the same way'))
  r = rng(seed, 'c18-two')
  kinds = list(FN_WRAPPERS)
  for i, sig in enumerate(all_sigs()):
    kind = kinds[(i + seed) % len(kinds)]
    s = Sig(sig.n, sig.ndef, sig.va, sig.kwo, sig.vk, annotated=True) if 'auto_typing' in kind else sig
    built = try_build(rec, s, kind)
    if built is None:
      continue
    f, w, prelude = built
    sh = [(p, kws) for p, kws in shapes(s) if p <= s.n + 1]
    pairs = list(itertools.product(sh, sh))
    small = len(s.names) <= (1 if quick else 2)
    if not small or len(pairs) > 1500:
      pairs = _pick(pairs, r, 10 if quick else 150)
    for j, (c, d) in enumerate(pairs):
      for override in (False, True):
        how = ('ctor-flag', 'call-flag')[j % 2]
        _two_stage_case(rec, s, kind, f, w, prelude, c, d, override, how, deep=(j % 4 == 0))
  return rec.result()


def _r(o):
  return o.r


def drv_class_wrappers(tier, seed):
  quick = tier == 'quick'
  rec = Recorder(
      'C18', 'symbolized classes: __init__ receives the same arguments as the original class',
      scope=('240 __init__ signature shapes x 4 ways of wrapping a class (pg.wrap, pg.symbolize, '
             'with arg specs, auto_typing); call shapes 0..n+2 positionals x every keyword subset '
             'incl. an unknown name (' + ('<=16 seeded per signature, one wrapper kind'
                                         if quick else '<=120 per signature, all kinds')
             + '); attributes set by __init__ or TypeError vs the original; isinstance; '
             'sym_init_args; clone / JSON copies; partial(...) + rebind(...) late binding; '
             'inspect.signature of the wrapper __init__'))
  r = rng(seed, 'c18-cls')
  kinds = list(CLS_WRAPPERS)
  for i, sig in enumerate(all_sigs()):
    use = [kinds[(i + seed) % len(kinds)]] if quick else kinds
    for kind in use:
      s = Sig(sig.n, sig.ndef, sig.va, sig.kwo, sig.vk, annotated=True) if 'auto_typing' in kind else sig
      built = try_build(rec, s, kind)
      if built is None:
        continue
      c, w, prelude = built
      _check_signature(rec, s, kind, c, w, prelude)
      sh = _pick(shapes(s), r, 16 if quick else 120)
      for j, (p, kws) in enumerate(sh):
        a, k = mk_args(p, kws, 10)
        argsrc = _fmt_call(a, k)
        want = call(lambda: c(*a, **k).r)
        x = None

        def make():
          nonlocal x
          x = w(*a, **k)
          return x.r
        got = call(make)
        rec.case(f'class-wrapper.construct/{_vs(want, got)}',
                 (s.id, kind, p, kws), ok=agree(want, got),
                 message=f'__init__(self, {s.params}): C({argsrc}).r -> {want!r}; W({argsrc}).r -> {got!r}',
                 witness=_witness(prelude, 'import bounded.c18_functor as m\n'
                                  f'assert m.agree(m.call(lambda: F({argsrc}).r), m.call(lambda: W({argsrc}).r))\n'))
        if x is None or want[0] != 'ok' or not agree(want, got):
          continue
        rec.case('class-wrapper.isinstance-of-original', (s.id, kind, p, kws),
                 ok=isinstance(x, c) and isinstance(x, w), message=f'{type(x)}',
                 witness=_witness(prelude, f'assert isinstance(W({argsrc}), F)\n'))
        exp = expected_init_args(c.__init__, s, (None,) + a, k)
        exp.pop('self', None)
        try:
          repd = init_args_of(x)
        except Exception as e:  # pylint: disable=broad-except
          repd = f'{type(e).__name__}: {e}'
        rec.case(f'class-wrapper.sym_init_args[{s.features()}]', (s.id, kind, p, kws), ok=repd == exp,
                 message=f'{s.params}: W({argsrc}).sym_init_args = {repd!r}, want {exp!r}',
                 witness=_witness(prelude, 'import bounded.c18_functor as m\n'
                                  f'assert m.init_args_of(W({argsrc})) == {exp!r}\n'))
        for name, src in _roundtrips(x):
          got2 = call(lambda: eval(src, {'x': x, 'pg': pg}).r)  # pylint: disable=eval-used
          rec.case(f'class-wrapper.{name}/{_vs(want, got2)}',
                   (s.id, kind, p, kws), ok=agree(want, got2),
                   message=f'{s.params}: ({src}).r of W({argsrc}) -> {got2!r}, want {want!r}',
                   witness=_witness(prelude, 'import bounded.c18_functor as m\n'
                                    f'x = W({argsrc})\nassert m.agree({want!r}, m.call(lambda: ({src}).r))\n'))
        # late binding: keyword half at partial(), other half through rebind().
        if not a and len(k) >= 2 and j % 2 == 0:
          names = list(k)
          k1 = {n: k[n] for n in names[::2]}
          k2 = {n: k[n] for n in names[1::2]}

          def late():
            y = w.partial(**k1)
            y.rebind(**k2)
            return y.r
          got3 = call(late)
          # Required arguments must all be present after the rebind for __init__ to run.
          rec.case(f'class-wrapper.partial+rebind/{_vs(want, got3)}',
                   (s.id, kind, p, kws), ok=agree(want, got3),
                   message=f'{s.params}: W.partial({_fmt_call((), k1)}).rebind({_fmt_call((), k2)}).r -> {got3!r}, want {want!r}',
                   witness=_witness(prelude, 'import bounded.c18_functor as m\n'
                                    f'y = W.partial({_fmt_call((), k1)}); y.rebind({_fmt_call((), k2)})\n'
                                    f'assert m.agree({want!r}, m.call(lambda: y.r))\n'))
  return rec.result()


def drv_functor_late_binding(tier, seed):
  quick = tier == 'quick'
  rec = Recorder(
      'C18', 'functors: arguments bound later by rebind / attribute assignment / del',
      scope=('240 signatures; construct with a keyword subset, then rebind(**more) or setattr, '
             'optionally del of a bound argument, then call with nothing; effective arguments = '
             'last value written per name (del -> default); '
             + ('12' if quick else '120') + ' seeded histories per signature; also under '
             'pg.enable_type_check(False)'))
  r = rng(seed, 'c18-late')
  kinds = list(FN_WRAPPERS)
  for i, sig in enumerate(all_sigs()):
    kind = kinds[(i + seed + 1) % len(kinds)]
    s = Sig(sig.n, sig.ndef, sig.va, sig.kwo, sig.vk, annotated=True) if 'auto_typing' in kind else sig
    built = try_build(rec, s, kind)
    if built is None:
      continue
    f, w, prelude = built
    names = s.names
    if not names:
      continue
    for j in range(12 if quick else 120):
      k1 = {n: 100 + t for t, n in enumerate(names) if r.random() < 0.5}
      k2 = {n: 200 + t for t, n in enumerate(names) if r.random() < 0.5}
      dele = r.choice(sorted(set(k1) | set(k2))) if (k1 or k2) and r.random() < 0.3 else None
      via = r.choice(('rebind', 'setattr'))
      eff = dict(k1, **k2)
      if dele:
        eff.pop(dele)
      want = call(f, **eff)
      lines = [f'x = W({_fmt_call((), k1)})']
      if via == 'rebind':
        if k2:
          lines.append(f'x.rebind({_fmt_call((), k2)})')
      else:
        lines += [f'x.{n} = {v}' for n, v in k2.items()]
      if dele:
        lines.append(f'del x.{dele}')
      body = '\n'.join(lines) + '\n'

      def run():
        ns = {'W': w}
        exec(body, ns)  # pylint: disable=exec-used
        return ns['x']()
      got = call(run)
      rec.case(f'functor.late-binding[{via}' + ('+del' if dele else '')
               + f']/{_vs(want, got)}', (s.id, kind, k1, k2, dele, via),
               ok=agree(want, got),
               message=f'{s.params}: {"; ".join(lines)}; x() -> {got!r}; f({_fmt_call((), eff)}) -> {want!r}',
               witness=_witness(prelude, 'import bounded.c18_functor as m\n' + body
                                + f'assert m.agree(m.call(F, {_fmt_call((), eff)}), m.call(x))\n'))
      if j % 3 == 0:
        a, k = mk_args(r.randrange(s.n + 1), [n for n in names[s.n:] if r.random() < 0.7]
                       + (['z'] if r.random() < 0.3 else []), 10)
        want = call(f, *a, **k)
        argsrc = _fmt_call(a, k)

        def unchecked():
          with pg.enable_type_check(False):
            return w()(*a, **k)
        got = call(unchecked)
        rec.case(f'functor.call-under-enable_type_check(False)/{_vs(want, got)}',
                 (s.id, kind, a, tuple(k)), ok=agree(want, got),
                 message=f'{s.params}: with pg.enable_type_check(False): W()({argsrc}) -> {got!r}; f({argsrc}) -> {want!r}',
                 witness=_witness(prelude, 'import bounded.c18_functor as m\n'
                                  'with pg.enable_type_check(False):\n'
                                  f'  got = m.call(lambda: W()({argsrc}))\n'
                                  f'assert m.agree(m.call(F, {argsrc}), got), got\n'))
  return rec.result()


DRIVERS = [drv_functor_single_stage, drv_functor_two_stage, drv_functor_late_binding,
           drv_class_wrappers]


def replay(rec):
  """Re-executes rec['witness']; returns (ok, message)."""
  try:
    exec(rec['witness'], {})  # pylint: disable=exec-used
    return True, 'witness passes'
  except BaseException as e:  # pylint: disable=broad-except
    return False, f'{type(e).__name__}: {e}'[:500]
