"""C15 -- search algorithms recover their state from history at every crash point.

Bounded run-time oracle (never counted as proved).  For every algorithm
configuration, small space and feedback pattern listed below an uninterrupted
run is executed event by event (event = one propose() or one feedback()).
After *every* event prefix ("crash point") the history is persisted -- DNAs
with their metadata plus rewards, `None` for proposals whose reward has not
arrived -- through `pg.to_json_str`/`pg.from_json_str`, a fresh instance of the
same algorithm is set up on the same space, `recover(history)` is called and
the observable state is compared with the state the uninterrupted instance had
at that very prefix:

  * num_proposals / num_feedbacks                         (all algorithms)
  * population as [(DNA, fitness)] plus proposal ids, feedback sequence
    numbers and generation ids of its members            (Evolution based)
  * de-duplication memory (hash key -> rewards/count)     (Deduping)
  * the next proposals (Sweeping, seeded Random and Deduping over them must
    continue with exactly the proposals of the uninterrupted run, including
    the point where they are exhausted).

Further input classes:

  * calls that are NOT proposals / feedbacks and hence not part of the history:
    a feedback the algorithm refuses (2-tuple reward for a single-objective,
    feedback-consuming algorithm -> ValueError) and a propose() that raises
    StopIteration.  They must leave no trace in the state (counters).
  * generators nested in the algorithm: the population initializer of an
    Evolution (Sweeping, Random(seed), Deduping over them, sized and unsized):
    its proposal count, its de-duplication memory and -- being a function of
    history and seed -- the next initial individual.
  * the history as persisted by a tuning backend: the run is driven through
    `pg.sample` (in-memory backend), the stored trials go through JSON and the
    history is (trial.dna, trial.get_reward_for_feedback(metrics)); trials
    completed, skipped, pending with/without intermediate measurements;
    reward / named metric / two objectives.

  * seeds: 0 is a seed like any other -- every seeded part (pg.geno.Random,
    mutators, selectors.Random / Sample, Choice) is also run with seed 0.  A
    recovered instance lives in another process: the uninterrupted run and
    every recovery start from two different states of the process-global
    `random` module, so a seeded part that draws from the global RNG cannot
    reproduce the uninterrupted run.
  * randomized (seeded) and scheduled POPULATION UPDATES of an Evolution (the
    operation that recovery re-runs per replayed reward): random eviction,
    weighted re-sampling, an update applied with a probability, `n` as a
    function of the step.
  * binding of the persisted DNAs: not bound to a DNASpec (what the JSON round
    trip gives; every crash point) / bound by the loader to the space of the
    recovering instance; that space is the object of the uninterrupted run /
    an equal space built anew (alternating with the crash point).
  * the history delivered in two recover() calls (rotating cut), for all
    algorithm families and for the stored trials.
  * a continuation / recovery that RAISES where the uninterrupted run goes on
    is a failed case (`*.continuation-raises/*`, `*.recover-raises/*`).
  * the FORM in which the history is handed to `recover` ("an iterable object"):
    a list (everywhere) / a one-shot iterator (a generator that streams the
    records, e.g. `((t.dna, t.get_reward_for_feedback()) for t in trials)`) /
    an iterable that is neither a sequence nor an iterator (no len(), no
    indexing) / a tuple -- for all algorithm families and the stored trials
    (`*.history-as-<form>.*`; quick: the last crash point of every run as a
    one-shot iterator, the middle one as re-iterable / tuple, rotating).
  * USER-DEFINED algorithms, which implement the same DNAGenerator contract:
    function-based generators made with the documented `pg.geno.dna_generator`
    decorator, a DNAGenerator subclass that keeps the evaluated individuals
    with their fitness through `_feedback` (recovered by the default replay),
    one that recovers its position through a `_replay` override (so its
    proposals are a function of the history: it must continue like the
    uninterrupted run); each stand-alone, inside Deduping and as the population
    initializer of an Evolution.  (For function-based generators only the
    counters are compared: the decorator offers no replay hook, the statement
    does not list them among the generators that continue exactly.)

The oracle is the statement: "same observable state as the uninterrupted one";
the reference is the uninterrupted instance itself, never a re-implementation
of the recovery code.
"""
import functools
import os
import random

import pyglove as pg
from pyglove.ext import evolution as ev
from pyvc.bounded import Recorder, rng

_NS = {'pg': pg, 'ev': ev, 'random': random}

# User-defined algorithms (source kept short: it is part of the witnesses).
#   FnSweep  function-based: every other point of the sweep (then exhausted)
#   FnFile   function-based: reads persisted DNAs and binds them (the example
#            of the decorator's documentation); 4 DNAs, then exhausted
#   Best     subclass with `_feedback`: keeps the evaluated individuals with
#            their fitness (`seen`); recovered by the default replay
#   Walk     subclass with a `_replay` override: the i-th proposal is a function
#            of i (random DNA from a generator seeded with i), and i is
#            recovered from the history
_USER_DEFS = {
    'FnSweep': ("@pg.geno.dna_generator\ndef FnSweep(s):\n  for i,d in enumerate(s.iter_dna()):\n"
                "    if i%2==0:yield d\n"),
    'FnFile': ("@pg.geno.dna_generator\ndef FnFile(s):\n"
               "  for d in pg.from_json_str(pg.to_json_str([d for _,d in zip(range(4),s.iter_dna())])):\n"
               "    d.use_spec(s);yield d\n"),
    'Best': ("class Best(pg.DNAGenerator):\n"
             "  def _setup(s):s.r=random.Random(1);s.seen=[]\n"
             "  def _propose(s):return pg.random_dna(s.dna_spec,s.r)\n"
             "  def _feedback(s,d,r):s.seen.append((str(d),r))\n"),
    'Walk': ("class Walk(pg.DNAGenerator):\n"
             "  def _setup(s):s.i=0\n"
             "  def _propose(s):s.i+=1;return pg.random_dna(s.dna_spec,random.Random(s.i))\n"
             "  def _replay(s,i,d,r):s.i+=1\n"),
}
for _src in _USER_DEFS.values():
  exec(_src, _NS)  # pylint: disable=exec-used


def _prelude(algo_expr):
  """Source of the user-defined algorithms `algo_expr` refers to."""
  return ''.join(src for name, src in _USER_DEFS.items() if name + '(' in algo_expr)


class _Reiterable:
  """An Iterable that is neither a sequence nor an iterator."""

  def __init__(self, items):
    self._items = list(items)

  def __iter__(self):
    return iter(self._items)


# The form in which the history is handed to recover(); the expression of the
# witnesses (H is the list).
_FORMS = {
    'list': (lambda h: h, 'H'),
    'one-shot-iterator': (lambda h: (x for x in h), '(x for x in H)'),
    'reiterable': (_Reiterable, "type('I',(),{'__iter__':lambda s:iter(H)})()"),
    'tuple': (tuple, 'tuple(H)'),
}


def _form_points(nsnaps, quick, rot):
  """{crash point: form} -- at which crash points the history is ALSO handed
  over in a form other than a list.  quick: the last crash point as a one-shot
  iterator, the middle one as re-iterable / tuple (rotating); thorough: every
  3rd crash point, the three forms rotating."""
  if quick:
    out = {nsnaps // 2: ('reiterable', 'tuple')[rot % 2]}
    out[nsnaps - 1] = 'one-shot-iterator'
    return out
  forms = ('one-shot-iterator', 'reiterable', 'tuple')
  return {ci: forms[(ci // 3 + rot) % 3] for ci in range(2, nsnaps, 3)}


def _delivery_prefix(pre, chunk, form):
  if chunk is not None:
    return pre + '.two-recover-calls'
  if form != 'list':
    return f'{pre}.history-as-{form}'
  return pre


def _reseed(tag):
  """Puts the process-global `random` module into a known state.

  A recovered instance lives in another process than the uninterrupted one:
  the state of the global RNG is not shared.  The uninterrupted run and every
  recovery therefore start from two DIFFERENT global RNG states, so that a
  seeded component that (wrongly) draws from the global RNG cannot reproduce
  the uninterrupted run by accident -- and the driver stays deterministic.
  """
  random.seed(f'c15-{tag}')


def _keeps_global_rng(fn):
  @functools.wraps(fn)
  def wrapped(tier, seed):
    state = random.getstate()
    try:
      return fn(tier, seed)
    finally:
      random.setstate(state)
  return wrapped

SPACES = {
    'c3': "pg.dna_spec(pg.oneof([1, 2, 3]))",
    'c2xc3': "pg.dna_spec(pg.Dict(x=pg.oneof(['a', 'b']), y=pg.oneof([1, 2, 3])))",
    'cond': ("pg.dna_spec(pg.Dict(x=pg.oneof([pg.oneof([1, 2]), 3, "
             "pg.Dict(z=pg.oneof([4, 5]))]), y=pg.oneof([0, 1])))"),
    'many': "pg.dna_spec(pg.manyof(2, [1, 2, 3, 4]))",
    'float': "pg.dna_spec(pg.Dict(x=pg.oneof([1, 2, 3]), z=pg.floatv(0.0, 1.0)))",
}

_SUM = "lambda d: int(sum(d.to_numbers()) * 2)"
_KEY = "lambda d: hash(tuple(d.to_numbers()))"
_MEAN = "lambda rs: sum(rs) / len(rs)"
_RAMP = "lambda xs: [1.0 + i for i in range(len(xs))]"


def _det_configs(tier, seed):
  """(kind, expr, spaces) for generators whose proposals are f(history, seed)."""
  s1 = 1 + seed
  s2 = 7 + seed
  discrete = ['c3', 'c2xc3', 'cond', 'many']
  cfgs = [
      ('sweeping', "pg.geno.Sweeping()", discrete),
      ('random', f"pg.geno.Random(seed={s1})", discrete + ['float']),
      ('random', f"pg.geno.Random(seed={s2})", ['c2xc3', 'float']),
      ('dedup-sweeping', "pg.geno.Deduping(pg.geno.Sweeping())", ['c3', 'cond']),
      ('dedup-sweeping',
       f"pg.geno.Deduping(pg.geno.Sweeping(), hash_fn={_SUM})",
       ['c2xc3', 'cond', 'many']),
      ('dedup-sweeping',
       f"pg.geno.Deduping(pg.geno.Sweeping(), hash_fn={_SUM}, max_duplicates=2)",
       ['c2xc3', 'many']),
      ('dedup-sweeping',
       f"pg.geno.Deduping(pg.geno.Sweeping(), hash_fn={_SUM}, max_proposal_attempts=2)",
       ['cond', 'many']),
      ('dedup-random', f"pg.geno.Deduping(pg.geno.Random(seed={s1}), max_proposal_attempts=6)",
       ['c2xc3', 'c3', 'cond', 'float']),
      ('dedup-random',
       f"pg.geno.Deduping(pg.geno.Random(seed={s2}), max_duplicates=2, max_proposal_attempts=6)",
       ['c3', 'c2xc3']),
      ('dedup-random',
       f"pg.geno.Deduping(pg.geno.Random(seed={s1}), hash_fn={_SUM}, max_duplicates=3, max_proposal_attempts=6)",
       ['c2xc3', 'float']),
      ('dedup-random',
       f"pg.geno.Deduping(pg.geno.Random(seed={s2}), hash_fn={_SUM}, "
       f"auto_reward_fn={_MEAN}, max_proposal_attempts=5)",
       ['many', 'cond']),
      # Boundary value of the seed: 0 is a seed like any other (whatever
      # VERIF_SEED is).
      ('random', "pg.geno.Random(seed=0)", ['c2xc3', 'float']),
      ('dedup-random', "pg.geno.Deduping(pg.geno.Random(seed=0), max_proposal_attempts=6)",
       ['c3', 'c2xc3']),
  ]
  if tier != 'quick':
    for s in (11 + seed, 23 + seed):
      cfgs.append(('random', f"pg.geno.Random(seed={s})", discrete + ['float']))
      cfgs.append(('dedup-random',
                   f"pg.geno.Deduping(pg.geno.Random(seed={s}), max_duplicates=2, max_proposal_attempts=8)",
                   discrete))
      cfgs.append(('dedup-random',
                   f"pg.geno.Deduping(pg.geno.Random(seed={s}), hash_fn={_SUM}, max_proposal_attempts=8)",
                   discrete + ['float']))
    cfgs.append(('dedup-sweeping',
                 f"pg.geno.Deduping(pg.geno.Sweeping(), hash_fn={_SUM}, max_duplicates=3)",
                 discrete))
  return cfgs


def _evo_configs(tier, seed):
  """(kind, expr, multi_objective, single_child, spaces).

  single_child: every evolution step yields exactly one child (so there are
  never undelivered children of a batch at a crash point).
  """
  s = 1 + seed
  mut = f"ev.mutators.Uniform(seed={s})"
  # Seed 0 is a seed like any other: one configuration of each stock algorithm
  # uses it for all of its seeded parts (whatever VERIF_SEED is).
  mut0 = "ev.mutators.Uniform(seed=0)"
  cfgs = [
      ('regularized_evolution',
       f"ev.regularized_evolution({mut}, population_size=3, tournament_size=2, seed={s})",
       False, True, ['c2xc3', 'float']),
      ('regularized_evolution',
       f"ev.regularized_evolution({mut0}, population_size=4, tournament_size=3, seed=0)",
       False, True, ['cond', 'many']),
      ('hill_climb',
       f"ev.hill_climb({mut}, batch_size=1, init_population_size=1, seed={s})",
       False, True, ['float', 'c2xc3']),
      ('hill_climb',
       f"ev.hill_climb({mut0}, batch_size=2, init_population_size=2, seed=0)",
       False, False, ['cond', 'many']),
      ('nsga2', f"ev.nsga2({mut}, population_size=2, seed={s})",
       True, True, ['c2xc3', 'float']),
      ('neat', f"ev.neat({mut}, population_size=3, seed={s})",
       False, False, ['c2xc3', 'cond']),
      ('evolution',
       f"ev.Evolution(ev.selectors.Top(1) >> {mut}, "
       "population_init=(pg.geno.Sweeping(), 3), "
       "population_update=ev.selectors.Last(4))",
       False, True, ['c2xc3', 'cond']),
      ('evolution-unsized-init',
       f"ev.Evolution(ev.selectors.Top(1) >> {mut}, "
       "population_init=pg.geno.Sweeping(), "
       "population_update=ev.selectors.Last(2))",
       False, True, ['c3']),
      # Population initializers that carry state / attach metadata of their
      # own: seeded Random, Deduping over Random and over Sweeping.
      ('evolution-init-dedup-random',
       f"ev.Evolution(ev.selectors.Top(1) >> {mut}, "
       f"population_init=(pg.geno.Deduping(pg.geno.Random(seed={s}), max_proposal_attempts=20), 4), "
       "population_update=ev.selectors.Last(4))",
       False, True, ['c2xc3', 'cond']),
      ('evolution-init-dedup-sweeping',
       f"ev.Evolution(ev.selectors.Top(1) >> {mut}, "
       f"population_init=(pg.geno.Deduping(pg.geno.Sweeping(), hash_fn={_SUM}), 3), "
       "population_update=ev.selectors.Last(3))",
       False, True, ['cond', 'many']),
      ('evolution-unsized-init-dedup',
       f"ev.Evolution(ev.selectors.Top(1) >> {mut}, "
       f"population_init=pg.geno.Deduping(pg.geno.Sweeping(), hash_fn={_SUM}), "
       "population_update=ev.selectors.Last(2))",
       False, True, ['c2xc3']),
      # User-defined population initializers: a function-based generator
      # (`pg.geno.dna_generator`) and a DNAGenerator subclass that recovers its
      # position through `_replay`.
      ('evolution-init-function-based',
       f"ev.Evolution(ev.selectors.Top(1) >> {mut}, "
       "population_init=(FnSweep(), 3), population_update=ev.selectors.Last(4))",
       False, True, ['cond', 'many']),
      ('evolution-init-user-class',
       f"ev.Evolution(ev.selectors.Top(1) >> {mut}, "
       "population_init=(Walk(), 3), population_update=ev.selectors.Last(3))",
       False, True, ['c2xc3', 'cond']),
  ]
  cfgs += _update_configs(seed)
  if tier != 'quick':
    cfgs += [
        ('regularized_evolution',
         f"ev.regularized_evolution({mut}, population_size=5, tournament_size=2, seed={s + 2})",
         False, True, ['many', 'c3']),
        ('hill_climb',
         f"ev.hill_climb({mut}, batch_size=3, init_population_size=3, seed={s + 2})",
         False, False, ['float', 'c2xc3']),
        ('nsga2', f"ev.nsga2({mut0}, population_size=3, seed=0)",
         True, True, ['cond', 'many']),
        ('neat', f"ev.neat({mut0}, population_size=4, seed=0)",
         False, False, ['float', 'many']),
    ]
  return cfgs


def _update_configs(seed):
  """Evolutions whose POPULATION UPDATE is randomized (seeded) or scheduled.

  The population update is the operation that runs at every feedback and that
  recovery re-runs for every replayed reward.  With seeded randomized
  operations in it (random eviction `selectors.Random`, weighted re-sampling
  `selectors.Sample`, an update applied with a probability `Operation.with_prob`
  = `Choice`) the population is a function of history and seed; with a
  scheduled one (`n` a function of the step) a function of the history.
  Seeds: the boundary value 0 and a non-zero one.
  """
  s = 1 + seed
  mut0 = "ev.mutators.Uniform(seed=0)"

  def evo(update, init):
    return (f"ev.Evolution(ev.selectors.Top(1) >> {mut0}, population_init={init}, "
            f"population_update={update})")
  return [
      ('evolution-random-update',
       evo("ev.selectors.Random(3, seed=0)", "(pg.geno.Random(seed=0), 3)"),
       False, True, ['c2xc3', 'float']),
      ('evolution-random-update',
       evo(f"ev.selectors.Random(0.75, replacement=True, seed={s})", "(pg.geno.Sweeping(), 3)"),
       False, True, ['many', 'c3']),
      ('evolution-sample-update',
       evo(f"ev.selectors.Sample(3, {_RAMP}, seed=0)", "(pg.geno.Sweeping(), 3)"),
       False, True, ['cond', 'c2xc3']),
      ('evolution-choice-update',
       evo("ev.selectors.Last(2).with_prob(0.5, seed=0)", "(pg.geno.Sweeping(), 2)"),
       False, True, ['c2xc3', 'cond']),
      ('evolution-scheduled-update',
       evo("ev.selectors.Last(lambda step: 2 + step % 2)", "(pg.geno.Sweeping(), 2)"),
       False, True, ['c3', 'many']),
  ]


def _dedup_evo_configs(tier, seed):
  """Same tuple layout as _evo_configs (kind is always dedup-evolution)."""
  s = 1 + seed
  mut = f"ev.mutators.Uniform(seed={s})"
  reg = f"ev.regularized_evolution({mut}, population_size=3, tournament_size=2, seed={s})"
  hill = f"ev.hill_climb({mut}, batch_size=1, init_population_size=2, seed={s})"
  cfgs = [
      ('dedup-evolution', f"pg.geno.Deduping({reg}, hash_fn={_KEY})",
       False, True, ['c2xc3', 'cond']),
      ('dedup-evolution',
       f"pg.geno.Deduping({reg}, hash_fn={_KEY}, max_duplicates=2)",
       False, True, ['c3', 'many']),
      ('dedup-evolution',
       f"pg.geno.Deduping({hill}, hash_fn={_KEY}, auto_reward_fn={_MEAN})",
       False, True, ['c3', 'c2xc3']),
      # Inner evolution with a seeded random population update (seed 0).
      ('dedup-evolution',
       f"pg.geno.Deduping({_update_configs(seed)[0][1]}, hash_fn={_KEY}, max_duplicates=2)",
       False, True, ['c2xc3', 'float']),
  ]
  if tier != 'quick':
    neat = f"ev.neat({mut}, population_size=3, seed={s})"
    cfgs += [
        ('dedup-evolution',
         f"pg.geno.Deduping({neat}, hash_fn={_KEY}, auto_reward_fn={_MEAN})",
         False, False, ['c2xc3', 'cond']),
        ('dedup-evolution',
         f"pg.geno.Deduping({reg}, hash_fn={_SUM}, auto_reward_fn={_MEAN}, max_duplicates=2)",
         False, True, ['many', 'float']),
    ]
  return cfgs


def _user_configs(tier, seed):
  """(kind, expr, spaces) for user-defined algorithms (see _USER_DEFS)."""
  del tier, seed
  return [
      ('function-based', "FnSweep()", ['c2xc3', 'cond', 'many']),
      ('function-based', "FnFile()", ['c3', 'many']),
      ('user-class-feedback', "Best()", ['c2xc3', 'float', 'cond']),
      ('user-class-replay', "Walk()", ['c3', 'cond', 'float']),
      ('dedup-function-based', f"pg.geno.Deduping(FnSweep(), hash_fn={_SUM})", ['cond', 'many']),
      ('dedup-user-class-replay',
       f"pg.geno.Deduping(Walk(), hash_fn={_SUM}, max_duplicates=2, max_proposal_attempts=4)",
       ['c2xc3', 'many']),
  ]


# ---------------------------------------------------------------------------
# Feedback patterns.  An event is 'p' (propose) or an int i (feed back the
# i-th proposal, 0-based).  Every prefix of a pattern is a crash point, so a
# pattern with lag w covers "the last 0..w feedbacks missing".
# ---------------------------------------------------------------------------

def _pipelined(n, lag):
  ev_ = []
  for i in range(n):
    ev_.append('p')
    if i - lag >= 0:
      ev_.append(i - lag)
  return ev_


def _burst(n, b, reverse=False):
  ev_ = []
  i = 0
  while i < n:
    idx = list(range(i, min(n, i + b)))
    ev_.extend('p' for _ in idx)
    ev_.extend(reversed(idx) if reverse else idx)
    i += b
  return ev_


def _tail(n, j):
  ev_ = []
  for i in range(j):
    ev_ += ['p', i]
  ev_ += ['p'] * (n - j)
  return ev_


def _holes(n, mod, at):
  ev_ = []
  for i in range(n):
    ev_.append('p')
    if i % mod != at:
      ev_.append(i)
  return ev_


def _late_first(n):
  ev_ = ['p']
  for i in range(1, n):
    ev_ += ['p', i]
  ev_.append(0)
  return ev_


def _refused(n, lag):
  """Lagged in-order feedback; proposals 1, 4, 7, ... are first fed back with a
  reward the algorithm refuses; proposal 4 (10, ...) never gets a proper one."""
  ev_ = []
  for i in range(n):
    ev_.append('p')
    j = i - lag
    if j >= 0:
      if j % 3 == 1:
        ev_.append(('x', j))
      if j % 6 != 4:
        ev_.append(j)
  return ev_


def _patterns(n, tier, seed, salt):
  pats = [
      ('lockstep', 'in-order', _pipelined(n, 0)),
      ('lag1', 'in-order', _pipelined(n, 1)),
      ('lag2', 'in-order', _pipelined(n, 2)),
      ('burst2', 'in-order', _burst(n, 2)),
      ('tail3', 'in-order', _tail(n, 3)),
      ('holes3', 'holes', _holes(n, 3, 1)),
      ('rev2', 'out-of-order', _burst(n, 2, True)),
      ('late0', 'out-of-order', _late_first(n)),
      # Only for single-objective algorithms that consume feedback.
      ('refused0', 'refused', _refused(n, 0)),
      ('refused1', 'refused', _refused(n, 1)),
  ]
  if tier != 'quick':
    pats += [
        ('lag3', 'in-order', _pipelined(n, 3)),
        ('burst3', 'in-order', _burst(n, 3)),
        ('tail1', 'in-order', _tail(n, 1)),
        ('tail5', 'in-order', _tail(n, 5)),
        ('none', 'in-order', ['p'] * n),
        ('holes2', 'holes', _holes(n, 2, 0)),
        ('rev3', 'out-of-order', _burst(n, 3, True)),
    ]
    r = rng(seed, 'c15-pat-' + salt)
    for t in range(3):
      # Random interleaving: at most 3 proposals in flight, random completion.
      evs, pending, made = [], [], 0
      while made < n or (pending and r.random() < 0.7):
        if made < n and (not pending or (len(pending) < 3 and r.random() < 0.5)):
          evs.append('p')
          pending.append(made)
          made += 1
        elif pending:
          evs.append(pending.pop(r.randrange(len(pending))))
      pats.append((f'rand{t}', _classify(evs), evs))
  return pats


def _classify(events):
  fed, last, made = set(), -1, 0
  cls = 'in-order'
  for e in events:
    if e == 'p':
      made += 1
      continue
    if isinstance(e, tuple):   # refused feedback call: not a feedback
      continue
    if e < last:
      return 'out-of-order'
    if any(i not in fed for i in range(e)):
      cls = 'holes'
    last = e
    fed.add(e)
  return cls


def _rewards(n, multi, r):
  pool = [0.0, 1.0, -1.5, 2.0, 2.0, 0.5, 0.0, 3.25]
  out = []
  for _ in range(n):
    if multi:
      out.append((r.choice(pool), r.choice(pool)))
    else:
      out.append(r.choice(pool))
  return out


# ---------------------------------------------------------------------------
# Observation of the public state.
# ---------------------------------------------------------------------------

def _pop(algo):
  return [(str(d), d.metadata.get('reward')) for d in algo.population]


def _pop_ids(algo):
  return [(d.metadata.get('proposal_id'),
           d.metadata.get('feedback_sequence_number'),
           d.metadata.get('generation_id')) for d in algo.population]


def _elites(algo):
  gs = algo.global_state
  if 'elites' not in gs:
    return None
  return [(str(d), d.metadata.get('reward')) for d in gs['elites']]


def _species(algo):
  gs = algo.global_state
  if 'living_species' not in gs:
    return None
  return [[(str(d), d.metadata.get('reward')) for d in sp.members]
          for sp in gs['living_species']]


def _cache(algo):
  c = getattr(algo, '_cache', None)
  if c is None:
    return None
  return {k: list(v) for k, v in c.items()}


def _gen_kind(g):
  if isinstance(g, pg.geno.Deduping):
    return 'dedup-' + _gen_kind(g.generator)
  if type(g).__name__ == 'SimpleDNAGenerator':
    return 'function-based'
  return type(g).__name__.lower()


def _initializer(evolution):
  """The population initializer (a DNAGenerator nested in the algorithm)."""
  init = evolution.population_init
  return init[0] if isinstance(init, tuple) else init


def _observe(algo):
  o = dict(counts=(algo.num_proposals, algo.num_feedbacks))
  inner = algo
  if isinstance(algo, pg.geno.Deduping):
    o['cache'] = _cache(algo)
    inner = algo.generator
    o['inner_counts'] = (inner.num_proposals, inner.num_feedbacks)
  if hasattr(inner, 'seen'):
    o['seen'] = list(inner.seen)    # (user-defined: evaluated individuals with fitness)
  if isinstance(inner, ev.Evolution):
    init = _initializer(inner)
    # The initializers Sweeping, Random(seed), Deduping over them and a user
    # class that recovers its position propose as a function of history and
    # seed; a function-based one has no replay hook.
    o['init_det'] = type(init).__name__ != 'SimpleDNAGenerator'
    o['init_counts'] = (init.num_proposals, init.num_feedbacks)
    o['init_kind'] = _gen_kind(init) + '-initializer'
    o['init_size'] = (inner.population_init[1] if isinstance(inner.population_init, tuple)
                      else None)
    o['init_cache'] = None
    o['init_rejected'] = False
    if isinstance(init, pg.geno.Deduping):
      o['init_cache'] = {k: len(v) for k, v in _cache(init).items()}
      o['init_rejected'] = init.generator.num_proposals > init.num_proposals
    o['pop'] = _pop(inner)
    o['pop_ids'] = _pop_ids(inner)
    o['gens'] = inner.num_generations
    o['elites'] = _elites(inner)
    o['species'] = _species(inner)
  return o


def _next_meta(d):
  return (d.metadata.get('proposal_id'), d.metadata.get('initial_population'))


# ---------------------------------------------------------------------------
# Uninterrupted run with a snapshot after every event.
# ---------------------------------------------------------------------------

class _Run:
  """Executes the pattern on a fresh instance, snapshotting every prefix.

  Events: 'p' propose; int i: feed back proposal i; ('x', i): a feedback call
  for proposal i that the algorithm REFUSES (a 2-tuple reward given to a
  single-objective, feedback-consuming algorithm -> ValueError).  A refused
  call is no feedback: it is not part of the persisted history.  Likewise a
  propose() that raises StopIteration is no proposal (with
  `continue_after_stop` the run goes on after it, else it ends there).
  """

  def __init__(self, algo_expr, space_expr, events, rewards, extra=0,
               continue_after_stop=False):
    _reseed('uninterrupted')
    self.space = eval(space_expr, _NS)  # pylint: disable=eval-used
    self.algo = eval(algo_expr, _NS)    # pylint: disable=eval-used
    self.algo.setup(self.space)
    self.dnas = []
    self.prop_json = []      # JSON of each DNA as of its proposal
    self.rewards = []        # actual reward per proposal (None: not fed)
    self.executed = []       # executed events so far
    self.outcomes = []       # str(DNA) / 'STOP' of every executed propose()
    self.snaps = []          # one per prefix (incl. the empty one)
    self.stopped = False
    self.refused = 0
    self.failed_proposes = 0
    self.init_exhausted = False   # evolving although fewer feedbacks than the initial size
    self.error = None        # the algorithm itself failed (not a C15 matter)
    self._snap()
    for e in events:
      if e == 'p':
        if self.failed_proposes >= 2:
          continue
        if not self._propose(continue_after_stop):
          break
      elif isinstance(e, tuple):
        i = e[1]
        if i < len(self.dnas) and self.rewards[i] is None:
          self._refuse(i, rewards[i])
      else:
        if e >= len(self.dnas) or self.rewards[e] is not None:
          continue
        self._feed(e, rewards[e])
    # Continuation of the uninterrupted run (deterministic generators).
    self.tail = []
    if extra and self.error is None and (continue_after_stop or not self.stopped):
      for _ in range(extra):
        try:
          self.tail.append(str(self.algo.propose()))
        except StopIteration:
          self.tail.append('STOP')
          break

  def _propose(self, continue_after_stop=False):
    try:
      d = self.algo.propose()
    except StopIteration:
      self.stopped = True
      self.failed_proposes += 1
      self.outcomes.append('STOP')
      if continue_after_stop:
        self.executed.append('p')
        self._snap()
      return continue_after_stop
    except Exception as e:  # pylint: disable=broad-except
      # E.g. NEAT divides by zero when all members of the population have
      # the same fitness.  The uninterrupted run ends here.
      self.error = e
      return False
    inner = self.algo.generator if isinstance(self.algo, pg.geno.Deduping) else self.algo
    if (isinstance(inner, ev.Evolution) and isinstance(inner.population_init, tuple)
        and not d.metadata.get('initial_population')
        and inner.num_feedbacks < inner.population_init[1]):
      self.init_exhausted = True
    self.dnas.append(d)
    self.rewards.append(None)
    self.outcomes.append(str(d))
    self.prop_json.append(pg.to_json_str(d))
    self.executed.append('p')
    self._snap(proposed=d)
    auto = d.metadata.get('reward')
    if auto is not None:
      # pg.sample feeds controller-side rewards back immediately.
      self._feed(len(self.dnas) - 1, auto)
    return True

  def _feed(self, i, reward):
    self.algo.feedback(self.dnas[i], reward)
    self.rewards[i] = reward
    self.executed.append(i)
    self._snap(fed=i)

  def _refuse(self, i, reward):
    try:
      self.algo.feedback(self.dnas[i], (reward, 0.5))
    except ValueError:
      self.refused += 1
      self.executed.append(('x', i))
      self._snap()
      return
    raise AssertionError(
        'a 2-tuple reward was accepted by a single-objective algorithm that needs feedback')

  def _snap(self, proposed=None, fed=None):
    hist = [[d, r] for d, r in zip(self.dnas, self.rewards)]
    inner_np = None
    if isinstance(self.algo, pg.geno.Deduping):
      inner_np = self.algo.generator.num_proposals
    self.snaps.append(dict(
        events=list(self.executed),
        rewards=list(self.rewards),
        hist_json=pg.to_json_str(hist),
        obs=_observe(self.algo),
        k=len(self.dnas),
        pos=len(self.outcomes),
        refused=self.refused,
        failed_proposes=self.failed_proposes,
        initial=[bool(d.metadata.get('initial_population')) for d in self.dnas],
        last_fed=fed,
        proposed=(None if proposed is None
                  else (str(proposed), _next_meta(proposed),
                        proposed.metadata.get('generation_id'), self.init_exhausted)),
        rejected=(inner_np is not None and inner_np > self.algo.num_proposals),
    ))

  def all_proposals(self):
    """Outcome (str(DNA) / 'STOP') of every propose() of the uninterrupted run."""
    return self.outcomes + self.tail


def _target_space(run, space_expr, fresh):
  """The space the fresh instance is set up on: the very object of the
  uninterrupted run, or (a new process) an equal one that was built anew."""
  if not fresh:
    return run.space
  if getattr(run, 'space_anew', None) is None:    # (built once per run: it is costly)
    run.space_anew = eval(space_expr, _NS)  # pylint: disable=eval-used
  return run.space_anew


def _history(run, snap, variant, space=None):
  """The persisted history.  All variants went through JSON, so the DNAs are
  NOT bound to a DNASpec, except in variant 'bound': there the loader has bound
  them to the space of the recovering instance (`DNA.use_spec`)."""
  hist = [(d, r) for d, r in pg.from_json_str(snap['hist_json'])]
  if variant == 'crash':
    return hist
  if variant == 'bound':
    for d, _ in hist:
      d.use_spec(space)
    return hist
  out = []
  for i, (d, r) in enumerate(hist):
    if variant == 'proposal' or (variant == 'mixed' and i == snap['last_fed']):
      d = pg.from_json_str(run.prop_json[i])
    out.append((d, r))
  return out


def _recovered(algo_expr, space, history, chunk=None, form='list'):
  _reseed('recovered')
  b = eval(algo_expr, _NS)  # pylint: disable=eval-used
  b.setup(space)
  if chunk is None:
    b.recover(_FORMS[form][0](history))
  else:
    b.recover(history[:chunk])
    b.recover(history[chunk:])
  return b


def _continue(algo, m):
  """The next m proposals: str(DNA), 'STOP' for StopIteration (exhausted) or
  'RAISED <error>' -- the uninterrupted run never raises anything else, so a
  continuation that raises is a failed case, not a crash of the driver."""
  out = []
  for _ in range(m):
    try:
      out.append(str(algo.propose()))
    except StopIteration:
      out.append('STOP')
      break
    except Exception as e:  # pylint: disable=broad-except
      out.append(f'RAISED {type(e).__name__}: {e}'[:200])
      break
  return out


def _raised(proposals):
  return bool(proposals) and proposals[-1].startswith('RAISED ')


# ---------------------------------------------------------------------------
# Witness snippets (self-contained, < 1200 characters).
# ---------------------------------------------------------------------------

_W_HEAD = """import random,pyglove as pg
ev=pg.evolution
{prelude}Z={space!r};S=eval(Z)
mk=lambda:{algo}
E={events};R={rewards}
random.seed(1);a=mk();a.setup(S);P=[];J=[];F=[]
for e in E:
  try:
    if e=='p':P.append(a.propose()){snapshot}
    elif e<0:a.feedback(P[-e-1],(1.,.5))
    else:a.feedback(P[e],R[e]);F.append(e)
  except (StopIteration,ValueError):pass
H=pg.from_json_str(pg.to_json_str([[d,R[i] if i in F else None] for i,d in enumerate(P)]))
{pick}random.seed(2);b=mk();T={target};b.setup(T);{bind}{recover}
"""

_W_PICK = {
    'crash': '',
    'proposal': 'H=[(pg.from_json_str(J[i]),r) for i,(d,r) in enumerate(H)]\n',
    'mixed': 'H=[(pg.from_json_str(J[i]) if i==F[-1] else d,r) for i,(d,r) in enumerate(H)]\n',
    'bound': '',
}

_G = "getattr(g,'generator',g)"
_I = "(lambda i:i[0] if isinstance(i,tuple) else i)(g.population_init)"
_W_CHECK = {
    'counts': "f=lambda g:(g.num_proposals,g.num_feedbacks)",
    'inner_counts': "f=lambda g:(g.generator.num_proposals,g.generator.num_feedbacks)",
    'pop': f"f=lambda g:[(str(d),d.metadata.get('reward')) for d in {_G}.population]",
    'pop_ids': ("f=lambda g:[[d.metadata.get(k) for k in ('proposal_id','feedback_sequence_number',"
                f"'generation_id')] for d in {_G}.population]"),
    'gens': f"f=lambda g:{_G}.num_generations",
    'elites': ("f=lambda g:[(str(d),d.metadata.get('reward')) for d in "
               f"{_G}.global_state.get('elites',[])]"),
    'species': ("f=lambda g:[[(str(d),d.metadata.get('reward')) for d in s.members] for s in "
                f"{_G}.global_state.get('living_species',[])]"),
    'cache': "f=lambda g:g._cache",
    'cache_counts': "f=lambda g:{k:len(v) for k,v in g._cache.items()}",
    'cache_sorted': "f=lambda g:{k:sorted(v,key=repr) for k,v in g._cache.items()}",
    'next': ("f=lambda g:(lambda d:[d.metadata.get(k) for k in "
             "('proposal_id','initial_population')])(g.propose())"),
    'next_gen': "f=lambda g:g.propose().metadata.get('generation_id')",
    'next_dna': "f=lambda g:str(g.propose())",
    'seen': "f=lambda g:g.seen",
    'seen_sorted': "f=lambda g:sorted(g.seen,key=repr)",
    'init_np': f"f=lambda g:{_I}.num_proposals",
    'init_cache': f"f=lambda g:{{k:len(v) for k,v in {_I}._cache.items()}}",
}

_W_CONT = """def f(g):
  o=[]
  try:
    for _ in range({m}):o.append(str(g.propose()))
  except StopIteration:o.append('STOP')
  return o
"""


def _witness(space_expr, algo_expr, snap, variant, check, chunk=None, m=0, fresh=False,
             form='list'):
  rec = (f'b.recover({_FORMS[form][1]})' if chunk is None
         else f'b.recover(H[:{chunk}]);b.recover(H[{chunk}:])')
  w = _W_HEAD.format(space=space_expr, algo=algo_expr, prelude=_prelude(algo_expr),
                     target='eval(Z)' if fresh else 'S',
                     bind='[d.use_spec(T) for d,_ in H];' if variant == 'bound' else '',
                     events=repr([-e[1] - 1 if isinstance(e, tuple) else e
                                  for e in snap['events']]).replace(' ', ''),
                     rewards=repr(snap['rewards']).replace(' ', ''),
                     pick=_W_PICK[variant], recover=rec,
                     snapshot=('' if variant in ('crash', 'bound')
                               else ';J.append(pg.to_json_str(P[-1]))'))
  if check == 'continuation':
    w += _W_CONT.format(m=m)
  else:
    w += _W_CHECK[check] + '\n'
  w += 'x,y=f(b),f(a)\nassert x==y,(x,y)'
  return w


# ---------------------------------------------------------------------------
# Scope selection.
# ---------------------------------------------------------------------------

_QUICK_DET = ['lag1', 'holes3', 'lockstep', 'rev2', 'lag2']
_IN_ORDER = ['lockstep', 'lag1', 'lag2', 'burst2', 'tail3']
_OUT_OF_ORDER = ['rev2', 'late0']


def _rot(items, start, count):
  return [items[(start + i) % len(items)] for i in range(min(count, len(items)))]


def _det_combos(tier, seed, n, configs=None):
  """Yields (kind, algo_expr, space_name, pattern_name, class, events)."""
  if configs is None:
    configs = _det_configs(tier, seed)
  for ci, (kind, algo_expr, spaces) in enumerate(configs):
    if tier == 'quick' and len(spaces) > 2:
      # The first (smallest) space always; one of the others, rotated by seed.
      spaces = [spaces[0], spaces[1 + seed % (len(spaces) - 1)]]
    elif len(spaces) > 3:
      spaces = [spaces[0]] + _rot(spaces[1:], seed + ci, 2)
    for j, sp in enumerate(spaces):
      # (These generators do not consume feedback and never refuse one.)
      pats = [p for p in _patterns(n, tier, seed, f'{algo_expr}-{sp}') if p[1] != 'refused']
      if tier == 'quick':
        want = {_QUICK_DET[(ci + j + seed) % len(_QUICK_DET)]}
        if j == 0:
          want.add('lag1')
      else:
        names = [p[0] for p in pats if not p[0].startswith('rand')]
        want = set(_rot(names, 3 * (ci + j + seed), 3)) | {'rand0'}
      pats = [p for p in pats if p[0] in want]
      for pname, pcls, events in pats:
        yield kind, algo_expr, sp, pname, pcls, events


def _evo_combos(configs, tier, seed, n):
  for ci, (kind, algo_expr, multi, single, spaces) in enumerate(configs):
    if tier == 'quick' or kind.endswith('-update'):
      spaces = [spaces[(seed + ci) % len(spaces)]]
    for j, sp in enumerate(spaces):
      pats = _patterns(n, tier, seed, f'{algo_expr}-{sp}')
      if tier == 'quick':
        want = {_IN_ORDER[(ci + j + seed) % len(_IN_ORDER)], 'holes3'}
        if kind.endswith('-update'):
          # (Configurations that differ from 'evolution' in the population
          # update only: one of out-of-order / refused, rotating.)
          want.add(_OUT_OF_ORDER[(ci + j + seed) % len(_OUT_OF_ORDER)] if (ci + seed) % 2
                   else f'refused{(ci + j + seed) % 2}')
        else:
          own_init = any(t in kind for t in ('init-dedup', 'init-function', 'init-user'))
          if not own_init:
            # (The order of the feedbacks is of no concern to an initializer.)
            want.add(_OUT_OF_ORDER[(ci + j + seed) % len(_OUT_OF_ORDER)])
          if not multi and 'init-function' not in kind and 'init-user' not in kind:
            want.add(f'refused{(ci + j + seed) % 2}')
      else:
        ino = [p[0] for p in pats if p[1] == 'in-order' and not p[0].startswith('rand')]
        ooo = [p[0] for p in pats if p[1] == 'out-of-order' and not p[0].startswith('rand')]
        hol = [p[0] for p in pats if p[1] == 'holes' and not p[0].startswith('rand')]
        want = (set(_rot(ino, 2 * (ci + j + seed), 2)) | set(_rot(hol, ci + j + seed, 1))
                | set(_rot(ooo, ci + j + seed, 1)) | {'rand0', 'rand1'})
        if not multi:
          want |= {'refused0', 'refused1'}
      pats = [p for p in pats if p[0] in want]
      for pname, pcls, events in pats:
        yield kind, algo_expr, multi, single, sp, pname, events


# ---------------------------------------------------------------------------
# Drivers.
# ---------------------------------------------------------------------------

@_keeps_global_rng
def drv_recover_deterministic(tier, seed):
  quick = tier == 'quick'
  n = 6 if quick else 8
  m = 3 if quick else 5
  rec = Recorder(
      'C15', 'recover(): Sweeping / Random(seed) / Deduping over them',
      scope=('Sweeping, Random(seed), Deduping(Sweeping|Random) with hash_fn / max_duplicates 1-3 / '
             'auto_reward_fn / max_proposal_attempts variants; spaces oneof3, 2x3, conditional, '
             f'manyof(2 of 4), oneof x float; N<={n} proposals; feedback patterns lockstep, lag 1-2, '
             'holes, reversed pairs (thorough: + lag3, bursts, tails, no feedback, late first, seeded '
             'random interleavings; quick: 2 spaces x 1-2 patterns per configuration, rotated by '
             'seed); crash after EVERY event prefix; history through pg JSON with DNA metadata as '
             f'of crash and as of proposal; continuation compared for {m} further proposals incl. '
             'exhaustion (a continuation that raises anything but StopIteration is a failed case); '
             'recover() in one call and split in two calls (cut k/2, 1, k-1 rotating); the run goes '
             'on after a propose() that raised StopIteration (at most 2): counts and dedup memory '
             'are compared at those crash points too; seed 0 for Random and Deduping(Random); '
             'persisted DNAs not bound to a spec (every crash point) / bound to the space of the '
             'recovering instance (every 4th); recovering instance set up on the same space object '
             '/ an equal space built anew (alternating); process-global RNG reseeded differently '
             'for the uninterrupted run and for each recovery'))
  _drv_det(rec, 'det', _det_combos(tier, seed, n), tier, seed, n, m)
  return rec.result()


# Kinds (of the user-defined driver) whose proposals are NOT claimed to be a
# function of history and seed: function-based generators (no replay hook), a
# user class that only consumes feedback, Deduping over them.
_NO_CONTINUATION = ('function-based', 'user-class-feedback', 'dedup-function-based',
                    'dedup-user-class-replay')


def _drv_det(rec, pre0, combos, tier, seed, n, m):
  quick = tier == 'quick'
  for ri, (kind, algo_expr, sp, pname, _, events) in enumerate(combos):
    space_expr = SPACES[sp]
    r = rng(seed, f'c15-det-{algo_expr}-{sp}')
    rewards = _rewards(n + 2, False, r)
    run = rec.guard(f'{pre0}.uninterrupted-run-error/{kind}', (algo_expr, sp, pname),
                    lambda: _Run(algo_expr, space_expr, events, rewards, extra=m + 1,  # pylint: disable=cell-var-from-loop
                                 continue_after_stop=True),
                    witness=f'# uninterrupted run of {algo_expr} on {space_expr} raised')
    if run is None or run is False:
      continue
    allp = run.all_proposals()
    form_at = _form_points(len(run.snaps), quick, ri + seed)
    for ci, snap in enumerate(run.snaps):
      # Every crash point: the history as read back from JSON (DNAs with the
      # metadata as of the crash, NOT bound to a spec).  Rotating with the
      # crash point: metadata as of the proposal; DNAs bound to the space of
      # the recovering instance by the loader.
      variants = ['crash']
      if ci % 3 == 1 or (not quick and ci % 3 == 2):
        variants.append('proposal')
      if ci % 4 == 2 or (not quick and ci % 4 == 0):
        variants.append('bound')
      # The recovering instance is set up on the space object of the
      # uninterrupted run (even crash points) / on an equal space built anew.
      fresh = ci % 2 == 1
      cls = _classify(snap['events'])
      for variant in variants:
        deliveries = [(None, 'list')]
        k = snap['k']
        if k >= 2 and variant == 'crash' and (ci % 3 == 0 or (not quick and ci % 3 == 1)):
          # The history arrives in two recover() calls; the cut rotates.
          deliveries.append(([k // 2, 1, k - 1][(ci // 3) % 3], 'list'))
        if k >= 1 and variant == 'crash' and ci in form_at:
          # The history is handed over as a one-shot iterator / a re-iterable
          # that is no sequence / a tuple.
          deliveries.append((None, form_at[ci]))
        single_call = {}
        for chunk, form in deliveries:
          key = (algo_expr, sp, pname, ci, variant, chunk, form,
                 'fresh-space' if fresh else 'same-space')
          pre = _delivery_prefix(pre0, chunk, form)
          first = chunk is None and form == 'list'

          def case(check, cid, ok, msg, wit):
            # A failure of the split recovery / of another form of the history
            # is reported only if the same check passed for the single-call
            # recovery from a list (else: same defect).
            if first:  # pylint: disable=cell-var-from-loop
              single_call[check] = ok  # pylint: disable=cell-var-from-loop
            elif not single_call.get(check, True):  # pylint: disable=cell-var-from-loop
              return
            rec.case(cid, key, ok, msg, wit)  # pylint: disable=cell-var-from-loop

          def wit(check, m_=0):
            return _witness(space_expr, algo_expr, snap, variant, check, chunk, m=m_,  # pylint: disable=cell-var-from-loop
                            fresh=fresh, form=form)  # pylint: disable=cell-var-from-loop
          try:
            space_b = _target_space(run, space_expr, fresh)
            hist = _history(run, snap, variant, space_b)
            b = _recovered(algo_expr, space_b, hist, chunk, form)
            ob = _observe(b)
          except Exception as e:  # pylint: disable=broad-except
            case('recover', f'{pre}.recover-raises/{kind}', False,
                 f'loading the history / recover / reading the state raised '
                 f'{type(e).__name__}: {e}', wit('counts'))
            continue
          oa = snap['obs']
          # A propose() that raised StopIteration is no proposal: it is not in
          # the history and must have left no trace in the counters.
          sfx = '/after-exhausted-propose' if snap['failed_proposes'] else ''
          case('counts', f'{pre}.counts/{kind}{sfx}', ob['counts'] == oa['counts'],
               f'recovered (num_proposals, num_feedbacks)={ob["counts"]}, '
               f'uninterrupted {oa["counts"]}', wit('counts'))
          if oa.get('cache') is not None and ob.get('cache') is not None:
            ca = {k: len(v) for k, v in oa['cache'].items()}
            cb = {k: len(v) for k, v in ob['cache'].items()}
            case('memory', f'{pre}.dedup-memory/{kind}{sfx}', ca == cb,
                 f'recovered key->count {cb}, uninterrupted {ca}', wit('cache_counts'))
          if 'seen' in oa:
            # A user-defined algorithm that keeps the evaluated individuals with
            # their fitness (its population).  The default replay feeds them in
            # proposal order: with out-of-order feedback only the content is
            # compared.
            if cls == 'out-of-order':
              norm, chk = (lambda x: sorted(x, key=repr)), 'seen_sorted'
            else:
              norm, chk = (lambda x: x), 'seen'
            case('seen', f'{pre}.evaluated-individuals/{kind}/{_order(cls)}',
                 norm(ob.get('seen', [])) == norm(oa['seen']),
                 f'individuals with fitness the recovered instance knows {ob.get("seen")}, '
                 f'the uninterrupted one {oa["seen"]}', wit(chk))
          if snap['failed_proposes'] or kind in _NO_CONTINUATION:
            # The statement speaks of crash points after proposals and
            # feedbacks.  What a generator does after a propose() that raised
            # StopIteration (e.g. Deduping gave up after max_proposal_attempts
            # rejected duplicates, which are not part of the history) is
            # outside of it; exhaustion itself is compared at the crash point
            # before the failing call.
            continue
          want = allp[snap['pos']:snap['pos'] + m]
          if 'STOP' in want:
            want = want[:want.index('STOP') + 1]
          got = _continue(b, len(want)) if want else []
          if _raised(got):
            # The uninterrupted run proposes (or is exhausted); the recovered
            # instance raises something else.
            cid = f'{pre}.continuation-raises/{kind}'
          else:
            cid = f'{pre}.continuation/{kind}'
            if kind == 'dedup-random':
              cid += ('/rejected-duplicates-before-crash' if snap['rejected']
                      else '/no-rejected-duplicates-before-crash')
          case('continuation', cid, got == want,
               f'recovered instance ({variant} history handed over as {form}, '
               f'{"DNAs bound to the space" if variant == "bound" else "DNAs not bound to a spec"}'
               f', {"space built anew" if fresh else "same space object"}) continues with {got}, '
               f'uninterrupted run with {want}', wit('continuation', len(want)))


@_keeps_global_rng
def drv_recover_user_defined(tier, seed):
  quick = tier == 'quick'
  n = 6 if quick else 8
  m = 3 if quick else 5
  rec = Recorder(
      'C15', 'recover(): user-defined algorithms (pg.geno.dna_generator functions, DNAGenerator '
      'subclasses)',
      scope=('function-based generators made with pg.geno.dna_generator (every other point of the '
             'sweep; DNAs read from a persisted list, 4 then exhausted), a DNAGenerator subclass '
             'that keeps the evaluated individuals with fitness through _feedback (default replay), '
             'one that recovers its position through a _replay override, Deduping over the '
             f'function-based one and over the _replay one; spaces / N<={n} / patterns / crash '
             'points / JSON / metadata variants / two recover() calls / forms of the history / '
             'space anew / global RNG as in the deterministic driver; compares counts (all), '
             'evaluated individuals with fitness (_feedback class; content only when feedback is '
             f'out of order), dedup memory, the next {m} proposals (_replay class only: the '
             'decorator offers no replay hook, so nothing is claimed about the continuation of '
             'function-based generators)'))
  _drv_det(rec, 'user', _det_combos(tier, seed, n, _user_configs(tier, seed)), tier, seed, n, m)
  return rec.result()


def _order(cls):
  return 'out-of-order-feedback' if cls == 'out-of-order' else 'in-order-feedback'


def _evo_checks(rec, pre, kind, single, cls, key, oa, ob, snap, nxt, b, wit, dedup):
  """Compares the observable state of an Evolution (possibly inside Deduping).

  Checks that are mere consequences of an earlier failed check of the same
  recovery are skipped, so that one defect yields one case id.
  """
  order = _order(cls)
  in_flight = any(r is None for r in snap['rewards'])
  # A refused feedback call is no feedback (it is not in the history): runs
  # with such calls get their own id for the counters.
  rsfx = '/after-refused-feedback' if snap['refused'] else ''
  counts_ok = rec.case(
      f'{pre}.counts{rsfx}', key, ob['counts'] == oa['counts'],
      f'recovered (num_proposals, num_feedbacks)={ob["counts"]}, uninterrupted {oa["counts"]}',
      wit('counts'))
  inner_ok = True
  if dedup:
    inner_ok = rec.case(
        f'{pre}.inner-counts', key, ob['inner_counts'] == oa['inner_counts'],
        f'inner algorithm recovered with (num_proposals, num_feedbacks)={ob["inner_counts"]}, '
        f'uninterrupted {oa["inner_counts"]}', wit('inner_counts'))
    if oa['cache'] is not None and ob['cache'] is not None:
      if cls == 'out-of-order':
        norm = lambda c: {k: sorted(v, key=repr) for k, v in c.items()}
        chk = 'cache_sorted'
      else:
        norm = lambda c: c
        chk = 'cache'
      rec.case(f'{pre}.dedup-memory/' +
               ('with-in-flight-proposals' if in_flight else 'all-proposals-fed-back'),
               key, norm(ob['cache']) == norm(oa['cache']),
               f'recovered key->rewards {ob["cache"]}, uninterrupted {oa["cache"]}', wit(chk))
  pop_ok = rec.case(
      f'{pre}.population/{order}', key, ob['pop'] == oa['pop'],
      f'recovered population {ob["pop"]}, uninterrupted {oa["pop"]}', wit('pop'))
  secondary = pop_ok and cls != 'out-of-order'
  if secondary and inner_ok and counts_ok:
    rec.case(f'{pre}.population-ids', key, ob['pop_ids'] == oa['pop_ids'],
             f'(proposal_id, feedback_sequence_number, generation_id) of the population members: '
             f'recovered {ob["pop_ids"]}, uninterrupted {oa["pop_ids"]}', wit('pop_ids'))
  if secondary and oa['elites'] is not None:
    rec.case(f'{pre}.nsga2-elites', key, ob['elites'] == oa['elites'],
             f'recovered elites {ob["elites"]}, uninterrupted {oa["elites"]}', wit('elites'))
  if secondary and oa['species'] is not None:
    rec.case(f'{pre}.neat-species', key, ob['species'] == oa['species'],
             f'recovered species {ob["species"]}, uninterrupted {oa["species"]}', wit('species'))
  # State of the population initializer (a nested generator): its proposal
  # count, and its de-duplication memory if it de-duplicates.  Inside Deduping
  # the inner algorithm is not recovered at all (see dedup-evo.inner-counts).
  init_ok = not dedup
  if not dedup:
    in_flight_init = any(f and r is None for f, r in zip(snap['initial'], snap['rewards']))
    icls = ('with-in-flight-initial-proposals' if in_flight_init
            else 'all-initial-proposals-fed-back')
    init_ok = rec.case(
        f'{pre}.initializer.num_proposals/{icls}', key,
        ob['init_counts'][0] == oa['init_counts'][0],
        f'population initializer {oa["init_kind"]}: recovered num_proposals '
        f'{ob["init_counts"][0]}, uninterrupted {oa["init_counts"][0]} (initial individuals in '
        f'the history: {sum(snap["initial"])}, of which without reward: '
        f'{sum(1 for f, r in zip(snap["initial"], snap["rewards"]) if f and r is None)}; an '
        'initializer that lags behind proposes individuals again / draws another sequence)',
        wit('init_np'))
    if init_ok and oa['init_cache'] is not None and ob['init_cache'] is not None:
      rec.case(f'{pre}.initializer.dedup-memory', key, ob['init_cache'] == oa['init_cache'],
               f'de-duplication memory (key -> count) of the population initializer: recovered '
               f'{ob["init_cache"]}, uninterrupted {oa["init_cache"]}', wit('init_cache'))
  if nxt is None:
    phase = 'phase-unknown'
  else:
    phase = 'initial-population-phase' if nxt[1][1] else 'evolving-phase'
  gens_ok = True
  if inner_ok:
    gens_ok = rec.case(
        f'{pre}.num_generations/' + ('uninterrupted-run-still-at-0' if oa['gens'] == 0
                                     else 'uninterrupted-run-beyond-0'), key, ob['gens'] == oa['gens'],
        f'recovered num_generations {ob["gens"]}, uninterrupted {oa["gens"]}', wit('gens'))
  if nxt is None or not (counts_ok and inner_ok):
    return
  # The uninterrupted run proposes next.  The id of that proposal and whether
  # it still belongs to the initial population are functions of the state.
  try:
    d = b.propose()
    got = (_next_meta(d), d.metadata.get('generation_id'))
    got_dna = str(d)
    err = None
  except Exception as e:  # pylint: disable=broad-except
    got, err = None, f'{type(e).__name__}: {e}'
  if got is None and not single:
    # Batch algorithms lose undelivered children of the current batch and
    # must evolve again, which may fail for reasons unrelated to recovery
    # (NEAT divides by zero on a population with equal fitness).
    return
  # 'unsized-initializer': the initial phase ends when the initializer is
  # exhausted -- no size is given, or the uninterrupted run started evolving
  # when fewer feedbacks than the size had arrived (the initializer, e.g.
  # Deduping(Sweeping), ran out early).  That StopIteration is not in the history.
  tag = 'unsized-initializer' if oa['init_size'] is None or nxt[3] else 'sized-initializer'
  ok = rec.case(
      f'{pre}.next-proposal/{phase}/{tag}', key, got is not None and got[0] == nxt[1],
      f'next proposal of the recovered instance has (proposal_id, initial_population)='
      f'{got and got[0]} (error: {err}); the uninterrupted run proposes {nxt[1]}', wit('next'))
  if ok and init_ok and phase == 'initial-population-phase' and oa['init_det']:
    # These initializers (Sweeping, Random(seed), Deduping over them, a user
    # class with a `_replay` override) propose as a function of history and seed.
    cid = f'{pre}.next-proposal-dna/initial-population-phase/{oa["init_kind"]}'
    if oa['init_rejected']:
      cid += '/rejected-duplicates-before-crash'
    rec.case(cid, key, got_dna == nxt[0],
             f'next initial individual: recovered instance proposes {got_dna}, the uninterrupted '
             f'run {nxt[0]}', wit('next_dna'))
  if ok and gens_ok and single:
    rec.case(f'{pre}.next-proposal-generation/{tag}', key, got[1] == nxt[2],
             f'generation_id of the next proposal: recovered {got[1]}, uninterrupted {nxt[2]}',
             wit('next_gen'))


def _drv_evo(rec, pre, configs, tier, seed, n, dedup):
  quick = tier == 'quick'
  for ri, (kind, algo_expr, multi, single, sp, pname, events) in enumerate(
      _evo_combos(configs, tier, seed, n)):
    space_expr = SPACES[sp]
    r = rng(seed, f'c15-evo-{algo_expr}-{sp}')
    rewards = _rewards(n + 2, multi, r)
    run = rec.guard(f'{pre}.uninterrupted-run-error', (algo_expr, sp, pname),
                    lambda: _Run(algo_expr, space_expr, events, rewards),  # pylint: disable=cell-var-from-loop
                    witness=f'# uninterrupted run of {algo_expr} on {space_expr} raised')
    if run is None or run is False:
      continue
    refused_pattern = pname.startswith('refused')
    form_at = _form_points(len(run.snaps), quick, ri + seed)
    for ci, snap in enumerate(run.snaps):
      if refused_pattern and not snap['refused']:
        continue        # such prefixes are covered by the other patterns
      cls = _classify(snap['events'])   # class of the prefix actually executed
      variants = ['crash']
      if cls != 'out-of-order' and not (quick and refused_pattern):
        # Without the feedback sequence numbers the history does not tell the
        # feedback order, so these variants are limited to in-order feedback.
        if not quick or ci % 3 == 0:
          variants.append('proposal')
        if snap['last_fed'] is not None and (not quick or ci % 3 == 1):
          variants.append('mixed')
      nxt = None
      if ci + 1 < len(run.snaps) and run.snaps[ci + 1]['proposed'] is not None:
        nxt = run.snaps[ci + 1]['proposed']
      # The recovering instance is set up on the space object of the
      # uninterrupted run (even crash points) / on an equal space built anew.
      fresh = ci % 2 == 1
      k = snap['k']
      for variant in variants:
        deliveries = [(None, 'list')]
        if k >= 2 and variant == 'crash' and (
            (ci % 3 == 1) if not quick
            else (ci % 4 == 3 and not refused_pattern and cls != 'out-of-order')):
          # The history arrives in two recover() calls ("could be called
          # multiple times if there are multiple source of history"); the cut
          # rotates, so it also falls inside the initial population.
          deliveries.append(([k // 2, 1, k - 1][(ci // 4) % 3], 'list'))
        if k >= 1 and variant == 'crash' and ci in form_at:
          # The history is handed over as a one-shot iterator (records streamed
          # from storage) / a re-iterable that is no sequence / a tuple.
          deliveries.append((None, form_at[ci]))
        failed_single = set()
        for chunk, form in deliveries:
          key = (algo_expr, sp, pname, ci, variant, chunk, form,
                 'fresh-space' if fresh else 'same-space')
          wit = (lambda check, _s=snap, _v=variant, _c=chunk, _f=fresh, _fm=form:
                 _witness(space_expr, algo_expr, _s, _v, check, _c, fresh=_f, form=_fm))  # pylint: disable=cell-var-from-loop
          first = chunk is None and form == 'list'
          if first:
            sub = _SubRec(rec)
          else:
            # A failure of the split recovery / of another form of the history
            # is reported only if the same check passed for the single-call
            # recovery from a list (else: same defect).
            sub = _SubRec(rec, rename=(pre + '.', _delivery_prefix(pre, chunk, form) + '.'),
                          skip=failed_single)
          try:
            space_b = _target_space(run, space_expr, fresh)
            hist = _history(run, snap, variant, space_b)
            b = _recovered(algo_expr, space_b, hist, chunk, form)
            ob = _observe(b)
          except Exception as e:  # pylint: disable=broad-except
            sub.case(f'{pre}.recover-raises/{_order(cls)}', key, False,
                     f'loading the history / recover / reading the state raised '
                     f'{type(e).__name__}: {e}', wit('counts'))
          else:
            _evo_checks(sub, pre, kind, single, cls, key, snap['obs'], ob, snap, nxt,
                        b, wit, dedup)
          if first:
            failed_single = sub.failed


class _SubRec:
  """Recorder front: remembers the failed ids; optionally renames the ids and
  drops failures listed in `skip` (ids before renaming)."""

  def __init__(self, rec, rename=None, skip=()):
    self.rec, self.rename, self.skip, self.failed = rec, rename, skip, set()

  def case(self, cid, key, ok, message='', witness=''):
    if not ok:
      self.failed.add(cid)
      if cid in self.skip:
        return ok
    if self.rename:
      cid = cid.replace(self.rename[0], self.rename[1], 1)
    return self.rec.case(cid, key, ok, message, witness)


@_keeps_global_rng
def drv_recover_evolution(tier, seed):
  n = 8 if tier == 'quick' else 12
  rec = Recorder(
      'C15', 'recover(): regularized_evolution / hill_climb / nsga2 / neat / Evolution',
      scope=('regularized_evolution(pop 3-5), hill_climb(batch 1-3), nsga2(pop 2-3, 2 objectives), '
             'neat(pop 3-4), Evolution with a Sweeping / Deduping(Random(seed)) / Deduping(Sweeping) '
             'initialiser (sized / until exhausted); Uniform '
             'mutator; spaces 2x3, conditional, manyof, oneof x float, oneof3 (quick: 1 space per '
             f'configuration, rotated by seed); N<={n} proposals; patterns: one in-order (lockstep/'
             'lag/burst/tail), holes, one out-of-order (quick) or all + seeded random interleavings '
             '(thorough); crash after EVERY event prefix; history through pg JSON; DNA metadata as of '
             'crash / as of proposal / mixed; compares counts, population+fitness, member ids, '
             'num_generations, NSGA2 elites, NEAT species, id/phase of the next proposal, proposal '
             'count and dedup memory of the population initialiser, DNA of the next initial '
             'individual; single-objective algorithms: + one pattern with refused feedback calls '
             '(2-tuple reward -> ValueError; before the proper reward / instead of it), compared at '
             'every crash point after the first refusal; seed 0 in all seeded parts of one '
             'regularized_evolution and one hill_climb (thorough: nsga2, neat); Evolution with a '
             'seeded random / scheduled population update: selectors.Random(3, seed=0), '
             'Random(0.75, replacement, seed), Sample(3, weights, seed=0), Last(2).with_prob(0.5, '
             'seed=0), Last(f(step)) (quick: in-order + holes + one of out-of-order/refused); '
             '(thorough: 1 space each); history in two recover() calls (quick: every 4th crash '
             'point of the in-order/holes patterns, thorough: every 3rd; cut k/2, 1, k-1 rotating); space object same / built anew alternating; '
             'history also as a one-shot iterator / re-iterable non-sequence / tuple as in the '
             'deterministic driver; Evolution with a user-defined population initializer '
             '(pg.geno.dna_generator function; DNAGenerator subclass with _replay), sized 3; '
             'process-global RNG reseeded differently for the uninterrupted run and each recovery'))
  _drv_evo(rec, 'evo', _evo_configs(tier, seed), tier, seed, n, dedup=False)
  return rec.result()


@_keeps_global_rng
def drv_recover_dedup_evolution(tier, seed):
  n = 7 if tier == 'quick' else 10
  rec = Recorder(
      'C15', 'recover(): Deduping over evolution algorithms',
      scope=('Deduping(regularized_evolution|hill_climb; thorough: + neat) with hash_fn, '
             'max_duplicates 1-2, auto_reward_fn (controller-side rewards are fed back immediately, '
             f'as pg.sample does); spaces oneof3, 2x3, conditional, manyof; N<={n}; patterns, crash '
             'points and JSON as in the evolution driver; compares outer and inner counts, inner '
             'population, dedup memory (key -> rewards), id/phase of the next proposal; + one '
             'pattern with refused feedback calls as in the evolution driver; + Deduping over an '
             'Evolution with a seeded random population update (seed 0); two recover() calls, '
             'space anew, forms of the history and global RNG as in the evolution driver'))
  _drv_evo(rec, 'dedup-evo', _dedup_evo_configs(tier, seed), tier, seed, n, dedup=True)
  return rec.result()


# ---------------------------------------------------------------------------
# History persisted by a tuning backend: the trials of a study.
#
# The uninterrupted run is driven through `pg.sample` (in-memory backend, one
# worker group per proposal so that several trials can be in flight).  What
# survives a crash are the stored trials; the history for `recover` is built
# from them the way a backend does: (trial.dna, trial.get_reward_for_feedback(
# metrics_to_optimize)).  Trials whose reward never reached the algorithm are
# pending ones (with or without intermediate measurements) and ones abandoned
# with `feedback.skip()`.
# ---------------------------------------------------------------------------

def _trial_configs(tier, seed):
  """(kind, algo_expr, metrics_to_optimize, deterministic, spaces)."""
  s = 1 + seed
  mut = f"ev.mutators.Uniform(seed={s})"
  cfgs = [
      ('sweeping', "pg.geno.Sweeping()", ['reward'], True, ['c2xc3', 'cond']),
      ('random', f"pg.geno.Random(seed={s})", ['acc'], True, ['float', 'many']),
      ('dedup-sweeping', f"pg.geno.Deduping(pg.geno.Sweeping(), hash_fn={_SUM}, max_duplicates=2)",
       ['reward'], True, ['cond', 'c2xc3']),
      ('evolution',
       f"ev.Evolution(ev.selectors.Top(1) >> {mut}, "
       "population_init=(pg.geno.Sweeping(), 3), "
       "population_update=ev.selectors.Last(4))",
       ['reward'], False, ['c2xc3', 'cond']),
      ('regularized_evolution',
       f"ev.regularized_evolution({mut}, population_size=3, tournament_size=2, seed={s})",
       ['acc'], False, ['cond', 'float']),
      ('hill_climb',
       f"ev.hill_climb({mut}, batch_size=1, init_population_size=2, seed={s})",
       ['reward'], False, ['float', 'many']),
      ('nsga2', f"ev.nsga2({mut}, population_size=2, seed={s})",
       ['reward', 'cost'], False, ['c2xc3', 'many']),
      # Seeded random population update, all seeds 0.
      ('evolution-random-update', _update_configs(seed)[0][1],
       ['reward'], False, ['c2xc3', 'float']),
  ]
  return cfgs


def _trial_patterns(n):
  """Events: 'p'; ('d', i) measurement + done; ('m', i) intermediate
  measurement only; ('s', i) skip.  Completions are in proposal order."""
  p1, p2, p3 = [], [], []
  for i in range(n):
    p1 += ['p', ('s', i) if i % 3 == 1 else ('d', i)]
    p2.append('p')
    j = i - 1
    if j >= 0:
      p2.append(('m', j))
      if j % 4 != 2:
        p2.append(('d', j))
    p3.append('p')
    j = i - 2
    if j >= 0:
      if j % 2 == 0:
        p3.append(('m', j))
      p3.append(('s', j) if j % 3 == 0 else ('d', j))
  return [('lockstep-skips', p1), ('lag1-measured', p2), ('lag2-measured-skips', p3)]


def _measurement_args(metrics, reward):
  """(reward, metrics) arguments of Feedback.add_measurement."""
  if metrics == ['reward']:
    return (reward, None)
  if len(metrics) == 1:
    return (None, {metrics[0]: reward})
  return (tuple(reward), None)


_STUDY_NO = [0]


class _TrialRun:
  """Uninterrupted run through pg.sample, snapshotting the stored trials."""

  def __init__(self, algo_expr, space_expr, metrics, events, args, extra):
    _STUDY_NO[0] += 1
    self.study = f'c15-bounded-{os.getpid()}-{_STUDY_NO[0]}'
    _reseed('uninterrupted')
    self.space = eval(space_expr, _NS)  # pylint: disable=eval-used
    self.algo = eval(algo_expr, _NS)    # pylint: disable=eval-used
    self.metrics = metrics
    self.fbs = []
    self.state = []          # per proposal: 'pending' | 'measured' | 'done' | 'skipped'
    self.executed = []
    self.outcomes = []
    self.snaps = []
    for e in events:
      if e == 'p':
        it = pg.sample(self.space, self.algo, name=self.study, group=f'w{len(self.fbs)}',
                       metrics_to_optimize=metrics)
        try:
          _, fb = next(it)
        except StopIteration:
          break
        self.fbs.append(fb)
        self.state.append('pending')
        self.outcomes.append(str(fb.dna))
      else:
        op, i = e
        if i >= len(self.fbs) or self.state[i] in ('done', 'skipped'):
          continue
        fb = self.fbs[i]
        if op == 'd':
          fb.add_measurement(*args[i], step=2)
          fb.done()
          self.state[i] = 'done'
        elif op == 'm':
          fb.add_measurement(*args[i + 1], step=1)
          self.state[i] = 'measured'
        else:
          fb.skip()
          self.state[i] = 'skipped'
      self.executed.append(e)
      self.snaps.append(dict(
          events=list(self.executed),
          trials_json=pg.to_json_str(pg.tuning.poll_result(self.study).trials),
          obs=_observe(self.algo), k=len(self.fbs), state=list(self.state)))
    self.tail = []
    for _ in range(extra):
      try:
        self.tail.append(str(self.algo.propose()))
      except StopIteration:
        self.tail.append('STOP')
        break


def _trial_class(state):
  if 'skipped' in state:
    return 'with-skipped-trials'
  if 'measured' in state:
    return 'with-measured-pending-trials'
  if 'pending' in state:
    return 'with-pending-trials'
  return 'all-trials-completed'


_W_TRIALS = """import random,pyglove as pg
ev=pg.evolution
S={space}
mk=lambda:{algo}
M={metrics};E={events};R={rewards}
A=lambda r:{args}
random.seed(1);a=mk();n='w%d'%id(a);F=[]
for e in E:
  i=int(e[1:] or 0)
  if e=='p':F.append(next(pg.sample(S,a,name=n,group=str(len(F)),metrics_to_optimize=M))[1])
  elif e[0]=='d':F[i].add_measurement(*A(R[i]),step=2);F[i].done()
  elif e[0]=='m':F[i].add_measurement(*A(R[i+1]),step=1)
  else:F[i].skip()
T=pg.from_json_str(pg.to_json_str(pg.tuning.poll_result(n).trials))
H=[(t.dna,t.get_reward_for_feedback(M)) for t in T]
random.seed(2);b=mk();b.setup(S);{recover}
"""


def _w_args(metrics):
  if len(metrics) == 1 and metrics != ['reward']:
    return f'(None,{{{metrics[0]!r}:r}})'
  return '(r,)'


@_keeps_global_rng
def drv_recover_from_trials(tier, seed):
  quick = tier == 'quick'
  n = 6 if quick else 9
  m = 2 if quick else 4
  rec = Recorder(
      'C15', 'recover() from the trials stored by a tuning backend',
      scope=('uninterrupted run through pg.sample (in-memory backend, one worker group per '
             'proposal); Sweeping, Random(seed), Deduping(Sweeping), Evolution(Sweeping init), '
             'regularized_evolution, hill_climb, nsga2; metrics_to_optimize reward / a named metric '
             f'/ two objectives; N<={n} trials; trials completed in order, skipped (with and without '
             'earlier measurements), left pending (with and without intermediate measurements); '
             'crash after EVERY event; trials through pg JSON; history = (trial.dna, '
             'trial.get_reward_for_feedback(metrics)); compares counts, population+fitness, dedup '
             f'memory, the next {m} proposals of the deterministic generators (a continuation that '
             'raises is a failed case); + Evolution with a seeded random population update (seed '
             '0); every 3rd crash point also with the trials delivered in two recover() calls; '
             'last crash point of every run (thorough: every 3rd): history built lazily from the '
             'trials (generator expression), middle one: re-iterable non-sequence / tuple'
             + ('; quick: 1 space x 2 patterns (generators without feedback: 1) per algorithm, rotated by seed' if quick else '')))
  for ci, (kind, algo_expr, metrics, det, spaces) in enumerate(_trial_configs(tier, seed)):
    if quick:
      spaces = [spaces[(seed + ci) % len(spaces)]]
    for j, sp in enumerate(spaces):
      space_expr = SPACES[sp]
      pats = _trial_patterns(n)
      if quick:
        pats = _rot(pats, ci + j + seed, 1 if det else 2)
      r = rng(seed, f'c15-trials-{algo_expr}-{sp}')
      rewards = _rewards(n + 1, len(metrics) > 1, r)
      args = [_measurement_args(metrics, x) for x in rewards]
      for pname, events in pats:
        run = rec.guard('trials.uninterrupted-run-error', (algo_expr, sp, pname),
                        lambda: _TrialRun(algo_expr, space_expr, metrics, events, args, m + 1),  # pylint: disable=cell-var-from-loop
                        witness=f'# pg.sample with {algo_expr} on {space_expr} raised')
        if run is None or run is False:
          continue
        allp = run.outcomes + run.tail
        form_at = _form_points(len(run.snaps), quick, ci + j + seed)
        for ci2, snap in enumerate(run.snaps):
          tcls = _trial_class(snap['state'])
          deliveries = [(None, 'list')]
          if snap['k'] >= 2 and ci2 % 3 == 1:
            # Trials of two sources (e.g. an earlier study + the current one):
            # the history arrives in two recover() calls.
            deliveries.append(([snap['k'] // 2, 1, snap['k'] - 1][(ci2 // 3) % 3], 'list'))
          if ci2 in form_at:
            # The history is built lazily from the stored trials (a generator
            # expression over them) / is a re-iterable non-sequence / a tuple.
            deliveries.append((None, form_at[ci2]))
          failed_single = set()
          for chunk, form in deliveries:
            key = (algo_expr, sp, pname, ci2, chunk, form)
            first = chunk is None and form == 'list'
            if first:
              sub = _SubRec(rec)
            else:
              sub = _SubRec(rec, rename=('trials.', _delivery_prefix('trials', chunk, form) + '.'),
                            skip=failed_single)

            def wit(check, m_=0, _s=snap, _c=chunk, _fm=form):
              w = _W_TRIALS.format(
                  space=space_expr, algo=algo_expr, metrics=metrics, args=_w_args(metrics),  # pylint: disable=cell-var-from-loop
                  events=repr([e if e == 'p' else f'{e[0]}{e[1]}' for e in _s['events']]).replace(' ', ''),
                  rewards=repr(rewards[:_s['k'] + 1]).replace(' ', ''),  # pylint: disable=cell-var-from-loop
                  recover=(f'b.recover({_FORMS[_fm][1]})' if _c is None
                           else f'b.recover(H[:{_c}]);b.recover(H[{_c}:])'))
              if _fm == 'one-shot-iterator':     # (built lazily from the trials)
                w = w.replace('H=[(t.dna,t.get_reward_for_feedback(M)) for t in T]',
                              'H=((t.dna,t.get_reward_for_feedback(M)) for t in T)'
                              ).replace('b.recover((x for x in H))', 'b.recover(H)')
              w += (_W_CONT.format(m=m_) if check == 'continuation' else _W_CHECK[check] + '\n')
              return w + 'x,y=f(b),f(a)\nassert x==y,(x,y)'
            try:
              trials = pg.from_json_str(snap['trials_json'])
              if form == 'one-shot-iterator':
                # (Lazily: dna and reward are read when recover() asks for them.)
                hist = ((t.dna, t.get_reward_for_feedback(metrics)) for t in trials)
                b = _recovered(algo_expr, run.space, hist)
              else:
                hist = [(t.dna, t.get_reward_for_feedback(metrics)) for t in trials]
                b = _recovered(algo_expr, run.space, hist, chunk, form)
              ob = _observe(b)
            except Exception as e:  # pylint: disable=broad-except
              sub.case(f'trials.recover-raises/{tcls}', key, False,
                       f'building the history from the stored trials / recover / reading the '
                       f'state raised {type(e).__name__}: {e}', wit('counts'))
              if first:
                failed_single = sub.failed
              continue
            oa = snap['obs']
            ok = sub.case(f'trials.counts/{tcls}', key, ob['counts'] == oa['counts'],
                          f'recovered (num_proposals, num_feedbacks)={ob["counts"]}, uninterrupted '
                          f'{oa["counts"]}; trial states {snap["state"]}', wit('counts'))
            if ok:      # (else the replayed rewards are not those of the live run)
              if 'pop' in oa:
                sub.case(f'trials.population/{tcls}', key, ob['pop'] == oa['pop'],
                         f'recovered population {ob["pop"]}, uninterrupted {oa["pop"]}', wit('pop'))
              if oa.get('cache') is not None and ob.get('cache') is not None:
                ca = {k: len(v) for k, v in oa['cache'].items()}
                cb = {k: len(v) for k, v in ob['cache'].items()}
                sub.case(f'trials.dedup-memory/{tcls}', key, ca == cb,
                         f'recovered key->count {cb}, uninterrupted {ca}', wit('cache_counts'))
              if det:
                want = allp[snap['k']:snap['k'] + m]
                if 'STOP' in want:
                  want = want[:want.index('STOP') + 1]
                got = _continue(b, len(want)) if want else []
                what = 'continuation-raises' if _raised(got) else 'continuation'
                sub.case(f'trials.{what}/{kind}/{tcls}', key, got == want,
                         f'recovered instance continues with {got}, uninterrupted run with {want}',
                         wit('continuation', len(want)))
            if first:
              failed_single = sub.failed
  return rec.result()


DRIVERS = [drv_recover_deterministic, drv_recover_evolution, drv_recover_dedup_evolution,
           drv_recover_from_trials, drv_recover_user_defined]


def replay(rec):
  """Re-executes rec['witness']; returns (ok, message)."""
  try:
    exec(rec['witness'], {})  # pylint: disable=exec-used
    return True, 'witness passes'
  except Exception as e:  # pylint: disable=broad-except
    return False, f'{type(e).__name__}: {e}'
