"""C20 -- HTML views are well-formed and never let data break out of its text position.

Bounded run-time oracle drivers (never counted as proved).  Everything is judged
from the *output string* of the public entry points (pg.to_html_str,
pg.to_html(...).to_str, value.to_html / value.to_html_str, pg.view_options)
with an oracle that does not look at how pyglove builds the string:

* `parse_html` -- a strict HTML tokenizer/validator on top of
  html.parser.HTMLParser: open-element stack (every end tag must close the
  innermost open element, nothing may stay open), void elements, raw-text
  elements (script/style), strict start/end tag syntax (every attribute value
  quoted, no duplicate attributes), no comments / declarations / processing
  instructions / CDATA sections, no bare `<` or `&` in text, only known
  character references, no raw `<`/`>` inside attribute values.
* injection oracle -- every planted payload carries a unique marker
  (`xm<N>z` where the payload tries to open an element, `xa<N>z` where it tries
  to add an attribute).  After parsing, no element or attribute may be named
  after a marker, no marker may sit inside script/style, the payload may not
  occur verbatim in the output when it contains `<`, and the payload has to be
  found intact in the (unescaped) text of the document or in an attribute
  value.
* non-interference -- the same rendering with every payload replaced by an
  alphanumeric twin of equal length has to have exactly the same element /
  attribute-name skeleton.
* presence -- every key and every leaf of the rendered tree (as selected by
  the documented meaning of include_keys / exclude_keys / hide_frozen /
  hide_default_values) is found in the text outside of tooltips; numbers,
  bools, None and int keys / sequence positions have to occur as a token of
  their own (`0.0` inside `-0.0` or `1` inside `1.0` is another value).
* leaf identity -- look-alike leaves (equal across types such as 1 / True /
  1.0, 0.0 / -0.0, 10**20 / 1e20, user objects with a permissive __eq__; texts
  contained in one another) are each shown as themselves, side by side in one
  value and in consecutive renderings (no dependence on what was rendered
  before).
* the value is unchanged by rendering (structural snapshot incl. parents/paths,
  and pg.eq with a clone taken before).

* building blocks -- the public methods of the view (render, content,
  complex_value, summary, simple_value, object_key) are called directly and
  from extension hooks that forward none / some / all of their options: the
  same oracles hold when an option is left to the default of the method that
  is called.

* special values -- pg.Diff (every shape, flattened diffs), pg.Ref, contextual
  attributes, partial objects, hyper values and value specs stored under a key
  of every kind of container: the embedding key, the keys they draw themselves
  and their leaves are present.
* control state -- every control shape with every inherited field (id /
  css_classes / styles / interactive) at every nesting level is unchanged by
  rendering (once, twice, after each update operation); so are extensions that
  hand their own fields to the view as option values.
* child_config -- the configuration of one child does not select the keys /
  leaves of its siblings.

Drivers: drv_positions, drv_option_pairs, drv_controls, drv_scoping,
drv_leaf_identity, drv_building_blocks, drv_special_values, drv_control_state,
drv_child_config.
"""
import html as _html
import html.entities as _entities
import os
import re
import subprocess
import sys
import threading
from html.parser import HTMLParser

import pyglove as pg
from pyvc.bounded import Recorder, rng

PROP = 'C20'

# ---------------------------------------------------------------------------
# Strict HTML tokenizer / validator.
# ---------------------------------------------------------------------------

VOID = frozenset('area base br col embed hr img input link meta source track wbr'.split())
RAWTEXT = frozenset(['script', 'style'])

_NAME = r'[a-zA-Z][a-zA-Z0-9-]*'
_ATTR = r'''[a-zA-Z_:][-a-zA-Z0-9_:.]*(?:\s*=\s*(?:"[^"]*"|'[^']*'))?'''
_START_RE = re.compile(r'<%s(?:\s+%s)*\s*/?>\Z' % (_NAME, _ATTR))
_END_RE = re.compile(r'</%s\s*>' % _NAME)
_ATTR_RAW_RE = re.compile(r'''\s([a-zA-Z_:][-a-zA-Z0-9_:.]*)\s*=\s*(?:"([^"]*)"|'([^']*)')''')
MARK_RE = re.compile(r'x[ma]\d+z')


class HtmlDoc:
  """Result of a strict parse."""

  def __init__(self):
    self.errors = []      # [(kind, detail)]
    self.skeleton = []    # [('S', tag, (attr names...)) | ('E', tag)]
    self.names = []       # every tag name and attribute name (lower-cased)
    self.attrs = []       # [(tag, name, unescaped value, raw value)]
    self.text_all = []    # text pieces outside script/style, unescaped
    self.text_vis = []    # ... and outside elements of class `tooltip`
    self.text_tok = []    # text_vis with '\x1f' at every element boundary
    self.rawtext = []     # script/style contents

  def all_text(self):
    return ''.join(self.text_all)

  def visible_text(self):
    return ''.join(self.text_vis)

  def token_text(self):
    """Visible text in which element boundaries separate tokens."""
    return ''.join(self.text_tok)


class _Strict(HTMLParser):

  def __init__(self):
    super().__init__(convert_charrefs=False)
    self.doc = HtmlDoc()
    self.stack = []   # [(tag, in_tooltip)]

  def _err(self, kind, detail=''):
    if len(self.doc.errors) < 50:
      self.doc.errors.append((kind, str(detail)[:80]))

  # -- tags
  def _open(self, tag, attrs, selfclosing):
    raw = self.get_starttag_text() or ''
    if not _START_RE.match(raw):
      self._err('malformed-start-tag', raw)
    names = [n for n, _ in attrs]
    if len(set(names)) != len(names):
      self._err('duplicate-attribute', raw)
    rawvals = {}
    for m in _ATTR_RAW_RE.finditer(raw):
      rawvals.setdefault(m.group(1).lower(),
                         m.group(2) if m.group(2) is not None else m.group(3))
    for n, v in attrs:
      rv = rawvals.get(n, '')
      if '<' in rv or '>' in rv:
        self._err('unescaped-angle-in-attribute', '%s=%r' % (n, rv))
      self.doc.attrs.append((tag, n, v if v is not None else '', rv))
    self.doc.names.append(tag)
    self.doc.names.extend(names)
    self.doc.skeleton.append(('S', tag, tuple(sorted(names))))
    self.doc.text_tok.append('\x1f')
    if tag in VOID:
      return
    if selfclosing:
      self._err('self-closing-non-void', raw)
      self.doc.skeleton.append(('E', tag))
      return
    cls = dict(attrs).get('class') or ''
    tip = 'tooltip' in cls.split() or (bool(self.stack) and self.stack[-1][1])
    self.stack.append((tag, tip))

  def handle_starttag(self, tag, attrs):
    self._open(tag, attrs, False)

  def handle_startendtag(self, tag, attrs):
    self._open(tag, attrs, True)

  def parse_endtag(self, i):
    if not _END_RE.match(self.rawdata, i):
      self._err('malformed-end-tag', self.rawdata[i:i + 30])
    return super().parse_endtag(i)

  def handle_endtag(self, tag):
    self.doc.skeleton.append(('E', tag))
    self.doc.text_tok.append('\x1f')
    if tag in VOID:
      self._err('end-tag-for-void', tag)
      return
    if not self.stack:
      self._err('stray-end-tag', tag)
      return
    if self.stack[-1][0] != tag:
      self._err('misnested-end-tag',
                '</%s> while <%s> is open' % (tag, self.stack[-1][0]))
      # Recover like a browser would: close up to the matching element.
      for j in range(len(self.stack) - 1, -1, -1):
        if self.stack[j][0] == tag:
          del self.stack[j:]
          break
      return
    self.stack.pop()

  # -- text
  def _text(self, t):
    self.doc.text_all.append(t)
    if not (self.stack and self.stack[-1][1]):
      self.doc.text_vis.append(t)
      self.doc.text_tok.append(t)

  def handle_data(self, data):
    if self.stack and self.stack[-1][0] in RAWTEXT:
      self.doc.rawtext.append(data)
      return
    if '<' in data:
      self._err('bare-lt-in-text', data)
    if '&' in data:
      self._err('bare-amp-in-text', data)
    self._text(data)

  def handle_entityref(self, name):
    if name + ';' not in _entities.html5:
      self._err('unknown-entity', '&%s;' % name)
      self._text('&%s;' % name)
    else:
      self._text(_html.unescape('&%s;' % name))

  def handle_charref(self, name):
    self._text(_html.unescape('&#%s;' % name))

  # -- things that must never appear
  def handle_comment(self, data):
    self._err('comment', data)

  def handle_decl(self, decl):
    self._err('declaration', decl)

  def unknown_decl(self, data):
    self._err('marked-section', data)

  def handle_pi(self, data):
    self._err('processing-instruction', data)


def parse_html(s):
  """Strictly parses `s`; returns an HtmlDoc (doc.errors empty iff well-formed)."""
  p = _Strict()
  try:
    p.feed(s)
    p.close()
  except Exception as e:  # pylint: disable=broad-except
    p._err('parser-exception', '%s: %s' % (type(e).__name__, e))  # pylint: disable=protected-access
  if p.stack:
    p._err('unclosed-elements', ' '.join(t for t, _ in p.stack))  # pylint: disable=protected-access
  return p.doc


def has_token(text, t):
  """`t` occurs in `text` as a token of its own.

  A number that is only part of a longer literal (`0.0` inside `-0.0`, `1`
  inside `1.0` or `21`, `'a'` inside `b'a'`) is a different value, hence not
  an occurrence of `t`.  `text` is HtmlDoc.token_text(): element boundaries
  are token boundaries.
  """
  return re.search(r'(?<![\w.+\-])' + re.escape(t) + r'(?![\w.])', text) is not None


def check_html(s, marks=()):
  """Convenience for witnesses: list of problems of document `s`."""
  doc = parse_html(s)
  out = ['%s: %s' % e for e in doc.errors]
  for n in doc.names:
    if MARK_RE.search(n) or any(m in n for m in marks):
      out.append('element/attribute named after data: %s' % n)
  for r in doc.rawtext:
    if MARK_RE.search(r):
      out.append('data inside script/style')
  return out


# ---------------------------------------------------------------------------
# Payloads.
# ---------------------------------------------------------------------------

# {m}: marker that would become an element name, {a}: marker that would become
# an attribute name, if the payload is not kept in its text position.
PAYLOADS = [
    ('tag', '<{m}>'),
    ('close-div', '</div></details><{m}>'),
    ('close-cell', '</span></td></tr></table><{m}>'),
    ('close-summary', '</summary></div><{m}>'),
    ('script', '<script>{m}()</script>'),
    ('end-script', '</script></style><{m}>'),
    ('comment', '<!-- {m}'),
    ('comment-end', '--> <{m}> <!--'),
    ('cdata', ']]> <![CDATA[ <{m}> ]]>'),
    ('img', '<img src=x onerror={m}()>'),
    ('dq-attr', '" {a}="1'),
    ('sq-attr', "' {a}='1"),
    ('attr-tag', '"><{m} {a}="'),
    ('entities', '&lt;{m}&gt; &amp; &#60;{m}&#62; &bogus; & &quot'),
    ('mixed', 'a<b>&"\'{m}</b>'),
    ('pi', '<?{m} ?>'),
    ('decl', '<!DOCTYPE {m}>'),
    ('newline', 'l1<{m}\n {a}="1">\tl2'),
    ('relational', '1 < 2 > {m} & 3'),
    ('backslash', '\\"</{m}>\\n'),
    ('unicode', '<\u00e9{m}>\u2028\u202e<{m}>'),
]
PAYLOAD_NAMES = [n for n, _ in PAYLOADS]
_PAYLOAD = dict(PAYLOADS)
# Payloads usable as dict keys without touching the (separately tracked)
# key-path parsing problem of keys containing '.', '[' or ']'.
KEY_SAFE = [n for n, t in PAYLOADS if not set('.[]') & set(t)]


class Plant:
  """A payload planted at one position of a value / option."""
  _counter = [0]

  def __init__(self, pos, payload, expect='text', suffix='', prefix=''):
    Plant._counter[0] += 1
    n = Plant._counter[0]
    self.pos = pos              # position class, first part of the case id
    self.payload = payload      # payload name
    self.m = 'xm%dz' % n
    self.a = 'xa%dz' % n
    self.text = prefix + _PAYLOAD[payload].format(m=self.m, a=self.a) + suffix
    self.twin = re.sub(r'[^a-zA-Z0-9]', 'w', self.text)
    # 'str'  : a str leaf, shown as repr(text) or text
    # 'text' : shown as text verbatim (keys, names, titles, reprs)
    # 'attr' : shown as attribute value
    # 'none' : need not be shown at all (only must not leak)
    self.expect = expect

  def src(self, twin=False):
    return repr(self.twin if twin else self.text)


_KF_NO_STR_SUMMARY = '+enable_summary_for_str=False'


def _verbatim(text, s):
  """`text` needs escaping (has `<` or a `&`) and still occurs as is in `s`."""
  return ('<' in text or re.search(r'&(?!amp;)', text) is not None) and text in s


def _found(p, text):
  if p.expect == 'str':
    return p.text in text or repr(p.text) in text
  return p.text in text


# ---------------------------------------------------------------------------
# Value snapshot (to decide "rendering does not modify the value").
# ---------------------------------------------------------------------------

def snapshot(v, depth=0):
  """Structure + leaves + parent/path bookkeeping of `v`."""
  if depth > 12:
    return ('deep',)
  if isinstance(v, pg.Symbolic):
    try:
      items = list(v.sym_items())
    except Exception:  # pylint: disable=broad-except
      items = []
    extra = ()
    if isinstance(v, pg.Ref):
      extra = ('ref', id(v.value), snapshot(v.value, depth + 1))
    return ('S', type(v).__name__, str(v.sym_path), id(v.sym_parent),
            v.is_sealed, v.allow_partial, extra,
            tuple((k, id(c) if isinstance(c, pg.Symbolic) else None,
                   snapshot(c, depth + 1)) for k, c in items))
  if isinstance(v, dict):
    return ('d', tuple((k, snapshot(c, depth + 1)) for k, c in v.items()))
  if isinstance(v, (list, tuple)):
    return (type(v).__name__, tuple(snapshot(c, depth + 1) for c in v))
  if isinstance(v, (str, int, float, bool, bytes, type(None))):
    return (type(v).__name__, v)
  if isinstance(v, pg.Html):
    # markup handed to a control / stored in a tree: content, styles and scripts.
    try:
      return ('html', id(v), v.to_str())
    except Exception:  # pylint: disable=broad-except
      return ('html', id(v))
  return ('o', id(v), type(v).__name__)


# ---------------------------------------------------------------------------
# A rendering case: sources (so that witnesses are runnable) + oracle.
# ---------------------------------------------------------------------------

_NS_CACHE = {}


def _ns(prelude):
  ns = _NS_CACHE.get(prelude)
  if ns is None:
    ns = {'pg': pg, '__name__': '__main__'}
    exec(prelude, ns)  # pylint: disable=exec-used
    _NS_CACHE[prelude] = ns
  return dict(ns)


# entry point -> statement template.  {view} are the keyword arguments that
# are view options (plus name/root_path), {co} is content_only.
ENTRIES = {
    'pg.to_html_str': 's = pg.to_html_str(v, content_only={co}{cview})',
    'pg.to_html': 's = pg.to_html(v{cview}).to_str(content_only={co})',
    'v.to_html_str': 's = v.to_html_str(content_only={co}{cview})',
    'v.to_html': 's = v.to_html({view}).to_str(content_only={co})',
    'view_options': 'with pg.view_options({scoped}):\n  s = pg.to_html_str(v, content_only={co}{cdirect})',
    'repr_html': 's = pg.to_html(v{cview})._repr_html_()',
    # methods of the view object itself
    'view.render': 's = pg.views.HtmlTreeView().render(v{cview}).to_str(content_only={co})',
    'view.content': 's = pg.views.HtmlTreeView().content(v{cview}).to_str(content_only={co})',
    'view.summary': 's = (pg.views.HtmlTreeView().summary(v{cview}) or pg.Html()).to_str(content_only={co})',
    'view.simple_value': 's = pg.views.HtmlTreeView().simple_value(v{cview}).to_str(content_only={co})',
    'view.tooltip': 's = pg.views.HtmlTreeView().tooltip(v{cview}).to_str(content_only={co})',
    'view.object_key': ('s = pg.views.HtmlTreeView().object_key(pg.KeyPath([v]), value=1, parent=None{cview})'
                        '.to_str(content_only={co})'),
    'view.complex_value': ('s = pg.views.HtmlTreeView().complex_value(v, parent=v, root_path=pg.KeyPath(){cview})'
                           '.to_str(content_only={co})'),
    # the children of any container, handed over as the key -> value mapping
    'view.complex_value[items]': (
        'kv = (dict(v.sym_items()) if isinstance(v, pg.Symbolic) else dict(enumerate(v)) '
        'if isinstance(v, (list, tuple)) else v)\n'
        's = pg.views.HtmlTreeView().complex_value(kv, parent=v, root_path=pg.KeyPath(){cview})'
        '.to_str(content_only={co})'),
    'view.complex_value[parent=None]': (
        's = pg.views.HtmlTreeView().complex_value(v, parent=None, root_path=pg.KeyPath(){cview})'
        '.to_str(content_only={co})'),
}
_DIRECT = ('name', 'root_path')   # not view options: passed to the call itself


def render_stmt(entry, opts):
  """opts: list of (name, source).  Returns the statement computing `s`."""
  co = 'False'
  view, scoped, direct = [], [], []
  for k, src in opts:
    if k == 'content_only':
      co = src
      continue
    view.append('%s=%s' % (k, src))
    (direct if k in _DIRECT else scoped).append('%s=%s' % (k, src))
  v = ', '.join(view)
  d = ', '.join(direct)
  return ENTRIES[entry].format(
      co=co, view=v, cview=(', ' + v) if v else '',
      scoped=', '.join(scoped), cdirect=(', ' + d) if d else '')


_W_CHECK = '''from html.parser import HTMLParser as H
class C(H):
  def __init__(s): super().__init__(convert_charrefs=False); s.k=[]; s.e=[]
  def handle_starttag(s,t,a):
    s.e+=[x for x in [t]+[n for n,_ in a] if __import__('re').search('x[ma]\\\\d+z',x)]
    if t not in ('br','hr','img','input','link','meta'): s.k.append(t)
  def handle_endtag(s,t):
    if not s.k or s.k.pop()!=t: s.e.append('/'+t)
  def handle_comment(s,d): s.e.append('!'+d[:9])
  handle_decl=handle_pi=unknown_decl=handle_comment
  def handle_data(s,d):
    if '<' in d and s.k[-1:] not in (['script'],['style']): s.e.append(d[:9])
c=C(); c.feed(s); c.close(); assert not c.e and not c.k, (c.e, c.k)'''

_W_TEXT = ("import html, re; t = html.unescape(re.sub(r'<[^>]*>', '', "
           "re.sub(r'<span class=\"tooltip[^\"]*\"[^>]*>[^<]*</span>', '', s)))")
_W_TOKEN = ("import html, re; t = html.unescape(re.sub(r'<[^>]*>', '\\x1f', "
            "re.sub(r'<span class=\"tooltip[^\"]*\"[^>]*>[^<]*</span>', '', s))); "
            "miss = [x for x in %r if not re.search(r'(?<![\\w.+\\-])' + re.escape(x) + r'(?![\\w.])', t)]; "
            "assert not miss, miss")
_W_FALLBACK = ("import sys; sys.path[:0] = ['/verif']; from bounded.c20_html import check_html; "
               "assert not check_html(s), check_html(s)[:3]")


def _fails(code):
  try:
    exec(code, {'__name__': '__main__'})  # pylint: disable=exec-used
    return False
  except BaseException:  # pylint: disable=broad-except
    return True


def make_witness(prelude, vsrc, stmt, asserts):
  """First assertion candidate under which the snippet really fails."""
  head = 'import pyglove as pg\n' + prelude + ('' if prelude.endswith('\n') or not prelude else '\n')
  head += 'v = %s\n%s\n' % (vsrc, stmt)
  for a in list(asserts) + [_W_CHECK, _W_FALLBACK]:
    w = head + a
    if len(w) <= 1200 and _fails(w):
      return w
  return head + _W_FALLBACK


class Case:
  """One rendering + all oracles.  Records into `rec`."""

  def __init__(self, rec, group, key, prelude, vsrc_fn, opts, plants,
               entry='pg.to_html_str', present=None, twin=True,
               fmt=None, check_unmodified=True, pgroup=None,
               minimize=False, reduce_on_raise=False, kw_present=False):
    self.rec = rec
    self.group = group          # case-id prefix for failures not tied to a plant
    self.pgroup = pgroup or group   # ... for raises / present / value-unmodified
    self.key = key
    self.prelude = prelude
    self.vsrc_fn = vsrc_fn      # twin:bool -> value source
    self.opts = list(opts)      # [(name, source template)]
    self.fmt = fmt or (lambda src, twin: src)   # plants payloads into a template
    self.plants = plants
    self.entry = entry
    self.present = present      # callable(value[, kwargs]) -> [(kind, text, case_id_suffix)]
    self.kw_present = kw_present
    self.twin = twin
    self.check_unmodified = check_unmodified
    self.minimize = minimize
    self.reduce_on_raise = reduce_on_raise

  def _opts(self, twin):
    return [(n, self.fmt(t, twin)) for n, t in self.opts]

  def variant(self, rec, opts, **kw):
    args = dict(entry=self.entry, present=self.present, twin=self.twin, fmt=self.fmt,
                check_unmodified=self.check_unmodified, pgroup=self.pgroup,
                kw_present=self.kw_present)
    args.update(kw)
    return Case(rec, self.group, self.key, self.prelude, self.vsrc_fn, opts, self.plants, **args)

  def _render(self, twin):
    ns = _ns(self.prelude)
    v = eval(self.vsrc_fn(twin), ns)  # pylint: disable=eval-used
    ns['v'] = v
    before = snapshot(v) if self.check_unmodified and not twin else None
    clone = None
    if before is not None and isinstance(v, pg.Symbolic):
      try:
        clone = v.clone(deep=True)
        if not pg.eq(v, clone):
          clone = None      # holds leaves without value equality
      except Exception:  # pylint: disable=broad-except
        clone = None
    stmt = render_stmt(self.entry, self._opts(twin))
    exec(stmt, ns)  # pylint: disable=exec-used
    modified = None
    if before is not None:
      after = snapshot(v)
      if after != before:
        modified = 'snapshot (structure, leaves, parents, paths) differs'
      elif clone is not None and not pg.eq(v, clone):
        modified = 'pg.eq(value, clone taken before) is False'
    return v, ns['s'], stmt, modified

  def run(self):
    known = set(self.rec.fail)
    out = self._run()
    if self.minimize and len(self.opts) > 2:
      for cid in set(self.rec.fail) - known:
        self._minimize(cid)
    return out

  def _minimize(self, cid):
    """Drops options as long as `cid` still fails; keeps the smaller witness."""
    opts, best, progress = list(self.opts), None, True
    while progress:
      progress = False
      for o in list(opts):
        trial = [x for x in opts if x is not o]
        scratch = Recorder(PROP, 'scratch', '')
        try:
          self.variant(scratch, trial)._run()
        except Exception:  # pylint: disable=broad-except
          continue
        if cid in scratch.fail:
          opts, best, progress = trial, scratch.fail[cid], True
    if best is not None and best.get('witness'):
      self.rec.fail[cid]['witness'] = best['witness']
      self.rec.fail[cid]['message'] = (best['message'][:450]
                                       + ' [witness minimised to options: %s]'
                                       % ', '.join(n for n, _ in opts))[:600]

  def _run(self):
    rec = self.rec
    vsrc = self.vsrc_fn(False)
    stmt0 = render_stmt(self.entry, self._opts(False))

    def W(*asserts):
      return lambda: make_witness(self.prelude, vsrc, stmt0, asserts)

    try:
      v, s, _, modified = self._render(False)
    except Exception as e:  # pylint: disable=broad-except
      slug = re.sub(r'[^a-zA-Z]+', '-', str(e))[:28].strip('-')
      cid = '%s/raises:%s:%s' % (self.pgroup, type(e).__name__, slug)
      _record(rec, cid, self.key, False, 'rendering raised %s: %s' % (type(e).__name__, e),
              lambda: 'import pyglove as pg\n%sv = %s\n%s' % (
                  self.prelude + ('\n' if self.prelude and not self.prelude.endswith('\n') else ''),
                  vsrc, stmt0))
      if self.reduce_on_raise:
        # keep covering the rest of the row: drop the first option without
        # which the value renders.
        for o in self.opts:
          trial = [x for x in self.opts if x is not o]
          try:
            self.variant(None, trial)._render(False)
          except Exception:  # pylint: disable=broad-except
            continue
          return self.variant(rec, trial, minimize=self.minimize)._run()
      return None
    _record(rec, self.group + '/renders', self.key, isinstance(s, str), 'not a str')

    doc = parse_html(s)
    all_text, vis_text, tok_text = doc.all_text(), doc.visible_text(), doc.token_text()
    raw_in_script = ''.join(doc.rawtext)

    # --- per plant: leak / mangling / presence.
    leaked_any = False
    for p in self.plants:
      why = []
      if _verbatim(p.text, s):
        why.append('payload occurs verbatim (unescaped) in the output')
      bad = [n for n in doc.names if p.m in n or p.a in n]
      if bad:
        why.append('payload created element/attribute %r' % bad[:3])
      if p.m in raw_in_script or p.a in raw_in_script:
        why.append('payload inside script/style')
      for (tag, n, val, rawv) in doc.attrs:
        if (p.m in val or p.a in val) and ('<' in rawv or '>' in rawv):
          why.append('payload unescaped in attribute %s of <%s>' % (n, tag))
          break
      # Intactness is demanded where the datum itself is shown (text outside
      # tooltips, or attributes); a tooltip shows Python reprs of containers,
      # which legitimately re-escape backslashes and quotes of their members.
      marker_seen = (p.m in vis_text or p.a in vis_text
                     or any(p.m in a[2] or p.a in a[2] for a in doc.attrs))
      if not why and marker_seen:
        hay = [a[2] for a in doc.attrs] if p.expect == 'attr' else [all_text]
        if p.expect != 'none' and not any(_found(p, h) for h in hay):
          why.append('payload text is not intact after unescaping')
      leaked = bool(why)
      leaked_any |= leaked
      asserts = []
      if _verbatim(p.text, s):
        asserts.append('assert %r not in s' % p.text)
      asserts.append(_W_CHECK)
      asserts.append(_W_TEXT + '; assert %r in t' % p.text)
      _record(rec, p.pos + '/escape', (self.key, p.payload), not leaked,
              '; '.join(why) + ' -- payload %r' % p.text, W(*asserts))

    # --- document level well-formedness (attributed to the group only if no
    # plant explains it).
    if doc.errors and not leaked_any:
      _record(rec, self.group + '/wellformed', self.key, False,
              '; '.join('%s: %s' % e for e in doc.errors[:4]), W(_W_CHECK))
    elif not doc.errors:
      _record(rec, self.group + '/wellformed', self.key, True)
    stray = [n for n in doc.names if MARK_RE.search(n)
             and not any(p.m in n or p.a in n for p in self.plants)]
    _record(rec, self.group + '/no-data-named-elements', self.key, not stray,
            'names %r' % stray[:3], W(_W_CHECK))

    # --- non-interference with the alphanumeric twin.
    if self.twin and self.plants:
      try:
        _, s2, _, _ = self._render(True)
        doc2 = parse_html(s2)
        same = doc2.skeleton == doc.skeleton
        if not leaked_any:
          msg = ''
          if not same:
            i = next((j for j, (x, y) in enumerate(zip(doc.skeleton, doc2.skeleton)) if x != y),
                     min(len(doc.skeleton), len(doc2.skeleton)))
            msg = 'element skeleton differs from benign twin at event %d: %r vs %r' % (
                i, doc.skeleton[i:i + 2], doc2.skeleton[i:i + 2])
          _record(rec, self.group + '/structure-independent-of-data', self.key, same, msg,
                  W(_W_CHECK))
        if doc2.errors:
          _record(rec, self.group + '/wellformed-benign', self.key, False,
                  '; '.join('%s: %s' % e for e in doc2.errors[:4]),
                  lambda: make_witness(self.prelude, self.vsrc_fn(True),
                                       render_stmt(self.entry, self._opts(True)), [_W_CHECK]))
      except Exception as e:  # pylint: disable=broad-except
        if not leaked_any:
          _record(rec, '%s/raises-on-twin:%s' % (self.group, type(e).__name__), self.key,
                  False, str(e))

    # --- presence of keys and leaves.
    if self.present is not None:
      leaked_texts = set()
      for p in self.plants:
        if _verbatim(p.text, s) or any(p.m in n or p.a in n for n in doc.names):
          leaked_texts.add(p.text)
      kw = None
      if self.kw_present:
        kw = eval('dict(%s)' % ', '.join('%s=%s' % o for o in self._opts(False)), _ns(self.prelude))  # pylint: disable=eval-used
      entries = list(self.present(v, kw) if self.kw_present else self.present(v))
      # witness for tokens: all simple leaves / int keys of the value, so that it
      # does not depend on which of two look-alikes this process rendered first.
      tokens = sorted({t for k, t, _ in entries if k == 'token'})
      for kind, text, suffix in entries:
        if text in leaked_texts:
          continue   # same defect as the escape failure
        if kind == 'str':
          ok = text in vis_text or repr(text) in vis_text
        elif kind == 'tip':     # shown inside a tooltip
          ok = text in all_text
        elif kind == 'token':   # simple leaves / int keys: as a token of their own
          ok = has_token(tok_text, text)
        else:
          ok = text in vis_text
        # one defect, one id: the key of a str child under an explicit
        # enable_summary_for_str=False is tracked under the id of the option sweep.
        cid = '%s/present:%s' % ('tree.options' if suffix.endswith(_KF_NO_STR_SUMMARY) else self.pgroup,
                                 suffix)
        _record(rec, cid, (self.key, kind, text), ok,
                '%s %r is not in the text of the document (outside tooltips)' % (kind, text),
                W(_W_TOKEN % (tokens,) if kind == 'token' else
                  _W_TEXT + '; assert %r in t or %r in t' % (text, repr(text))))

    # --- value unchanged.
    if self.check_unmodified:
      _record(rec, self.pgroup + '/value-unmodified', self.key, modified is None,
              modified or '',
              lambda: 'import pyglove as pg\n%s\nv = %s\nb = pg.format(v, compact=True)\n%s\n'
                      'assert pg.format(v, compact=True) == b' % (self.prelude, vsrc, stmt0))
    return s


def _record(rec, cid, key, ok, message='', witness=None):
  w = ''
  if not ok and cid not in rec.fail and witness is not None:
    try:
      w = witness() if callable(witness) else witness
    except Exception as e:  # pylint: disable=broad-except
      w = '# witness construction failed: %r' % e
  rec.case(case_id=cid, key=key, ok=bool(ok), message=message, witness=w)
  return ok


# ---------------------------------------------------------------------------
# Driver 1: one payload at one position.
# ---------------------------------------------------------------------------

PRE_IN = '''class In(pg.Object):
  """Doc."""
  s: str
  n: int = 5
'''
PRE_SK = '''SK = pg.members([(pg.typing.StrKey(), pg.typing.Any())])(type('SK', (pg.Object,), {}))
'''
PRE_CTX = '''class Ch(pg.ContextualObject):
  t: str = pg.contextual_attribute()
class Pa(pg.ContextualObject):
  t: str
  c: Ch
'''
PRE_CF = '''class Cf(pg.Object):
  s: str
  l: list
  def _html_tree_view_config(self):
    return dict(key_style='label', collapse_level=None, css_classes=['cf'], uncollapse=['l'],
                child_config=dict(l=dict(enable_summary_tooltip=False)))
  @classmethod
  def _html_tree_view_css_styles(cls):
    return ['.cf { color: red; }']
'''
NOTIP = [('enable_summary_tooltip', 'False'), ('enable_key_tooltip', 'False')]

# (pos, prelude, value template ({P} = payload literal), extra options
#  ({P} allowed), expectation, case-id of the group, present?)
POSITIONS = [
    # string leaves
    ('tree.str-leaf', '', '{P}', [], 'str'),
    ('tree.str-leaf', '', "{{'kk7': {P}}}", [], 'str'),
    ('tree.str-leaf', '', 'pg.Dict(kk7={P})', [], 'str'),
    ('tree.str-leaf', '', '[1, {P}]', [], 'str'),
    ('tree.str-leaf', '', 'pg.List([{P}, 2])', [], 'str'),
    ('tree.str-leaf', '', '({P}, 2)', [], 'str'),
    ('tree.str-leaf', '', "{{'ka7': [{{'kb7': ({P},)}}]}}", [], 'str'),
    ('tree.str-leaf', PRE_IN, 'In({P})', [], 'str'),
    ('tree.str-leaf', PRE_IN, "pg.Dict(ko7=In({P}, 6))", [], 'str'),
    ('tree.str-leaf.long', '', "{P} + 'y' * 90", [], 'str'),
    ('tree.str-leaf.long', '', "{{'kk7': 'y' * 90 + {P}}}", [], 'str'),
    ('tree.str-leaf.long', '', "['y' * 90 + {P}]", [], 'str'),
    # dict keys
    ('tree.key@summary-style', '', '{{{P}: 1}}', [], 'text'),
    ('tree.key@summary-style', '', "pg.Dict({{{P}: 'v'}})", [], 'text'),
    ('tree.key@summary-style', '', "{{'ka7': {{{P}: [1]}}}}", [], 'text'),
    ('tree.key@summary-style', PRE_SK, 'SK(**{{{P}: 1}})', [], 'text'),
    ('tree.key@label-style', '', '{{{P}: 1}}', [('key_style', "'label'")], 'text'),
    ('tree.key@label-style', '', "pg.Dict({{{P}: 'v'}})", [('key_style', "'label'")], 'text'),
    ('tree.key@label-style', '', "[{{{P}: [1]}}]", [('key_style', "'label'")], 'text'),
    ('tree.key@label-style', PRE_SK, 'SK(**{{{P}: 1}})',
     [('key_style', "lambda k, v, p: 'label'")], 'text'),
    # name / title / root_path options
    ('tree.name-option', '', '1', [('name', '{P}')], 'text'),
    ('tree.name-option', '', "{{'ka7': 1}}", [('name', '{P}')], 'text'),
    ('tree.name-option', PRE_IN, "In('x')", [('name', '{P}'), ('root_path', "pg.KeyPath('r')")], 'text'),
    ('tree.title-option', '', '[1]', [('title', '{P}')], 'text'),
    ('tree.title-option', '', "'abc'", [('title', '{P}')], 'text'),
    ('tree.root-path-option', '', '1', [('name', "'n'"), ('root_path', 'pg.KeyPath([{P}])')], 'none'),
    ('tree.root-path-option', '', "{{'ka7': [1]}}", [('root_path', 'pg.KeyPath([{P}, 0])')], 'none'),
    # class names
    ('tree.class-name', '', 'type({P}, (pg.Object,), {{}})()', [], 'text'),
    ('tree.class-name', '', '[type({P}, (), {{}})()]', [], 'text'),
    ('tree.class-name', '', "{{'kc7': type({P}, (), {{}})}}", [], 'none'),
    # formatted objects
    ('tree.repr-leaf', '', "type('Pl', (), {{'__repr__': lambda s: {P}}})()", [], 'text'),
    ('tree.repr-leaf', '', "[ValueError({P})]", [], 'none'),
    ('tree.repr-leaf', '', "{{'kb7': {P}.encode()}}", [], 'none'),
    ('tree.repr-leaf', '', "{{'kf7': type('Fn', (), {{'__call__': lambda s: 0, '__repr__': lambda s: {P}}})()}}",
     [], 'text'),
    # docstrings / field docs (not rendered today; must not leak if they are)
    ('tree.docstring', '',
     "pg.members([('x', pg.typing.Int(), {P})])(type('Dc', (pg.Object,), {{'__doc__': {P}}}))(1)",
     [], 'none'),
    # references, diffs, contextual values
    ('tree.ref', PRE_IN, 'pg.Ref(In({P}))', [], 'str'),
    ('tree.ref', PRE_IN, "pg.Dict(kr7=pg.Ref(In({P})))", [], 'str'),
    ('tree.key@summary-style', '', 'pg.Ref({{{P}: 1}})', [], 'text'),
    ('tree.diff.value', PRE_IN, "pg.diff(In({P}), In('kb7'))", [], 'str'),
    ('tree.diff.value', PRE_IN, "pg.diff(In('kb7'), In({P}, 7), mode='both')", [], 'str'),
    ('tree.diff.value', PRE_IN, "pg.diff(In({P}), In({P}), mode='both')", [], 'str'),
    ('tree.diff.value', '', "pg.diff([1, {P}], [1], mode='both')", [], 'str'),
    ('tree.key@label-style', '', 'pg.diff(pg.Dict({{{P}: 1}}), pg.Dict({{{P}: 2}}))', [], 'text'),
    ('tree.key@label-style', '', "pg.diff(pg.Dict({{{P}: 1, 'kz7': 3}}), pg.Dict({{{P}: 1, 'kz7': 4}}), mode='both')",
     [], 'text'),
    ('tree.contextual', PRE_CTX, 'Pa({P}, Ch())', [], 'str'),
    ('tree.contextual', PRE_CTX, 'Pa({P}, Ch())', [('extra_flags', 'dict(use_inferred=True)')], 'str'),
    # debug tooltip shows option values
    ('tree.debug-info', '', "{{'ka7': 1}}", [('debug', 'True'), ('extra_flags', 'dict(note={P})')], 'none'),
    # extension classes that configure their own rendering
    ('tree.str-leaf', PRE_CF, 'Cf({P}, [1, {P}])', [], 'str'),
    ('tree.str-leaf', PRE_CF, "pg.Dict(ka7=Cf({P}, ['x']), kb7=[Cf('y', [{P}])])", [], 'str'),
    ('tree.contextual', PRE_CTX, 'pg.Dict(kc7=Ch(), ks7={P})', [], 'str'),
    # user hook that suppresses some children (`value_cell is None`)
    ('tree.str-leaf', '', "{{'ka7': 1, 'kb7': {P}}}",
     [('key_style', "'label'"),
      ('extra_flags', "dict(render_value_fn=lambda self, value, **kw: None if value == 1 else "
                      "pg.views.HtmlTreeView.render(self, value=value, **kw))")], 'str'),
    ('tree.debug-info', '', "{{'ka7': 1, 'kb7': [1]}}",
     [('key_style', "'label'"), ('title', "'t'"),
      ('extra_flags', "dict(n={P}, render_value_fn=lambda self, value, **kw: None)")], 'none'),
    # the view object's own methods
    ('tree.str-leaf', '', '{P}', [], 'str', 'view.simple_value'),
    ('tree.str-leaf', '', '{P}', [], 'str', 'view.content'),
    ('tree.str-leaf', '', "{{'kk7': {P}}}", [], 'str', 'view.render'),
    ('tree.str-leaf', '', "[{P}]", [], 'str', 'view.content'),
    ('tree.tooltip', '', '{P}', [], 'none', 'view.tooltip'),
    ('tree.tooltip', '', "{{'kk7': [{P}]}}", [], 'none', 'view.tooltip'),
    ('tree.key@label-style', '', '{P}', [], 'text', 'view.object_key'),
    ('tree.key@summary-style', '', '{{{P}: 1}}', [], 'text', 'view.complex_value'),
    ('tree.key@label-style', '', '{{{P}: 1}}', [('key_style', "'label'")], 'text', 'view.complex_value'),
    ('tree.name-option', '', '1', [('name', '{P}')], 'text', 'view.summary'),
    ('tree.title-option', '', '[1]', [('title', '{P}')], 'text', 'view.summary'),
    ('tree.debug-info', '', "{{'ka7': [1]}}", [('debug', 'True'), ('css_classes', "['cc']"),
                                          ('child_config', "dict(ka7=dict(extra_flags=dict(n={P})))")], 'none'),
]

OPTSETS = [
    ('default', []),
    ('no-tooltips', NOTIP),
    ('label-keys', [('key_style', "'label'")]),
    ('expand-all', [('collapse_level', 'None')]),
    ('collapse-all', [('collapse_level', '0')]),
    ('summary-always', [('enable_summary', 'True')]),
    ('tiny-summary-len', [('max_summary_len_for_str', '0')]),
    ('content-only', [('content_only', 'True')] + NOTIP),
]


def _merge_opts(base, extra):
  names = [k for k, _ in extra]
  return [(k, s) for k, s in base if k not in names] + list(extra)


def drv_positions(tier, seed):
  Plant._counter[0] = 0
  rec = Recorder(
      PROP, 'one payload at one position of a value/option; strict parse + injection oracle',
      scope='%d positions x %d payloads x %d option sets (quick: all payloads under default '
            'options, 3 rotating payloads under the others); str length at '
            'max_summary_len_for_str-1/0/+1; path-like and empty dict keys'
            % (len(POSITIONS), len(PAYLOADS), len(OPTSETS)))
  r = rng(seed, 'c20-positions')
  for pi, posdef in enumerate(POSITIONS):
    pos, pre, vt, extra, expect = posdef[:5]
    entry = posdef[5] if len(posdef) > 5 else 'pg.to_html_str'
    is_key = '.key' in pos or pos == 'tree.name-option'
    for oi, (oname, obase) in enumerate(OPTSETS):
      if oname == 'default' or tier != 'quick':
        names = list(PAYLOAD_NAMES)
      else:
        k0 = (pi * 7 + oi * 3 + r.randrange(len(PAYLOAD_NAMES))) % len(PAYLOAD_NAMES)
        names = [PAYLOAD_NAMES[(k0 + j * 8) % len(PAYLOAD_NAMES)] for j in range(2)]
      for pname in names:
        if is_key and pname not in KEY_SAFE:
          continue    # bracket keys: see the key-path cases below
        ex = expect
        p = Plant(pos, pname, ex)
        core = p

        def vsrc(twin, vt=vt, core=core):
          return vt.format(P=core.src(twin))

        opts = _merge_opts([(k, x.replace('{', '{{').replace('}', '}}')) for k, x in obase], extra)
        fmt = (lambda t, twin, core=core: t.format(P=core.src(twin)))

        own = []
        if ex in ('str', 'text') and pos not in ('tree.diff.value',):
          own = [('str' if ex == 'str' else 'text', p.text, pos.split('tree.')[-1])]
        # every other key / leaf of the value has to be there as well.
        whole_tree = (
            pos.startswith(('tree.str-leaf', 'tree.key@', 'tree.repr-leaf', 'tree.ref', 'tree.name-option',
                            'tree.title-option', 'tree.root-path-option', 'tree.debug-info'))
            and not entry.startswith('view.') and 'pg.diff' not in vt and 'Ch()' not in vt
            and 'render_value_fn' not in str(extra) and 'Cf(' not in vt)
        def present(v, kw, own=own, whole_tree=whole_tree):
          mine = {e[1] for e in own}
          rest = expected_tree(v, kw) if whole_tree else []
          return own + [e for e in rest if e[1] not in mine]

        if entry.startswith('view.') and oname != 'default':
          continue
        Case(rec, pos, (vt, oname, entry), pre, vsrc, opts, [p], present=present, entry=entry,
             kw_present=True, fmt=fmt, twin=(tier != 'quick' or (oname == 'default'
                                                 and PAYLOAD_NAMES.index(pname) % 2 == 0))).run()

  # str leaves around the max_summary_len_for_str boundary.
  for pname in ('tag', 'mixed', 'entities', 'dq-attr'):
    for delta in (-1, 0, 1):
      for vt in ('{P}', "{{'k': {P}}}", '[{P}]'):
        for es in ('None', 'True', 'False'):
          p = Plant('tree.str-leaf.boundary', pname, 'str')
          n = len(p.text) + delta
          opts = [('max_summary_len_for_str', str(n)), ('enable_summary_for_str', es)]
          Case(rec, 'tree.str-leaf.boundary', (vt, pname, delta, es), '',
               lambda twin, vt=vt, p=p: vt.format(P=p.src(twin)), opts, [p],
               present=lambda v, p=p: [('str', p.text, 'str-leaf')]).run()

  # Keys that look like key paths (must be shown as they are, in both styles).
  for style in ("'summary'", "'label'", "lambda k, v, p: 'label'"):
    for ctor in ('{{{K}: 1}}', 'pg.Dict({{{K}: [1]}})', "[{{{K}: 'v'}}]"):
      for tips in ([], NOTIP):
        for key, cls in [('x.y', 'dotted'), ('x.y.z', 'dotted'), ('a.', 'dotted'), ('.a', 'dotted'),
                         ('a[0]', 'indexed'), ('k[1].q', 'indexed'), ('', 'empty'),
                         ('a b', 'plain'), ("a'b", 'plain'), ('a\nb', 'plain'), ('0', 'plain'),
                         ('[', 'bracket'), ('a]', 'bracket'), (']]>', 'bracket'), ('[x', 'bracket')]:
          st = 'label' if 'label' in style else 'summary'
          grp = 'tree.key.%s@%s-style' % (cls, st) if cls not in ('bracket',) else 'tree.key.bracket'
          opts = [('key_style', style), ('content_only', 'True')] + tips
          Case(rec, grp, (ctor, key, bool(tips)), '',
               lambda twin, ctor=ctor, key=key: ctor.format(K=repr(key)), opts, [],
               present=lambda v, key=key, cls=cls: [('key', key, 'key.' + cls)] if key else [],
               twin=False).run()
  for nm, cls in [('a[', 'bracket'), ('n]', 'bracket'), ('x.y', 'dotted'), ('a[0]', 'indexed')]:
    for val in ('1', "{'a': 1}"):
      Case(rec, 'tree.name-option.%s' % cls, (nm, val), '', lambda twin, val=val: val,
           [('name', repr(nm)), ('content_only', 'True')], [],
           present=lambda v, nm=nm, cls=cls: [('text', nm, 'name.' + cls)], twin=False).run()
  return rec.result()


# ---------------------------------------------------------------------------
# Driver 2: pairwise option combinations over a composite tree.
# ---------------------------------------------------------------------------

PRE_SWEEP = '''class In(pg.Object):
  s: str
  n: int = 5
  f: pg.typing.Str().freeze('fzv')
class Pl:
  def __init__(self, r): self.r = r
  def __repr__(self): return self.r
Ob = pg.members([(pg.typing.StrKey(), pg.typing.Any())])(type('Ob', (pg.Object,), {}))
'''

# slots: K0..K2 keys, V0..V8 values (V1 long).
ROOTS = {
    'dict': "{@K0@: @V0@, @K1@: @V1@, 'num': 7919, 'flt': 3.25, 'flag': True, 'unit': 1.0, 'none': None, "
            "'off': False, 'zero': 0.0, 'lst': [@V2@, 104729, {@K2@: @V3@, 'deep': [@V4@]}, (@V5@, 65537)], "
            "'obj': In(@V6@), 'ref': pg.Ref(In(@V7@, 6)), 'plk': Pl(@V8@), 'e1': {}, 'e2': []}",
    'pg.Dict': "pg.Dict({@K0@: @V0@, @K1@: @V1@, 'num': 7919, 'flt': 3.25, 'flag': True, 'unit': 1.0, 'none': None, "
               "'off': False, 'zero': -0.0, 'lst': [@V2@, 104729, {@K2@: @V3@, 'deep': [@V4@]}], "
               "'obj': In(@V6@), 'ref': pg.Ref(In(@V7@, 6)), 'plk': Pl(@V8@), 'e1': {}, 'e2': []})",
    'list': "[@V0@, @V1@, {@K0@: 7919, @K1@: [@V2@], 'flt': 3.25}, In(@V6@), None, (@V5@, 65537), Pl(@V8@)]",
    'pg.Object': "Ob(num=7919, lst=[@V2@, {@K2@: @V3@}], obj=In(@V6@, 8), none=None, flt=3.25, one=1, unit=1.0, "
                 "**{@K0@: @V0@, @K1@: @V1@})",
}

# option -> [(label, source or None for "not passed")].  `{N}`/`{T}` are the
# name / title payload slots.
SWEEP_OPTIONS = [
    ('root', [(k, k) for k in ROOTS]),
    ('entry', [(k, k) for k in ('pg.to_html_str', 'pg.to_html', 'v.to_html_str', 'v.to_html',
                                'view_options', 'repr_html')]),
    ('content_only', [('-', None), ('True', 'True'), ('False', 'False')]),
    ('name', [('-', None), ('plain', "'root'"), ('hot', '@N@')]),
    ('title', [('-', None), ('hot', '@T@')]),
    ('root_path', [('-', None), ('r', "pg.KeyPath.parse('r[0]')")]),
    ('css_classes', [('-', None), ('one', "['cc']"), ('two', "['c1', 'c2']")]),
    ('collapse_level', [('-', None), ('0', '0'), ('1', '1'), ('2', '2'), ('None', 'None')]),
    ('uncollapse', [('-', None), ('paths', "['lst[2]', 'obj']"),
                    ('set', "pg.KeyPathSet(['lst[2].deep'])"),
                    ('fn', 'lambda k, v, p: len(k) < 2')]),
    ('enable_summary', [('-', None), ('None', 'None'), ('True', 'True'), ('False', 'False')]),
    ('enable_summary_for_str', [('-', None), ('False', 'False')]),
    ('max_summary_len_for_str', [('-', None), ('0', '0'), ('12', '12'), ('200', '200')]),
    ('enable_summary_tooltip', [('-', None), ('False', 'False')]),
    ('enable_key_tooltip', [('-', None), ('False', 'False')]),
    ('summary_color', [('-', None), ('tuple', "('red', '#eee')"), ('half', "(None, 'blue')"),
                       ('fn', "lambda k, v, p: ('white', None)")]),
    ('key_style', [('-', None), ('summary', "'summary'"), ('label', "'label'"),
                   ('fn', "lambda k, v, p: 'label' if isinstance(v, (int, float)) else 'summary'")]),
    ('key_color', [('-', None), ('tuple', "('red', 'yellow')"), ('half', "(None, '#eee')"),
                   ('fn', "lambda k, v, p: ('blue', None)")]),
    ('include_keys', [('-', None), ('list', "['num', 'lst', 'obj', 0, 2, 3]"),
                      ('fn', 'lambda k, v, p: not isinstance(v, float)')]),
    ('exclude_keys', [('-', None), ('list', "['flag', 'ref', 1]"),
                      ('fn', 'lambda k, v, p: v is None')]),
    ('extra_flags', [('-', None), ('frozen', 'dict(hide_frozen=False)'),
                     ('defaults', 'dict(hide_default_values=True)'),
                     ('inferred', 'dict(use_inferred=True)'),
                     ('all', 'dict(hide_frozen=False, hide_default_values=True, note=@X@)')]),
    ('child_config', [('-', None), ('lst', "dict(lst=dict(collapse_level=None))"),
                      ('default', "dict(__default__=dict(enable_summary_tooltip=False), "
                                  "obj=dict(collapse_level=0, uncollapse=['s']))")]),
    ('highlight', [('-', None), ('fn', 'lambda k, v, p: isinstance(v, int)')]),
    ('lowlight', [('-', None), ('fn', 'lambda k, v, p: isinstance(v, str)')]),
    ('debug', [('-', None), ('True', 'True')]),
]
_SWEEP_NAMES = [n for n, _ in SWEEP_OPTIONS]


def pairwise_rows(params, r, extra_random=0):
  """Greedy pairwise covering array; params: [(name, [values])] -> [tuple of indices]."""
  sizes = [len(vs) for _, vs in params]
  n = len(sizes)
  uncovered = set()
  for i in range(n):
    for j in range(i + 1, n):
      for a in range(sizes[i]):
        for b in range(sizes[j]):
          uncovered.add((i, a, j, b))
  rows = []
  while uncovered:
    best, best_gain = None, -1
    # seed candidates from an uncovered pair so that progress is guaranteed.
    i, a, j, b = next(iter(sorted(uncovered)[:1]))
    for _ in range(30):
      cand = [r.randrange(s) for s in sizes]
      cand[i], cand[j] = a, b
      gain = 0
      for x in range(n):
        cx = cand[x]
        for y in range(x + 1, n):
          if (x, cx, y, cand[y]) in uncovered:
            gain += 1
      if gain > best_gain:
        best, best_gain = cand, gain
    rows.append(tuple(best))
    for x in range(n):
      for y in range(x + 1, n):
        uncovered.discard((x, best[x], y, best[y]))
  for _ in range(extra_random):
    rows.append(tuple(r.randrange(s) for s in sizes))
  return rows


def expected_tree(v, kw, opaque=None):
  """Keys and leaves the documented option semantics say are rendered.

  Returns [(kind, text, case-id suffix)]; kind in 'key' | 'str' | 'leaf'.
  `opaque(x)`: x renders itself (its key in the container is expected, its
  inside is judged by the caller).
  """
  out = []
  flags = kw.get('extra_flags') or {}
  hide_frozen = flags.get('hide_frozen', True)
  hide_defaults = flags.get('hide_default_values', False)
  include, exclude = kw.get('include_keys'), kw.get('exclude_keys')
  key_style = kw.get('key_style', 'summary')
  enable_summary = kw.get('enable_summary', None)
  summary_for_str = kw.get('enable_summary_for_str', True)

  def children(x):
    if isinstance(x, pg.Ref):
      x = x.value
    if isinstance(x, pg.Symbolic):
      items = []
      for k, c in x.sym_items():
        f = x.sym_attr_field(k)
        if hide_frozen and f is not None and f.frozen:
          continue
        if hide_defaults and f is not None and c == f.default_value:
          continue
        items.append((k, c))
      return x, items
    if isinstance(x, (list, tuple)):
      return x, list(enumerate(x))
    if isinstance(x, dict):
      return x, list(x.items())
    return x, None

  def walk(x, root):
    if opaque is not None and opaque(x):
      return
    x, items = children(x)
    if items is None:
      if isinstance(x, str):
        out.append(('str', x, 'str-leaf'))
      elif isinstance(x, (bool, int, float, type(None))):
        out.append(('token', repr(x), 'simple-leaf'))
      elif isinstance(x, bytes):
        if len(x) <= 64:
          out.append(('leaf', repr(x), 'bytes-leaf'))
      elif (type(x).__repr__ is not object.__repr__ and not isinstance(x, (BaseException, type))
            and type(x).__module__ != 'builtins' and not callable(x)):
        out.append(('leaf', repr(x), 'repr-leaf'))   # user-defined repr
      return
    for k, c in items:
      if callable(include):
        if not include(None, c, x):
          continue
      elif include is not None and root and k not in include:
        continue
      if callable(exclude):
        if exclude(None, c, x):
          continue
      elif exclude is not None and root and k in exclude:
        continue
      is_int = isinstance(k, int) and not isinstance(k, bool)
      if isinstance(k, str) or is_int:
        # positions of a sequence / int keys of a dict are keys as well.
        if isinstance(x, (list, tuple)) or key_style == 'label':
          st = 'label'
        elif callable(key_style):
          st = key_style(None, c, x)
        else:
          st = 'summary'
        if is_int:
          suffix = 'index-key' if isinstance(x, (list, tuple)) else 'int-key'
        else:
          suffix = 'key@%s-style' % st
        if st == 'summary':
          if enable_summary is False:
            # summaries (the place of summary-style keys) are switched off
            # explicitly: the key is not part of the rendered tree.
            walk(c, False)
            continue
          if (enable_summary is None and not summary_for_str
                and isinstance(c.value if isinstance(c, pg.Ref) else c, str)):
            suffix = 'key@summary-style' + _KF_NO_STR_SUMMARY
        out.append(('token', str(k), suffix) if is_int else ('key', k, suffix))
      walk(c, False)

  walk(v, True)
  return out


def drv_option_pairs(tier, seed):
  Plant._counter[0] = 100000
  n_random = 10 if tier == 'quick' else 1500
  rec = Recorder(
      PROP, 'pairwise tree-view option combinations over a composite tree',
      scope='%d options (2-6 values each: %s) -- greedy pairwise covering array + %d seeded random '
            'rows; each row rendered with 3 payload loads (benign / hot values / hot keys+name+title)'
            % (len(SWEEP_OPTIONS), ', '.join(_SWEEP_NAMES), n_random))
  r = rng(seed, 'c20-sweep')
  rows = pairwise_rows(SWEEP_OPTIONS, r, extra_random=n_random)
  if tier != 'quick':
    for s2 in range(3):
      rows += pairwise_rows(SWEEP_OPTIONS, rng(seed, 'c20-sweep-%d' % s2))
  vpay = [n for n in PAYLOAD_NAMES]
  for ri, row in enumerate(rows):
    choice = {name: vals[i] for (name, vals), i in zip(SWEEP_OPTIONS, row)}
    for load in ('benign', 'hot-values', 'hot-keys'):
      plants = {}

      def slot(name, pos, expect, hot, idx, plants=plants, ri=ri):
        if hot:
          pool = KEY_SAFE if expect == 'text' else vpay
          pn = pool[(ri * 5 + idx * 3) % len(pool)]
          p = Plant(pos, pn, expect, suffix=('y' * 90 if name == 'V1' else ''))
          plants[name] = p
          return p
        return None

      hv, hk = load == 'hot-values', load == 'hot-keys'
      fills = {}
      for idx, name in enumerate(['V0', 'V1', 'V2', 'V3', 'V4', 'V5', 'V6', 'V7']):
        p = slot(name, 'tree.str-leaf' + ('.long' if name == 'V1' else ''), 'str', hv, idx)
        fills[name] = p
      fills['V8'] = slot('V8', 'tree.repr-leaf', 'text', hv, 8)
      fills['X'] = slot('X', 'tree.debug-info', 'none', hv, 9)
      ks = choice['key_style'][0]
      for idx, name in enumerate(['K0', 'K1', 'K2']):
        label_style = ks == 'label' or (ks == 'fn' and choice['root'][0] == 'list' and name == 'K0')
        fills[name] = slot(name, 'tree.key@%s-style' % ('label' if label_style else 'summary'),
                           'text', hk, 10 + idx)
      fills['N'] = slot('N', 'tree.name-option', 'text', hk, 13)
      fills['T'] = slot('T', 'tree.title-option', 'text', hk, 14)
      benign = {'V0': 'valzero', 'V1': 'longval' + 'y' * 90, 'V2': 'valtwo', 'V3': 'valthree',
                'V4': 'valfour', 'V5': 'valfive', 'V6': 'valsix', 'V7': 'valseven',
                'V8': 'plainrepr', 'X': 'noteval', 'K0': 'keyzero', 'K1': 'keyone',
                'K2': 'keytwo', 'N': 'rootname', 'T': 'roottitle'}

      def lit(name, twin, fills=fills, benign=benign):
        p = fills.get(name)
        return p.src(twin) if p is not None else repr(benign[name])

      def subst(src, twin, lit=lit):
        return re.sub(r'@(V\d|K\d|N|T|X)@', lambda m: lit(m.group(1), twin), src)

      root_label = choice['root'][0]
      entry = choice['entry'][0]
      if entry.startswith('v.') and root_label in ('dict', 'list'):
        entry = 'pg.' + entry[2:]
      raw_opts = [(n, choice[n][1]) for n in _SWEEP_NAMES
                  if n not in ('root', 'entry') and choice[n][1] is not None]
      if entry == 'repr_html':
        raw_opts = [(n, s) for n, s in raw_opts if n != 'content_only']

      def vsrc(twin, root_label=root_label, subst=subst):
        return subst(ROOTS[root_label], twin)

      # hot name/title only count if the option is passed.
      used = []
      osrc = ' '.join(s for _, s in raw_opts)
      for name, p in plants.items():
        if name in ('N', 'T', 'X') and '@%s@' % name not in osrc:
          continue
        if name.startswith(('V', 'K')) and '@%s@' % name not in ROOTS[root_label]:
          continue
        used.append(p)

      label = tuple('%s=%s' % (n, choice[n][0]) for n in _SWEEP_NAMES if choice[n][0] != '-')
      Case(rec, 'tree.options[%s]' % load, (label, load), PRE_SWEEP, vsrc, raw_opts, used,
           entry=entry, present=expected_tree, kw_present=True, fmt=subst,
           pgroup='tree.options', minimize=True, reduce_on_raise=True).run()
  return rec.result()


# ---------------------------------------------------------------------------
# Driver 3: controls and the Html primitives.
# ---------------------------------------------------------------------------

PRE_CTL = 'from pyglove.core.views.html import controls as C\n'

# (pos, value template, expectation)
CONTROL_POSITIONS = [
    # every text shown through a Label (Badge, LabelGroup, tab buttons, ...)
    ('controls.label.text', 'C.Label({P})', 'text'),
    ('controls.label.text', "C.Label({P}, id='l1', css_classes=['a'], styles=dict(color='red'))", 'text'),
    ('controls.label.text', "C.Label({P}, link='http://x/y', target='_blank')", 'text'),
    ('controls.label.text', "C.Label({P}, interactive=True)", 'text'),
    ('controls.label.text', 'C.Badge({P})', 'text'),
    ('controls.label.text', "C.LabelGroup([{P}, 'y'], name='n')", 'text'),
    ('controls.label.text', "C.LabelGroup(['x', C.Badge({P})])", 'text'),
    ('controls.label.text', "C.LabelGroup(['x'], name={P})", 'text'),
    ('controls.label.text', "C.TabControl([C.Tab({P}, pg.Html('<p>ok</p>'))])", 'text'),
    ('controls.label.text',
     "C.TabControl([C.Tab('a', pg.Html('<i>x</i>')), C.Tab(C.Label({P}), pg.Dict(q=1))], 1, 'left')", 'text'),
    ('controls.label.text', "C.TabControl([C.Tab('a', C.Label({P}))], tab_position='left')", 'text'),
    ('controls.label.text', "pg.List([C.Label({P})])", 'text'),
    # tooltips
    ('controls.tooltip.content', "C.Label('t', {P})", 'tip'),
    ('controls.tooltip.content', "C.Label('t', C.Tooltip({P}))", 'tip'),
    ('controls.tooltip.content', "C.Tooltip({P}, for_element='.x')", 'tip'),
    ('controls.tooltip.content', "C.Tooltip({P}, for_element='#y', id='t1', css_classes=['b'])", 'tip'),
    ('controls.tooltip.content', "C.TabControl([C.Tab(C.Label('a', {P}), pg.Html('<i>x</i>'))])", 'tip'),
    ('controls.tooltip.content', "pg.Dict(l=C.Label('t', {P}))", 'tip'),
    ('controls.tooltip.content', "C.Label(pg.Html('<b>ok</b>'), {P}, 'http://x/?a=1')", 'tip'),
    ('controls.tooltip.content', "C.LabelGroup([C.Label('x', pg.Html('<i>tip</i>')), C.Label('y', {P})])", 'tip'),
    # link of a label (attribute value)
    ('controls.label.link', "C.Label('t', link={P})", 'attr'),
    ('controls.label.link', "C.Label('t', 'tip', {P}, target='_blank')", 'attr'),
    # symbolic values shown in a tab
    ('tree.str-leaf', "C.TabControl([C.Tab('a', pg.Dict(k={P}))])", 'str'),
    ('tree.str-leaf', "C.TabControl([C.Tab('a', pg.List([{P}])), C.Tab('b', C.Label('z'))], 1)", 'str'),
    ('tree.key@summary-style', "C.TabControl([C.Tab('a', pg.Dict({{{P}: 1}}))])", 'text'),
    ('controls.tab.name', "C.TabControl([C.Tab('a', pg.Html('x'), name={P})])", 'none'),
    # sub-progress names (shown in the tooltip of the progress label)
    ('controls.progress.name', "C.ProgressBar([C.SubProgress({P}, 1)], total=3)", 'tip'),
    ('controls.progress.name', "C.ProgressBar([C.SubProgress('a', 2), C.SubProgress({P})], total=4)", 'tip'),
    ('controls.progress.name', "C.ProgressBar([C.SubProgress({P})])", 'none'),
]

def js_string_after(code, prefix):
  """Decodes the JavaScript string literal that follows `prefix` in `code`.

  Returns ('ok', value) if a double-quoted literal follows, it is terminated,
  and nothing but `;` follows it; else ('bad', reason).
  """
  i = code.index(prefix) + len(prefix)
  if code[i:i + 1] != '"':
    return ('bad', 'no literal')
  i += 1
  out = []
  esc = {'n': '\n', 'r': '\r', 't': '\t', 'b': '\b', 'f': '\f', 'v': '\v', '0': '\0'}
  while i < len(code):
    c = code[i]
    if c == '\\':
      if i + 1 >= len(code):
        return ('bad', 'dangling backslash')
      n = code[i + 1]
      if n in 'xu':
        return ('bad', 'unexpected escape')
      out.append(esc.get(n, n))
      i += 2
    elif c == '"':
      rest = code[i + 1:].strip()
      if rest != ';':
        return ('bad', 'code after the literal: %r' % rest[:40])
      return ('ok', ''.join(out))
    elif c in '\n\r':
      return ('bad', 'line break inside the literal')
    else:
      out.append(c)
      i += 1
  return ('bad', 'unterminated literal')


# Html primitives: Html.escape in every accepted input form.
ESCAPE_FORMS = [
    ('str', 'pg.Html.escape({P})'),
    ('callable', 'pg.Html.escape(lambda: {P})'),
    ('html', 'pg.Html.escape(pg.Html({P})).content'),
    ('html+style', "pg.Html.escape(pg.Html({P}).add_style('a{{}}')).content"),
]


def drv_controls(tier, seed):
  del seed
  Plant._counter[0] = 200000
  rec = Recorder(
      PROP, 'HTML controls (Label/Badge/LabelGroup/Tooltip/TabControl/ProgressBar) and Html.escape '
            'with metacharacter-laden texts',
      scope='%d control positions x %d payloads (full document and content only); Label.update / '
            'Tooltip.update then re-render; Html.escape over str/callable/Html forms x payloads; '
            'Html.element with benign arguments' % (len(CONTROL_POSITIONS), len(PAYLOADS)))
  for pos, vt, expect in CONTROL_POSITIONS:
    for pname in PAYLOAD_NAMES:
      if '.key' in pos and pname not in KEY_SAFE:
        continue
      for co in ('True', 'False'):
        pidx = PAYLOAD_NAMES.index(pname)
        if co == 'False' and tier == 'quick' and (pidx % 5):
          continue
        p = Plant(pos, pname, 'text' if expect == 'tip' else expect)
        Case(rec, pos, (vt, co), PRE_CTL, lambda twin, vt=vt, p=p: vt.format(P=p.src(twin)),
             [('content_only', co)], [p], entry='v.to_html_str',
             twin=(tier != 'quick' or pidx % 3 == 0),
             present=(lambda v, p=p, expect=expect, pos=pos:
                      [({'tip': 'tip', 'str': 'str'}.get(expect, 'text'), p.text,
                        pos.split('controls.')[-1])])
             if expect in ('text', 'str', 'tip') else None).run()

  # update() then render again (the members are synchronised with the shown text).
  for pname in PAYLOAD_NAMES:
    for pos, vt, upd in [
        ('controls.label.text', "C.Label('old', 'tip', interactive=True)", 'v.update(text={P})'),
        ('controls.tooltip.content', "C.Label('t', 'tip', interactive=True)", 'v.update(tooltip={P})'),
        ('controls.label.link', "C.Label('t', link='http://a', interactive=True)", 'v.update(link={P})'),
        ('controls.tooltip.content', "C.Tooltip('old', for_element='.x', interactive=True)",
         'v.update({P})'),
    ]:
      p = Plant(pos, pname, 'attr' if pos.endswith('link') else 'text')
      pre = PRE_CTL
      vsrc = '(lambda v: (v.to_html(), %s, v)[-1])(%s)' % (upd.format(P=p.src()), vt)
      vsrc2 = '(lambda v: (v.to_html(), %s, v)[-1])(%s)' % (upd.format(P=p.src(True)), vt)
      Case(rec, pos, ('update', vt), pre, lambda twin, a=vsrc, b=vsrc2: b if twin else a,
           [('content_only', 'True')], [p], entry='v.to_html_str').run()

  # update() of an interactive control emits a script; the value has to stay
  # inside its JavaScript string literal.
  for pname in PAYLOAD_NAMES:
    for cid, make, upd, prop, want in [
        ('controls.update-script.text', "C.Label('old', 'tip', interactive=True)", 'v.update(text={P})',
         'textContent', None),
        ('controls.update-script.text', "C.Label('old', 'tip', interactive=True)",
         'v.update(text=pg.Html({P}))', 'innerHTML', None),
        ('controls.update-script.tooltip', "C.Label('t', 'tip', interactive=True)",
         'v.update(tooltip={P})', 'textContent', None),
        ('controls.update-script.tooltip', "C.Tooltip('old', for_element='.x', interactive=True)",
         'v.update(pg.Html({P}))', 'innerHTML', None),
        ('controls.update-script.link', "C.Label('t', link='http://a', interactive=True)",
         'v.update(link={P})', 'href', None),
    ]:
      p = Plant(cid, pname, 'none')
      code = ('import pyglove as pg\nfrom pyglove.core.views.html import controls as C\n'
              'v = %s\nv.to_html()\nwith C.HtmlControl.track_scripts() as scripts:\n  %s\n'
              % (make, upd.format(P=p.src())))
      ns = {'__name__': '__main__'}
      try:
        exec(code, ns)  # pylint: disable=exec-used
        lits = [js_string_after(x, 'elem.%s = ' % prop) for x in ns['scripts'] if 'elem.%s = ' % prop in x]
        ok = bool(lits) and all(l == ('ok', p.text) for l in lits)
        msg = 'payload %r -> %r in %r' % (p.text, lits, [x for x in ns['scripts'] if prop in x][:1])
      except Exception as e:  # pylint: disable=broad-except
        ok, msg = False, 'raised %r' % e
      _record(rec, cid + '/js-string', (make, upd, pname), ok, msg,
              code + 'x = [c for c in scripts if "elem.%s = " in c][0]\n' % prop
              + 'import json; lit = x.split("elem.%s = ", 1)[1].rstrip().rstrip(";")\n' % prop
              + 'assert json.loads(lit, strict=False) == %r, lit' % p.text)

  # Html.escape: result is text only, round-trips, keeps nothing raw.
  for form, tmpl in ESCAPE_FORMS:
    for pname in PAYLOAD_NAMES:
      p = Plant('html.escape', pname, 'text')
      src = tmpl.format(P=p.src())
      ns = _ns('')
      try:
        out = eval(src, ns)  # pylint: disable=eval-used
      except Exception as e:  # pylint: disable=broad-except
        _record(rec, 'html.escape/raises', (form, pname), False, repr(e),
                'import pyglove as pg\n' + src)
        continue
      wrapped = '<div title="%s">%s</div>' % (out, out)
      doc = parse_html(wrapped)
      ok = (not doc.errors and doc.all_text() == p.text
            and [a[2] for a in doc.attrs] == [p.text]
            and len(doc.skeleton) == 2)
      _record(rec, 'html.escape/%s' % form, (form, pname), ok,
              'escaped %r -> %r; errors %r' % (p.text, out, doc.errors[:3]),
              'import pyglove as pg, html\ne = %s\nassert html.unescape(e) == %r and not set(e) & set(\'<>"\\\'\'), e'
              % (src, p.text))
  _record(rec, 'html.escape/none', 'None', pg.Html.escape(None) is None, 'escape(None) is not None')

  # Html.element with benign arguments is a well-formed element.
  for tag in ('div', 'span', 'details', 'a'):
    for inner in ('None', "['x']", "[pg.Html('<b>i</b>'), None, lambda: 'z']", "[pg.Html.escape('<&>')]"):
      for extra in ('', ", options='open'", ", options=['open', None]", ", css_classes=['a', None, ['b', 'a']]",
                    ", styles=dict(color='red', background_color=None)", ", styles='color:red;'",
                    ", id='i1', data_x=None, aria_label='q'"):
        src = "pg.Html.element(%r, %s%s).to_str(content_only=True)" % (tag, inner, extra)
        ns = _ns('')
        try:
          out = eval(src, ns)  # pylint: disable=eval-used
          doc = parse_html(out)
          ok = (not doc.errors and doc.skeleton and doc.skeleton[0][1] == tag
                and doc.skeleton[-1] == ('E', tag))
          msg = '%r: %r' % (out, doc.errors[:3])
        except Exception as e:  # pylint: disable=broad-except
          ok, msg = False, repr(e)
        _record(rec, 'html.element/wellformed', (tag, inner, extra), ok, msg,
                'import pyglove as pg, sys; sys.path[:0] = [\'/verif\']\n'
                'from bounded.c20_html import check_html\ns = %s\nassert not check_html(s), s' % src)
  return rec.result()


# ---------------------------------------------------------------------------
# Driver 4: option scoping (per-thread view options / rendering stack).
# ---------------------------------------------------------------------------

def drv_scoping(tier, seed):
  rec = Recorder(
      PROP, 'view options are scoped: nested pg.view_options, exceptions inside rendering, threads',
      scope='nested view_options over 6 option pairs; exception raised from 5 user callbacks / '
            'formatters then re-render of 4 values; 2 threads x %d rounds with different options'
            % (3 if tier == 'quick' else 20))
  del seed
  Plant._counter[0] = 300000
  ns = _ns(PRE_SWEEP)
  hot = Plant('tree.str-leaf', 'mixed', 'str')
  mk = lambda: eval(  # pylint: disable=eval-used
      "pg.Dict(a=%s, b=[1, In('x')], r=pg.Ref(In('y')), d={'k': 2.5})" % hot.src(), dict(ns))
  values = {
      'dict': mk,
      'ref': lambda: eval("pg.Ref(In('z'))", dict(ns)),  # pylint: disable=eval-used
      'diff': lambda: eval("pg.diff(In('a'), In('b', 7), mode='both')", dict(ns)),  # pylint: disable=eval-used
      'obj': lambda: eval("In('q', 9)", dict(ns)),  # pylint: disable=eval-used
  }

  def raw(v, **kw):
    return pg.to_html_str(v, content_only=True, **kw)

  def base(v, **kw):
    try:
      return raw(v, **kw)
    except Exception as e:  # pylint: disable=broad-except
      return 'RAISED %s: %s' % (type(e).__name__, e)

  def sane(s):
    doc = parse_html(s)
    return not doc.errors and not [n for n in doc.names if MARK_RE.search(n)]

  opt_pairs = [
      (dict(key_style='label'), dict(enable_key_tooltip=False)),
      (dict(collapse_level=None), dict(collapse_level=0)),
      (dict(enable_summary_tooltip=False), dict(enable_summary_tooltip=True)),
      (dict(extra_flags=dict(hide_frozen=False)), dict(extra_flags=dict(hide_default_values=True))),
      (dict(max_summary_len_for_str=0), dict(key_style='label', enable_summary=True)),
      (dict(enable_summary=False), dict(debug=True)),
  ]
  for vname, mkv in values.items():
    v = mkv()
    plain = base(v)
    for i, (o1, o2) in enumerate(opt_pairs):
      want_outer = base(v, **o1)
      merged = dict(o1)
      for k, x in o2.items():
        merged[k] = dict(merged.get(k) or {}, **x) if isinstance(x, dict) else x
      want_inner = base(v, **merged)
      with pg.view_options(**o1):
        got_outer_before = base(v)
        with pg.view_options(**o2):
          got_inner = base(v)
        got_outer_after = base(v)
      got_plain = base(v)
      w = ('import pyglove as pg\nv = pg.Dict(a=1, b=[1])\nf = lambda **k: pg.to_html_str(v, content_only=True, **k)\n'
           'o1, o2 = %r, %r\nwant = f(**o1); plain = f()\nwith pg.view_options(**o1):\n  with pg.view_options(**o2):\n    pass\n'
           '  assert f() == want\nassert f() == plain' % (o1, o2))
      _record(rec, 'scoping.view_options/outer-before', (vname, i), got_outer_before == want_outer,
              'options of the enclosing scope not applied', w)
      _record(rec, 'scoping.view_options/inner-merged', (vname, i), got_inner == want_inner,
              'nested scope is not outer options overridden by inner ones', w)
      _record(rec, 'scoping.view_options/outer-restored', (vname, i), got_outer_after == want_outer,
              'leaving the inner scope does not restore the outer options', w)
      _record(rec, 'scoping.view_options/plain-restored', (vname, i), got_plain == plain,
              'leaving the scope does not restore the defaults', w)
      for s in (got_outer_before, got_inner, got_outer_after):
        _record(rec, 'scoping.view_options/wellformed', (vname, i), sane(s), 'ill-formed document')

  # exception from user code inside a rendering leaves nothing behind.
  class Boom(Exception):
    pass

  def boom(*a, **k):
    raise Boom()

  class Bad:
    def __repr__(self):
      raise Boom()

  raisers = [
      ('key_color', lambda v: raw(v, key_style='label', key_color=boom)),
      ('summary_color', lambda v: raw(v, name='nm', summary_color=boom)),
      ('include_keys', lambda v: raw(pg.Dict(x=v), include_keys=boom)),
      ('highlight', lambda v: raw(pg.Dict(x=v), highlight=boom)),
      ('uncollapse', lambda v: raw(pg.Dict(x=v), collapse_level=0, uncollapse=boom)),
      ('repr', lambda v: raw(pg.Dict(x=v, bad=Bad()))),
      ('view_options+key_style', lambda v: _in_scope(dict(collapse_level=None), lambda: raw(
          pg.Dict(x=v), key_style=boom))),
  ]

  def _in_scope(opts, fn):
    with pg.view_options(**opts):
      return fn()

  for vname, mkv in values.items():
    for rname, fn in raisers:
      v = mkv()
      want = base(v)
      want2 = base(pg.Dict(x=mkv()))
      raised = False
      try:
        fn(v)
      except Boom:
        raised = True
      except Exception:  # pylint: disable=broad-except
        raised = True
      v2 = mkv()
      got = base(v2)
      got_same = base(v) if v.sym_parent is None else None
      got2 = base(pg.Dict(x=mkv()))
      w = ('import pyglove as pg\nclass In(pg.Object):\n  s: str\ndef boom(*a, **k): raise KeyError()\n'
           'mk = lambda: pg.Dict(x=pg.Ref(In("z")))\nwant = pg.to_html_str(mk(), content_only=True)\n'
           'try: pg.to_html_str(mk(), content_only=True, summary_color=boom, key_color=boom, key_style="label")\n'
           'except KeyError: pass\nassert pg.to_html_str(mk(), content_only=True) == want')
      if not raised:
        continue   # this value never calls that hook
      _record(rec, 'scoping.exception/next-render-unaffected', (vname, rname),
              got == want and got2 == want2 and (got_same is None or got_same == want),
              'a rendering after a failed one differs from the same rendering before it', w)
      _record(rec, 'scoping.exception/wellformed', (vname, rname), sane(got) and sane(got2), '')

  # threads: options of one thread never show in the other.
  rounds = 3 if tier == 'quick' else 20
  v1, v2 = values['dict'](), values['dict']()
  o1 = dict(key_style='label', enable_summary_tooltip=False, collapse_level=None)
  o2 = dict(enable_key_tooltip=False, max_summary_len_for_str=0, extra_flags=dict(hide_frozen=False))
  want1, want2 = base(v1, **o1), base(v2, **o2)
  for rd in range(rounds):
    barrier = threading.Barrier(2)
    res = {}

    def work(name, v, o, barrier=barrier, res=res):
      def sync(k, x, p):
        try:
          barrier.wait(timeout=0.05)
        except threading.BrokenBarrierError:
          pass
        return False
      try:
        with pg.view_options(**o):
          res[name] = base(v, highlight=sync)
      except Exception as e:  # pylint: disable=broad-except
        res[name] = repr(e)

    t1 = threading.Thread(target=work, args=('a', v1, o1))
    t2 = threading.Thread(target=work, args=('b', v2, o2))
    t1.start(); t2.start(); t1.join(30); t2.join(30)
    _record(rec, 'scoping.threads/options-isolated', rd,
            res.get('a') == want1 and res.get('b') == want2,
            'concurrent renderings with different scoped options influence each other',
            _W_THREADS)
  return rec.result()


# ---------------------------------------------------------------------------
# Driver 5: every leaf is shown as *itself*.
#
# "Every ... leaf value of the rendered tree is present in the output": a leaf
# is not present when another value is displayed in its place.  Values that
# are easily taken for each other are those that compare (and hash) equal
# although they are different values with different texts -- 1 / True / 1.0 /
# (1+0j), 0 / False / 0.0 / -0.0, 10**20 / 1e20, objects of a user class with a
# permissive __eq__ -- and those whose text is part of the text of another one
# ('0.0' in '-0.0', 'ab' in b'ab').  Every ordered pair of such look-alikes is
# rendered (a) side by side in one container and (b) in two consecutive,
# independent renderings (what was rendered before must not matter), at every
# kind of position a leaf can have, and each leaf has to be found as a token of
# its own in the text outside tooltips.
# ---------------------------------------------------------------------------

_PRE_LEAF_PARTS = [
    ('decimal.', 'import decimal\n'),
    ('fractions.', 'import fractions\n'),
    ('Eq(', '''class Eq:
  \"\"\"Equal to every number and every Eq, hashes like 1; shown by its repr.\"\"\"
  def __init__(self, r): self.r = r
  def __eq__(self, other): return isinstance(other, (Eq, int, float, complex))
  def __hash__(self): return hash(1)
  def __repr__(self): return self.r
'''),
    ('An(', '''class An(pg.Object):
  x: pg.typing.Any()
  y: pg.typing.Any() = None
'''),
    ('Ty(', '''class Ty(pg.Object):
  i: int = 1
  b: bool = True
  f: float = 1.0
  z: float = 0.0
  c: bool = False
  j: int = 0
'''),
]
PRE_LEAF = ''.join(x for _, x in _PRE_LEAF_PARTS)


def _leaf_head(stmts):
  return 'import pyglove as pg\n' + ''.join(x for k, x in _PRE_LEAF_PARTS if k in stmts)


# group -> [(source, kind)]; kind 'exact': shown by its repr, 'loose': repr or
# str (library number types), 'str': a str leaf (repr or the text itself).
LOOKALIKES = {
    'one': [('1', 'exact'), ('True', 'exact'), ('1.0', 'exact'), ('(1+0j)', 'exact'),
            ("decimal.Decimal('1')", 'loose'), ('fractions.Fraction(1, 1)', 'loose')],
    'zero': [('0', 'exact'), ('False', 'exact'), ('0.0', 'exact'), ('-0.0', 'exact'), ('0j', 'exact')],
    'small': [('2', 'exact'), ('2.0', 'exact'), ('-1', 'exact'), ('-1.0', 'exact'), ('-2.0', 'exact'),
              ('-2', 'exact')],
    'big': [('10**20', 'exact'), ('1e20', 'exact'), ('2**53', 'exact'), ('float(2**53)', 'exact'),
            ('2**53 + 1', 'exact')],
    'special-float': [("float('nan')", 'exact'), ("float('inf')", 'exact'), ("float('-inf')", 'exact')],
    'text-of-other-type': [('None', 'exact'), ("'None'", 'str'), ('True', 'exact'), ("'True'", 'str'),
                           ('1', 'exact'), ("'1'", 'str'), ("'1.0'", 'str'), ('1.0', 'exact'),
                           ("float('nan')", 'exact'), ("'nan'", 'str')],
    'bytes-str': [("b'ab'", 'exact'), ("'ab'", 'str'), ("b''", 'exact'), ("''", 'str'), ("b'1'", 'exact'),
                  ('1', 'exact')],
    'user-eq': [("Eq('eqobja')", 'exact'), ("Eq('eqobjb')", 'exact'), ('1', 'exact'), ('True', 'exact'),
                ('1.0', 'exact')],
}

# (position, side-by-side template with {A} {B}, single template with {A})
LEAF_POSITIONS = [
    ('root', None, '{A}'),
    ('list-item', '[{A}, {B}]', '[{A}]'),
    ('tuple-item', '({A}, {B})', '({A},)'),
    ('dict-value', "{{'ka': {A}, 'kb': {B}}}", "{{'ka': {A}}}"),
    ('pg.List-item', 'pg.List([{A}, {B}])', 'pg.List([{A}])'),
    ('pg.Dict-value', 'pg.Dict(ka={A}, kb={B})', 'pg.Dict(ka={A})'),
    ('pg.Object-field', 'An({A}, {B})', 'An({A})'),
    ('nested', "{{'ka': [{A}, {{'kb': ({B},)}}]}}", "[{{'ka': ({A},)}}]"),
    ('across-containers', "[[{A}], {{'kb': {B}}}]", None),
    ('ref', 'pg.Dict(ka=pg.Ref(An({A})), kb=An({B}))', 'pg.Ref(An({A}))'),
    # containers that are equal (==, pg.eq, hash) although their leaves differ
    ('equal-containers', '[An({A}), An({B}), pg.Dict(ka={A}), pg.Dict(ka={B})]', 'An(0, An({A}))'),
]

LEAF_OPTSETS = [
    ('default', {}),
    ('no-tooltips+content-only', dict(content_only=True, enable_summary_tooltip=False, enable_key_tooltip=False)),
    ('label-keys+expand-all', dict(key_style='label', collapse_level=None)),
    ('summary-always', dict(enable_summary=True, max_summary_len_for_str=0)),
    ('no-summary', dict(enable_summary=False, collapse_level=0)),
]


def _leaf_texts(value, kind):
  if kind == 'str':
    return [repr(value), value]     # ('' as text is trivially there)
  if kind == 'loose':
    return [repr(value), str(value)]
  return [repr(value)]


def _fails_fresh(code, timeout=120):
  """The snippet fails (non-zero exit) in a fresh interpreter with the same import path."""
  try:
    p = subprocess.run([sys.executable, '-c', code], env=dict(os.environ), timeout=timeout,
                       stdout=subprocess.DEVNULL, stderr=subprocess.DEVNULL, check=False)
    return p.returncode != 0
  except Exception:  # pylint: disable=broad-except
    return False


_W_DRIVER = ("import sys; sys.path[:0] = ['/verif']\nimport bounded.c20_html as m\n"
             "r = m.drv_leaf_identity(%r, %r)   # fails only after the renderings the driver made before\n"
             "bad = [f['message'] for f in r['failures'] if f['case_id'] == %r]\nassert not bad, bad")


def _lookalike(va, vb, ta, tb):
  """Equal (or equal hash) values, or the text of one is part of the other's."""
  try:
    if va == vb or vb == va or hash(va) == hash(vb):
      return True
  except Exception:  # pylint: disable=broad-except
    pass
  return any(x in y or y in x for x in ta for y in tb if x and y)


def drv_leaf_identity(tier, seed):
  rec = Recorder(
      PROP, 'look-alike leaves (equal across types, or text contained in the other text) are each '
            'shown as themselves, side by side and in consecutive renderings',
      scope='%d look-alike groups (%s), every ordered pair of look-alikes (==, equal hash, or one text inside the other) of a group x %d leaf positions (side by '
            'side in one value; one after the other in two renderings) x %d option sets (quick: '
            'default options for all, the others rotate over every third pair x position); typed fields with look-alike '
            'defaults; each leaf must occur as a token of its own outside tooltips'
            % (len(LOOKALIKES), ', '.join(LOOKALIKES), len(LEAF_POSITIONS), len(LEAF_OPTSETS)))
  shift = rng(seed, 'c20-leaf-identity').randrange(60)
  ns = _ns(PRE_LEAF)
  def render(vsrc, opts):
    v = eval(vsrc, dict(ns))  # pylint: disable=eval-used
    return pg.to_html_str(v, **opts)

  def judge(cid, key, stmts, s, leaves, hist=''):
    """leaves: [(src, acceptable texts)].  Records presence + well-formedness."""
    doc = parse_html(s)
    _record(rec, 'leaf-identity/wellformed', key, not doc.errors,
            '; '.join('%s: %s' % e for e in doc.errors[:3]), _leaf_head(stmts) + stmts + _W_FALLBACK)
    tok = doc.token_text()
    for src, texts in leaves:
      ok = any(has_token(tok, t) for t in texts)
      shown = [x for x in tok.split('\x1f') if x.strip()]
      tname = type(eval(src, dict(ns))).__name__  # pylint: disable=eval-used
      full = '%s:%s-leaf' % (cid, tname)

      def witness(texts=texts, full=full):
        # What this process rendered before may matter: keep the first
        # candidate that fails in a fresh interpreter.
        tail = 'import html, re\n' + _W_TOKENS % (texts,)
        for body in (stmts, hist + stmts):
          w = _leaf_head(body) + body + tail
          if len(w) <= 1200 and _fails_fresh(w):
            return w
        return _W_DRIVER % (tier, seed, full)

      _record(rec, full, key, ok,
              'leaf %s (text %s) is not shown as a token of its own; texts shown: %r'
              % (src, ' or '.join(map(repr, texts)), shown[:12]), witness)

  def opts_src(opts):
    return ''.join(', %s=%r' % kv for kv in opts.items())

  n = 0
  for gname, members in LOOKALIKES.items():
    vals = [(src, kind, eval(src, dict(ns))) for src, kind in members]  # pylint: disable=eval-used
    for ia, (sa, ka, va) in enumerate(vals):
      for ib, (sb, kb, vb) in enumerate(vals):
        if ia == ib:
          continue
        ta, tb = _leaf_texts(va, ka), _leaf_texts(vb, kb)
        if set(ta) & set(tb):
          continue     # same text: nothing to tell apart
        if not _lookalike(va, vb, ta, tb):
          continue
        cid_pair = gname
        members_src = '[%s]' % ', '.join(m_[0] for m_ in members)
        for pos, both, single in LEAF_POSITIONS:
          n += 1
          if tier == 'quick':
            # default options everywhere; the other option sets rotate over
            # every third (pair, position).
            osets = [LEAF_OPTSETS[0]]
            if (n + shift) % 3 == 0:
              osets.append(LEAF_OPTSETS[1 + (n // 3 + shift) % (len(LEAF_OPTSETS) - 1)])
          else:
            osets = LEAF_OPTSETS
          for oname, opts in osets:
            hist = 'for x in %s:\n  pg.to_html_str(%s%s)\n' % (
                members_src, (single or '[{A}]').format(A='x'), opts_src(opts))
            if both is not None:
              vsrc = both.format(A=sa, B=sb)
              stmts = 'v = %s\ns = pg.to_html_str(v%s)\n' % (vsrc, opts_src(opts))
              try:
                s = render(vsrc, opts)
              except Exception as e:  # pylint: disable=broad-except
                _record(rec, 'leaf-identity/raises:%s' % type(e).__name__, (vsrc, oname), False,
                        repr(e), _leaf_head(stmts) + stmts)
              else:
                judge('leaf-identity.side-by-side/%s' % cid_pair, (pos, sa, sb, oname), stmts, s,
                      [(sa, ta), (sb, tb)], hist)
            if single is not None:
              v1, v2 = single.format(A=sa), single.format(A=sb)
              stmts = ('pg.to_html_str(%s%s)\nv = %s\ns = pg.to_html_str(v%s)\n'
                       % (v1, opts_src(opts), v2, opts_src(opts)))
              try:
                render(v1, opts)
                s = render(v2, opts)
              except Exception as e:  # pylint: disable=broad-except
                _record(rec, 'leaf-identity/raises:%s' % type(e).__name__, (v1, v2, oname), False,
                        repr(e), _leaf_head(stmts) + stmts)
              else:
                judge('leaf-identity.consecutive-renderings/%s' % cid_pair, (pos, sa, sb, oname),
                      stmts, s, [(sb, tb)], hist)

  # Typed fields: defaults / given values that are look-alikes of each other.
  for vsrc, leaves in [
      ('Ty()', ['1', 'True', '1.0', '0.0', 'False', '0']),
      ('Ty(f=2.0, i=2, z=-0.0)', ['2', 'True', '2.0', '-0.0', 'False', '0']),
      ('Ty(b=False, c=True, i=0, j=1, f=0.0, z=1.0)', ['0', 'False', '0.0', '1.0', 'True', '1']),
      ('[Ty(), An(1.0, True), An(True, 1.0)]', ['1', 'True', '1.0', '0.0', 'False', '0']),
      ('pg.Dict(a=Ty(), b=0.0, c=False, d=-0.0, e=1)', ['1', 'True', '1.0', '0.0', 'False', '0', '-0.0']),
  ]:
    for oname, opts in LEAF_OPTSETS:
      stmts = 'v = %s\ns = pg.to_html_str(v%s)\n' % (vsrc, opts_src(opts))
      try:
        s = render(vsrc, opts)
      except Exception as e:  # pylint: disable=broad-except
        _record(rec, 'leaf-identity/raises:%s' % type(e).__name__, (vsrc, oname), False, repr(e),
                _leaf_head(stmts) + stmts)
        continue
      judge('leaf-identity.typed-fields', (vsrc, oname), stmts, s, [(t, [t]) for t in leaves])
  return rec.result()


# ---------------------------------------------------------------------------
# Driver 6: the building blocks of the tree view under their OWN defaults.
#
# HtmlTreeView.render / content / complex_value / summary / simple_value /
# object_key are public methods: extension classes (and users) call them
# directly and spell out only the options they care about.  An option that is
# not spelled out takes the default of the very method that is called --
# nothing above hands it down.  "Under any combination of view options"
# includes the combinations in which an option is omitted, at every method that
# takes it, and "every key and every leaf value of the rendered tree is
# present" holds for the tree handed to the building block.
#
#  (a) direct calls: nothing spelled out / exactly one option spelled out /
#      pairwise combinations in which "omitted" is one value of every option;
#  (b) summary / simple_value / object_key with and without their options;
#  (c) extension classes whose hooks call a building block and forward
#      nothing, a fixed subset, the pass-through subset or all of the options
#      they received, embedded at every kind of position.
# ---------------------------------------------------------------------------

_SLOT_RE = re.compile(r'@(V\d|K\d|N|T|X)@')
_BENIGN = {'V0': 'valzero', 'V1': 'longval' + 'y' * 90, 'V2': 'valtwo', 'V3': 'valthree',
           'V4': 'valfour', 'V5': 'valfive', 'V6': 'valsix', 'V7': 'valseven',
           'V8': 'plainrepr', 'X': 'noteval', 'K0': 'keyzero', 'K1': 'keyone',
           'K2': 'keytwo', 'N': 'rootname', 'T': 'roottitle'}


class _Fill:
  """Literals for the @V0@.. / @K0@.. / @N@ @T@ @X@ slots of a source template.

  load 'benign': plain words; 'hot-values': payloads in the value slots (V*, X);
  'hot-keys': payloads in the key / name / title slots.
  """

  def __init__(self, ri, load, key_pos='tree.key@summary-style', name_expect='text'):
    self.plants = {}
    hv, hk = load == 'hot-values', load == 'hot-keys'
    spec = [('V%d' % i, 'tree.str-leaf' + ('.long' if i == 1 else ''), 'str', hv) for i in range(8)]
    spec += [('V8', 'tree.repr-leaf', 'text', hv), ('X', 'tree.debug-info', 'none', hv)]
    spec += [('K%d' % i, key_pos, 'text', hk) for i in range(3)]
    spec += [('N', 'tree.name-option', name_expect, hk), ('T', 'tree.title-option', 'text', hk)]
    for idx, (name, pos, expect, hot) in enumerate(spec):
      if hot:
        pool = KEY_SAFE if name[0] in 'KNT' else PAYLOAD_NAMES
        self.plants[name] = Plant(pos, pool[(ri * 5 + idx * 3) % len(pool)], expect,
                                  suffix=('y' * 90 if name == 'V1' else ''))

  def lit(self, name, twin):
    p = self.plants.get(name)
    return p.src(twin) if p is not None else repr(_BENIGN[name])

  def subst(self, src, twin):
    return _SLOT_RE.sub(lambda m: self.lit(m.group(1), twin), src)

  def used(self, *sources):
    """The plants whose slot occurs in one of the sources."""
    text = ' '.join(sources)
    return [p for n, p in self.plants.items() if '@%s@' % n in text]


BLOCK_ROOTS = {
    'dict': "{@K0@: @V0@, 'klong': @V1@, 'kempty': '', 'num': 7919, 'flt': 3.25, 'flag': True, 'none': None, "
            "'lst': [@V2@, 104729, {@K1@: @V3@}], 'obj': In(@V4@), 'ref': pg.Ref(In(@V5@, 6)), "
            "'tup': (@V6@, 65537), 'plk': Pl(@V8@), 'e1': {}}",
    'pg.Dict': "pg.Dict({@K0@: @V0@, 'klong': @V1@, 'kempty': '', 'num': 7919, 'flt': 3.25, 'flag': True, "
               "'none': None, 'lst': [@V2@, 104729, {@K1@: @V3@}], 'obj': In(@V4@), 'ref': pg.Ref(In(@V5@, 6)), "
               "'plk': Pl(@V8@), 'e2': []})",
    'int-keyed dict': "{0: @V0@, 1: 7919, 5: [@V2@], 6: @V1@, 'kmixed': @V3@, 8: {@K0@: 3.25}}",
    'list': "[@V0@, @V1@, 7919, {@K0@: @V2@, 'flt': 3.25}, In(@V4@), None, (@V6@, 65537), '', Pl(@V8@)]",
    'pg.Object': "Ob(num=7919, lst=[@V2@, {@K1@: @V3@}], obj=In(@V4@, 8), none=None, flt=3.25, kempty='', "
                 "**{@K0@: @V0@, 'klong': @V1@})",
    'str': '@V0@',
    'long-str': '@V1@',
    'int': '7919',
}
_BLOCK_CONTAINERS = ['dict', 'pg.Dict', 'int-keyed dict', 'list', 'pg.Object']
BLOCK_ENTRIES = {
    'view.render': list(BLOCK_ROOTS),
    'view.content': list(BLOCK_ROOTS),
    'view.complex_value[items]': _BLOCK_CONTAINERS,
    'view.complex_value[parent=None]': ['dict', 'pg.Dict', 'int-keyed dict'],
}
# Options every one of render / content / complex_value takes.  The callable
# `uncollapse` is left to the option sweep (known finding, tracked there).
_BLOCK_OPTION_NAMES = (
    'name', 'css_classes', 'collapse_level', 'uncollapse', 'enable_summary', 'enable_summary_for_str',
    'max_summary_len_for_str', 'enable_summary_tooltip', 'enable_key_tooltip', 'key_style', 'key_color',
    'include_keys', 'exclude_keys', 'extra_flags', 'child_config', 'highlight', 'lowlight', 'debug')
BLOCK_OPTIONS = [
    (n, [x for x in vals if not (n == 'uncollapse' and x[0] == 'fn')]
     + ([('True', 'True')] if n == 'enable_summary_for_str' else []))
    for n, vals in SWEEP_OPTIONS if n in _BLOCK_OPTION_NAMES]

_EXT_SIG = '(self, *, view, name=None, parent=None, root_path=None, **kwargs)'
# hook -> (body with @F@ = the forwarded options, may it forward content-only options?)
EXT_HOOKS = {
    'content->complex_value': (
        '  def _html_tree_view_content%s:\n'
        '    return view.complex_value(dict(self.sym_items()), parent=self, '
        'root_path=root_path or pg.KeyPath()@F@)\n' % _EXT_SIG, True),
    'content->content': (
        '  def _html_tree_view_content%s:\n'
        '    return view.content(self, name=name, parent=parent, root_path=root_path@F@)\n' % _EXT_SIG, True),
    'content->render-children': (
        '  def _html_tree_view_content%s:\n'
        "    return pg.Html.element('div', [view.render(c, name=k, parent=self, "
        'root_path=pg.KeyPath(k, root_path)@F@) for k, c in self.sym_items()])\n' % _EXT_SIG, True),
    'render->render': (
        '  def _html_tree_view_render%s:\n'
        '    return view.render(self, name=name, parent=parent, root_path=root_path@F@)\n' % _EXT_SIG, True),
    'tree_view->render': (
        '  def _html_tree_view%s:\n'
        '    return view.render(self, name=name, parent=parent, root_path=root_path@F@)\n' % _EXT_SIG, True),
    'summary->summary': (
        '  def _html_tree_view_summary%s:\n'
        '    return view.summary(self, name=name, parent=parent, root_path=root_path@F@)\n' % _EXT_SIG, False),
}
# forward -> (source appended to the call, the options it spells out, content options?)
EXT_FORWARDS = {
    'nothing': ('', {}, False),
    'tooltips-off': (', enable_summary_tooltip=False, enable_key_tooltip=False', {}, False),
    'summary-always': (', enable_summary=True', {'enable_summary': True}, False),
    'label-keys': (", key_style='label'", {'key_style': 'label'}, True),
    'expand-all': (', collapse_level=None', {}, True),
    'long-str-limit': (', max_summary_len_for_str=200, enable_summary_for_str=True', {}, False),
    'pass-through': (', **view.get_passthrough_kwargs(**kwargs)', {}, True),
    'everything': (', **kwargs', {}, False),
}
EXT_VALUE = "Ex(@V0@, @V1@, 7919, [@V2@, 65537, {@K0@: @V3@}], In(@V4@), '')"
EXT_EMBED = {
    'root': '{E}',
    'dict-value': "{{'ke7': {E}, 'kq7': 'after'}}",
    'pg.Dict-value': "pg.Dict(ke7={E}, kq7='after')",
    'list-item': "[{E}, 'after']",
    'object-field': "Ob(kx7={E}, kq7='after')",
    'ref': "pg.Dict(kr7=pg.Ref({E}))",
}
EXT_TOP_OPTIONS = [
    ('default', []),
    ('no-tooltips', NOTIP),
    ('expand-all', [('collapse_level', 'None')]),
    ('collapse-all', [('collapse_level', '0')]),
    ('content-only', [('content_only', 'True')]),
]


def _ext_prelude(hook, forward):
  return (PRE_SWEEP + 'class Ex(pg.Object, pg.views.HtmlTreeView.Extension):\n'
          '  s: str\n  t: str\n  n: int\n  l: list\n  o: pg.typing.Any() = None\n  e: str = \'\'\n'
          + EXT_HOOKS[hook][0].replace('@F@', EXT_FORWARDS[forward][0]))


def drv_building_blocks(tier, seed):
  Plant._counter[0] = 400000
  quick = tier == 'quick'
  n_random = 6 if quick else 600
  rec = Recorder(
      PROP, 'the public building blocks of the tree view (render / content / complex_value / summary / '
            'simple_value / object_key) called directly, and from extension hooks that forward nothing / '
            'a subset / the pass-through subset / all of their options: omitted options take the '
            "building block's own defaults",
      scope='(a) %d entry x root-kind combinations (%s over %s) with nothing spelled out x 3 payload loads; '
            'every value of %d options spelled out alone (x 4 entries); pairwise covering array over '
            'entry x root x options with "omitted" as a value + %d random rows; '
            '(b) summary x 8 root kinds x 2 names x 10 option sets, simple_value x 14 leaves x 5 option sets, '
            'object_key x 9 keys x 4 option sets; '
            '(c) %d extension hooks x %d forwarding forms x %d embeddings (payload load and top-level '
            'options rotate; quick: all of it for the hooks that forward nothing)'
            % (sum(len(v) for v in BLOCK_ENTRIES.values()), ', '.join(BLOCK_ENTRIES), ', '.join(BLOCK_ROOTS),
               len(BLOCK_OPTIONS), n_random, len(EXT_HOOKS), len(EXT_FORWARDS), len(EXT_EMBED)))
  r = rng(seed, 'c20-blocks')
  loads = ('benign', 'hot-values', 'hot-keys')
  counter = [0]

  def block_case(entry, root_label, chosen, load):
    """chosen: [(option, label, source template)] -- the options spelled out."""
    counter[0] += 1
    ri = counter[0]
    kind = entry.split('[')[0]
    ks = dict((n, l) for n, l, _ in chosen).get('key_style', '-')
    fill = _Fill(ri, load, key_pos='tree.key@%s-style' % ('label' if ks == 'label' else 'summary'),
                 name_expect='text' if kind == 'view.render' else 'none')
    raw_opts = [(n, src) for n, _, src in chosen]
    used = fill.used(BLOCK_ROOTS[root_label], *[src for _, src in raw_opts])

    def present(v, kw, kind=kind):
      out = list(expected_tree(v, kw))
      if kind == 'view.render' and 'name' in kw and kw.get('enable_summary') is not False:
        # the name is the key of the root: it is shown in the summary.
        sfx = 'name'
        if (isinstance(v, str) and kw.get('enable_summary') is None
            and not kw.get('enable_summary_for_str', True)):
          sfx = 'key@summary-style' + _KF_NO_STR_SUMMARY
        out.append(('text', kw['name'], sfx))
      return out

    label = tuple('%s=%s' % (n, l) for n, l, _ in chosen)
    Case(rec, 'tree.blocks[%s]' % load, (entry, root_label, label, load), PRE_SWEEP,
         lambda twin: fill.subst(BLOCK_ROOTS[root_label], twin), raw_opts, used,
         entry=entry, present=present, kw_present=True, fmt=fill.subst,
         pgroup='tree.blocks[%s]' % entry, minimize=True, reduce_on_raise=True,
         twin=(load != 'benign' and (not quick or ri % 2 == 0))).run()

  # (a1) nothing spelled out.
  for entry, roots in BLOCK_ENTRIES.items():
    for root_label in roots:
      for load in loads:
        if root_label == 'int' and load != 'benign':
          continue
        block_case(entry, root_label, [], load)
  # (a2) one option spelled out, all the others omitted.
  i = r.randrange(60)
  for name, vals in BLOCK_OPTIONS:
    for label, src in vals:
      if src is None:
        continue
      for entry, roots in BLOCK_ENTRIES.items():
        i += 1
        rs = roots if not quick else [roots[i % len(roots)]]
        for j, root_label in enumerate(rs):
          for load in (loads if not quick else [loads[(i + j) % 3]]):
            block_case(entry, root_label, [(name, label, src)], load)
  # (a3) pairwise combinations; "omitted" is a value of every option.
  params = [('entry', [(e, e) for e in BLOCK_ENTRIES]), ('root', [(k, k) for k in BLOCK_ROOTS])] + BLOCK_OPTIONS
  rows = pairwise_rows(params, r, extra_random=n_random)
  for ri, row in enumerate(rows):
    choice = {name: vals[i] for (name, vals), i in zip(params, row)}
    entry = choice['entry'][0]
    roots = BLOCK_ENTRIES[entry]
    root_label = choice['root'][0]
    if root_label not in roots:
      root_label = roots[list(BLOCK_ROOTS).index(root_label) % len(roots)]
    chosen = [(n, choice[n][0], choice[n][1]) for n, _ in BLOCK_OPTIONS if choice[n][1] is not None]
    for load in (loads if not quick else [loads[ri % 3]]):
      block_case(entry, root_label, chosen, load)

  # (b) summary: the name (the key of the value in its container) and the
  # title are shown whatever else is or is not spelled out.
  sum_sets = [
      ('default', []), ('no-tooltips', NOTIP), ('enable_summary=None', [('enable_summary', 'None')]),
      ('enable_summary=True', [('enable_summary', 'True')]),
      ('enable_summary_for_str=True', [('enable_summary_for_str', 'True')]),
      ('max_summary_len_for_str=0', [('max_summary_len_for_str', '0')]),
      ('max_summary_len_for_str=200', [('max_summary_len_for_str', '200')]),
      ('title', [('title', '@T@')]), ('css_classes', [('css_classes', "['cc']")]),
      ('summary_color', [('summary_color', "('red', None)")]),
  ]
  n = 0
  for root_label in BLOCK_ROOTS:
    for load in ('benign', 'hot-keys'):
      for oname, oset in sum_sets:
        n += 1
        if quick and load == 'hot-keys' and (n + seed) % 3:
          continue
        fill = _Fill(n, load)
        opts = [('name', '@N@')] + oset
        title = fill.plants['T'].text if 'T' in fill.plants else _BENIGN['T']
        name = fill.plants['N'].text if 'N' in fill.plants else _BENIGN['N']
        want = [('text', name, 'name')] + ([('text', title, 'title')] if oname == 'title' else [])
        Case(rec, 'tree.blocks[view.summary]', (root_label, oname, load), PRE_SWEEP,
             lambda twin, fill=fill, root_label=root_label: fill.subst(BLOCK_ROOTS[root_label], twin),
             opts, fill.used(*[x for _, x in opts]), entry='view.summary', fmt=fill.subst,
             present=lambda v, want=want: want, twin=not quick).run()

  # (b) simple_value: the leaf itself.
  leaves = ["'abc'", "''", "'y' * 79", "'y' * 80", "'y' * 81", '@V0@', '@V1@', '7919', '3.25', '-0.0', 'True',
            'None', "b'ab'", 'Pl(@V8@)']
  for li, leaf in enumerate(leaves):
    for oname, oset in [('default', []), ('max_summary_len_for_str=0', [('max_summary_len_for_str', '0')]),
                        ('max_summary_len_for_str=80', [('max_summary_len_for_str', '80')]),
                        ('max_summary_len_for_str=200', [('max_summary_len_for_str', '200')]),
                        ('css_classes+name', [('css_classes', "['cc']"), ('name', "'nm7'")])]:
      fill = _Fill(li, 'hot-values')
      Case(rec, 'tree.blocks[view.simple_value]', (leaf, oname), PRE_SWEEP,
           lambda twin, fill=fill, leaf=leaf: fill.subst(leaf, twin), oset, fill.used(leaf),
           entry='view.simple_value', present=lambda v: expected_tree(v, {}), twin=not quick).run()

  # (b) object_key: the key itself.
  for ki, key in enumerate(["'kplain'", '@K0@', '@K1@', '0', '12', "'a b'", "'0'", "'True'", "'k\u00e9'"]):
    for oname, oset in [('default', []), ('no-tooltip', [('enable_key_tooltip', 'False')]),
                        ('key_color', [('key_color', "('red', None)")]),
                        ('css_classes', [('css_classes', "['cc']")])]:
      fill = _Fill(ki, 'hot-keys', key_pos='tree.key@label-style')

      def key_present(v):
        if isinstance(v, int):
          return [('token', str(v), 'index-key')]
        return [('key', v, 'key@label-style')]

      Case(rec, 'tree.blocks[view.object_key]', (key, oname), '',
           lambda twin, fill=fill, key=key: fill.subst(key, twin), oset, fill.used(key),
           entry='view.object_key', present=key_present, check_unmodified=False, twin=not quick).run()

  # (c) extension hooks that call a building block themselves.
  n = r.randrange(30)
  for hook, (_, content_level) in EXT_HOOKS.items():
    for forward, (_, spelled, needs_content) in EXT_FORWARDS.items():
      if needs_content and not content_level:
        continue
      pre = _ext_prelude(hook, forward)
      for embed, tmpl in EXT_EMBED.items():
        n += 1
        all_of_it = not quick or forward == 'nothing'
        for li, load in enumerate(loads):
          if not all_of_it and li != n % 3:
            continue
          tops = EXT_TOP_OPTIONS if not quick else [EXT_TOP_OPTIONS[(n + li) % len(EXT_TOP_OPTIONS)]]
          for oname, oset in tops:
            ks = 'label' if spelled.get('key_style') == 'label' else 'summary'
            fill = _Fill(n + li, load, key_pos='tree.key@%s-style' % ks)
            src = tmpl.format(E=EXT_VALUE)
            Case(rec, 'tree.extension[%s]' % hook, (hook, forward, embed, load, oname), pre,
                 lambda twin, fill=fill, src=src: fill.subst(src, twin), oset, fill.used(src),
                 present=lambda v, spelled=spelled: expected_tree(v, spelled),
                 pgroup='tree.extension[%s]' % hook,
                 twin=(load != 'benign' and (not quick or n % 2 == 0))).run()
  return rec.result()


# ---------------------------------------------------------------------------
# Driver 7: values that bring their own rendering, at every keyed position.
#
# pg.Diff, pg.Ref, contextual attributes, partial objects and the hyper / typing
# values override (parts of) the tree view.  With the default key style the
# *child* draws the key it is stored under, so "every key ... of the rendered
# tree is present" depends on every one of those overrides: each of them is
# embedded under a key of every kind of container (and rendered as a named
# root), and the key of the embedding, the keys the value draws itself and its
# leaves have to be in the text outside tooltips.
# ---------------------------------------------------------------------------

PRE_SPECIAL = PRE_SWEEP + PRE_CTX + '''class An(pg.Object):
  x: pg.typing.Any()
  y: pg.typing.Any() = None
'''

_DS = 'diff-side'
# (label, source, [(kind, text or @slot@, case-id suffix)] -- what the value shows of itself;
#  None: an ordinary tree, judged by expected_tree).
SPECIALS = [
    # a difference without children: both sides are shown
    ('diff.leaf', 'pg.Diff(7919, 104729)', [('token', '7919', _DS), ('token', '104729', _DS)]),
    ('diff.leaf', 'pg.Diff(@V0@, @V2@)', [('str', '@V0@', _DS), ('str', '@V2@', _DS)]),
    ('diff.leaf', 'pg.Diff(@V1@, 3.25)', [('str', '@V1@', _DS), ('token', '3.25', _DS)]),
    ('diff.leaf', 'pg.Diff(In(@V0@, 7919), 65537)',
     [('str', '@V0@', _DS), ('token', '7919', _DS), ('token', '65537', _DS)]),
    ('diff.leaf.one-sided', 'pg.Diff(pg.Diff.MISSING, 7919)', [('token', '7919', _DS)]),
    ('diff.leaf.one-sided', 'pg.Diff(@V0@, pg.Diff.MISSING)', [('str', '@V0@', _DS)]),
    # no difference, the common value is shown
    ('diff.no-diff.simple', 'pg.Diff(7919, 7919)', [('token', '7919', _DS)]),
    ('diff.no-diff.simple', 'pg.Diff(@V0@, @V0@)', [('str', '@V0@', _DS)]),
    ('diff.no-diff.long-str', 'pg.Diff(@V1@, @V1@)', [('str', '@V1@', _DS)]),
    ('diff.no-diff.object', "pg.diff(In(@V0@, 7919), In(@V0@, 7919), mode='both')",
     [('str', '@V0@', _DS), ('token', '7919', _DS), ('key', 's', 'diff-key'), ('key', 'n', 'diff-key')]),
    ('diff.empty', 'pg.Diff()', []),
    # differences with children: the keys are drawn by the Diff
    ('diff.object', 'pg.diff(In(@V0@, 7919), In(@V2@, 7919))',
     [('str', '@V0@', _DS), ('str', '@V2@', _DS), ('key', 's', 'diff-key')]),
    ('diff.object', "pg.diff(In(@V0@, 7919), In(@V2@, 104729), mode='both')",
     [('str', '@V0@', _DS), ('str', '@V2@', _DS), ('token', '7919', _DS), ('token', '104729', _DS),
      ('key', 's', 'diff-key'), ('key', 'n', 'diff-key')]),
    ('diff.object', "pg.diff(pg.Dict({@K1@: 7919, 'ks7': @V0@}), pg.Dict({@K1@: 104729, 'ks7': @V0@}), mode='both')",
     [('str', '@V0@', _DS), ('token', '7919', _DS), ('token', '104729', _DS),
      ('key', '@K1@', 'diff-key'), ('key', 'ks7', 'diff-key')]),
    ('diff.class', 'pg.diff(In(@V0@, 7919), pg.Dict(s=@V0@, n=104729))',
     [('token', '7919', _DS), ('token', '104729', _DS), ('key', 'n', 'diff-key')]),
    ('diff.list', "pg.diff(pg.List([7919, @V0@]), pg.List([7919, @V2@, 65537]), mode='both')",
     [('str', '@V0@', _DS), ('str', '@V2@', _DS), ('token', '7919', _DS), ('token', '65537', _DS)]),
    ('diff.nested',
     'pg.diff(pg.Dict(ka7=pg.Dict(kb7=7919, kc7=[@V0@])), pg.Dict(ka7=pg.Dict(kb7=104729, kc7=[@V2@])))',
     [('str', '@V0@', _DS), ('str', '@V2@', _DS), ('token', '7919', _DS), ('token', '104729', _DS),
      ('key', 'ka7', 'diff-key'), ('key', 'kb7', 'diff-key'), ('key', 'kc7', 'diff-key')]),
    # the documented flat form: a dict of key path -> Diff
    ('diff.flattened', 'pg.Dict(pg.diff(pg.Dict(ka7=7919, kb7=pg.Dict(kc7=@V0@), kd7=3.25), '
                       'pg.Dict(ka7=104729, kb7=pg.Dict(kc7=@V2@), kd7=3.25), flatten=True))',
     [('str', '@V0@', _DS), ('str', '@V2@', _DS), ('token', '7919', _DS), ('token', '104729', _DS),
      ('key', 'ka7', 'flat-key'), ('key', 'kb7.kc7', 'flat-key')]),
    # references
    ('ref', 'pg.Ref(In(@V0@, 7919))', None),
    ('ref', 'pg.Ref(pg.Dict({@K1@: [@V0@, 7919]}))', None),
    ('ref', "pg.Ref({'kr7': (@V0@, 7919)})", None),
    # contextual attributes
    ('contextual', 'Ch()', []),
    ('contextual', 'Pa(@V0@, Ch())', [('str', '@V0@', 'str-leaf'), ('key', 't', 'key@summary-style'),
                                      ('key', 'c', 'key@summary-style')]),
    # partial objects, hyper values, value specifications
    ('partial', 'In.partial(n=7919)', [('token', '7919', 'simple-leaf'), ('key', 's', 'key@summary-style'),
                                      ('key', 'n', 'key@summary-style')]),
    ('hyper', 'pg.oneof([7919, @V0@])', []),
    ('hyper', 'pg.floatv(0.25, 3.25)', []),
    ('hyper', 'pg.DNA([1, (2, [3])])', []),
    ('typing', 'pg.typing.Int(min_value=7919)', []),
    ('typing', "pg.typing.Dict([('kt7', pg.typing.Str(), @V0@)])", []),
]

# embedding -> (template, extra options); @K0@ is the key the value is stored under.
SPECIAL_EMBED = {
    'named-root': ('{E}', [('name', '@K0@')]),
    'dict-value': ("{{@K0@: {E}, 'kq7': 'after'}}", []),
    'pg.Dict-value': ("pg.Dict({{'kp7': 'before', @K0@: {E}}})", []),
    'object-field': ("An({E}, 'after')", []),
    'strkey-object-field': ('Ob(**{{@K0@: {E}}})', []),
    'list-item': ("[{E}, 'after']", []),
    'nested': ("{{'ka9': [{{@K0@: {E}}}, 65539]}}", []),
    'ref-target': ('pg.Dict(kr9=pg.Ref(pg.Dict({{@K0@: {E}}})))', []),
    'sibling-specials': ('pg.Dict({{@K0@: {E}, @K2@: {E}}})', []),
}
SPECIAL_OPTSETS = [
    ('default', []),
    ('no-tooltips', NOTIP),
    ('label-keys', [('key_style', "'label'")]),
    ('key-style-fn', [('key_style', "lambda k, v, p: 'label' if isinstance(v, (int, str)) else 'summary'")]),
    ('expand-all', [('collapse_level', 'None')]),
    ('collapse-all', [('collapse_level', '0')] + NOTIP),
    ('summary-always', [('enable_summary', 'True')]),
    ('tiny-summary-len', [('max_summary_len_for_str', '0'), ('enable_key_tooltip', 'False')]),
    ('content-only', [('content_only', 'True')] + NOTIP),
    ('highlight+colors', [('highlight', 'lambda k, v, p: True'), ('key_color', "('red', None)"),
                          ('summary_color', "(None, '#eee')")]),
]
_SPECIAL_ENTRIES = ('pg.to_html_str', 'pg.to_html', 'view_options', 'repr_html', 'view.render')


def _is_special(x):
  """x is one of the values of SPECIALS that is not an ordinary tree."""
  from pyglove.core import geno, hyper  # pylint: disable=g-import-not-at-top
  return (isinstance(x, (pg.Diff, pg.ContextualObject, hyper.HyperValue, geno.DNA, pg.typing.ValueSpec))
          or (isinstance(x, pg.Object) and type(x).__name__ == 'In' and x.sym_partial))


def drv_special_values(tier, seed):
  Plant._counter[0] = 500000
  quick = tier == 'quick'
  rec = Recorder(
      PROP, 'values with their own rendering (pg.Diff in every shape, flattened diffs, pg.Ref, contextual '
            'attributes, partial objects, hyper values, value specs) stored under a key of every kind of '
            'container: the key of the embedding, the keys the value draws and its leaves are shown',
      scope='%d special values x %d embeddings (%s) x %d option sets x 3 payload loads x %d entry points '
            '(quick: default options + 1 rotating option set per value x embedding; load and entry rotate)'
            % (len(SPECIALS), len(SPECIAL_EMBED), ', '.join(SPECIAL_EMBED), len(SPECIAL_OPTSETS),
               len(_SPECIAL_ENTRIES)))
  loads = ('benign', 'hot-values', 'hot-keys')
  n = rng(seed, 'c20-special').randrange(120)
  for label, esrc, own in SPECIALS:
    for embed, (tmpl, extra) in SPECIAL_EMBED.items():
      n += 1
      if quick and label in ('hyper', 'typing') and n % 2:
        continue    # ordinary objects with a long repr: every other embedding
      if quick:
        k = len(SPECIAL_OPTSETS) - 1
        osets = [SPECIAL_OPTSETS[0], SPECIAL_OPTSETS[1 + n % k]]
      else:
        osets = SPECIAL_OPTSETS
      for oi, (oname, oset) in enumerate(osets):
        for li, load in enumerate(loads):
          if quick and li != (n + oi) % 3:
            continue
          entry = 'pg.to_html_str'
          if oname != 'content-only' and (n + oi + li) % 4 == 0:
            entry = _SPECIAL_ENTRIES[1 + ((n + oi) // 4) % (len(_SPECIAL_ENTRIES) - 1)]
          opts = _merge_opts(oset, extra)
          kopt = dict(opts).get('key_style', '')
          fill = _Fill(n + oi, load, key_pos='tree.key@%s-style' % ('label' if kopt == "'label'" else 'summary'))
          src = tmpl.format(E=esrc)
          used = fill.used(src, *[x for _, x in opts])

          def present(v, kw, own=own, fill=fill, embed=embed):
            out = list(expected_tree(v, kw, opaque=None if own is None else _is_special))
            es = kw.get('enable_summary')
            if embed == 'named-root' and es is not False:
              out.append(('key', kw['name'], 'key@summary-style'))
            for kind, text, sfx in own or []:
              if text.startswith('@'):
                text = eval(fill.lit(text.strip('@'), False))  # pylint: disable=eval-used
              if sfx.startswith('key@') and es is False:
                continue
              if sfx == 'flat-key':
                ks = kw.get('key_style', 'summary')
                st = ks(None, None, None) if callable(ks) else ks
                if st == 'summary' and es is False:
                  continue
                sfx = 'key@%s-style' % st
              out.append((kind, text, sfx))
            seen, uniq = set(), []
            for e in out:
              if e[:2] not in seen:
                seen.add(e[:2])
                uniq.append(e)
            return uniq

          Case(rec, 'tree.special[%s]' % label, (esrc, embed, oname, load, entry), PRE_SPECIAL,
               lambda twin, fill=fill, src=src: fill.subst(src, twin), opts, used,
               entry=entry, present=present, kw_present=True, fmt=fill.subst,
               pgroup='tree.special[%s]' % label,
               twin=(load != 'benign' and (not quick or n % 2 == 0))).run()
  return rec.result()


# ---------------------------------------------------------------------------
# Driver 8: rendering a control never modifies it.
#
# Controls are symbolic values with inherited fields (id, css_classes, styles,
# interactive) next to their own, and nest (labels in groups and tabs, tooltips
# in labels, sub-progresses in a progress bar).  Rendering computes derived
# attributes (widths, class lists, element ids) from those fields: "rendering
# does not modify the value" is checked for every control shape with every
# inherited field given at every level of the nesting, through every entry
# point, standing alone and embedded in containers, rendered once, twice, and
# again after each update operation of the control.
# ---------------------------------------------------------------------------

# (shape, source with @B@ = the inherited-field arguments of ONE control of the shape)
CONTROL_SHAPES = [
    ('label', "C.Label('t7'@B@)"),
    ('label', "C.Label('t7', 'tip7', 'http://x/y'@B@)"),
    ('label', "C.Label(pg.Html('<b>t7</b>'), target='_blank'@B@)"),
    ('label.tooltip', "C.Label('t7', C.Tooltip('tip7'@B@))"),
    ('badge', "C.Badge('t7'@B@)"),
    ('label-group', "C.LabelGroup(['a7', C.Badge('b7')], name='n7'@B@)"),
    ('label-group.label', "C.LabelGroup([C.Label('a7'@B@), 'b7'], name='n7')"),
    ('label-group.name', "C.LabelGroup(['a7'], name=C.Label('n7'@B@))"),
    ('tooltip', "C.Tooltip('tip7', for_element='.x'@B@)"),
    ('tab-control', "C.TabControl([C.Tab('a7', pg.Dict(k=1)), C.Tab('b7', C.Label('z7'))], 1@B@)"),
    ('tab-control', "C.TabControl([C.Tab('a7', pg.Html('<i>x</i>'))], tab_position='left'@B@)"),
    ('tab-control.tab-label', "C.TabControl([C.Tab(C.Label('a7'@B@), pg.Dict(k=1))])"),
    ('tab-control.tab-content', "C.TabControl([C.Tab('a7', C.Label('z7'@B@))])"),
    ('progress-bar', "C.ProgressBar([C.SubProgress('done7', 2), C.SubProgress('failed7', 1)], total=8@B@)"),
    ('progress-bar.sub-progress', "C.ProgressBar([C.SubProgress('done7', 2@B@), C.SubProgress('failed7')], total=8)"),
    ('progress-bar.sub-progress', "C.ProgressBar([C.SubProgress('skipped7'), C.SubProgress('done7', 8@B@)], total=8)"),
    ('progress-bar.sub-progress[total=None]', "C.ProgressBar([C.SubProgress('done7', 2@B@)])"),
]
# inherited fields: (label, source; @P@ = payload slot (shown as attribute value))
CONTROL_FIELDS = [
    ('none', ''),
    ('id', ", id='cid7'"),
    ('id', ', id=@P@'),
    ('css_classes', ", css_classes=['cc7', 'cd7']"),
    ('css_classes', ", css_classes=['cc7', @P@]"),
    ('styles', ", styles={'color': 'red'}"),
    ('styles', ", styles={'background-color': 'green', 'width': '3px', 'margin-left': '1px'}"),
    ('styles', ", styles={'color': @P@}"),
    ('styles', ", styles=pg.Dict(color='red')"),
    ('interactive', ', interactive=True'),
    ('all', ", id='cid7', css_classes=['cc7'], styles={'color': 'red', 'height': '2px'}, interactive=True"),
]
CONTROL_EMBED = [
    ('alone', '{E}', 'v.to_html_str'),
    ('alone', '{E}', 'pg.to_html_str'),
    ('alone', '{E}', 'pg.to_html'),
    ('alone', '{E}', 'v.to_html'),
    ('alone', '{E}', 'repr_html'),
    ('alone', '{E}', 'view_options'),
    ('pg.Dict-value', 'pg.Dict(kq7={E})', 'pg.to_html_str'),
    ('list-item', "[{E}, 'after']", 'pg.to_html_str'),
    ('nested', "pg.Dict(ko7=pg.List([{E}]))", 'v.to_html_str'),
    ('tab-content', "C.TabControl([C.Tab('outer7', {E})])", 'v.to_html_str'),
    ('ref-target', 'pg.Ref({E})', 'pg.to_html_str'),
]
# operations of the controls; the value after the operation is the value to keep.
CONTROL_UPDATES = [
    ('label.update', "C.Label('t7', 'tip7', 'http://a', interactive=True@B@)",
     ["v.update(text='new7')", "v.update(tooltip='ntip7')", "v.update(link='http://b')",
      "v.update(styles={'color': 'blue'})", "v.update(add_class=['ca7'], remove_class=['cc7'])",
      "v.update('new8', 'ntip8', styles={'width': '5px'})"]),
    ('badge.update', "C.Badge('t7', interactive=True@B@)", ["v.update(text='new7')", "v.update(styles={'color': 'blue'})"]),
    ('tooltip.update', "C.Tooltip('tip7', for_element='.x', interactive=True@B@)",
     ["v.update('ntip7')", "v.update(pg.Html('<b>ntip7</b>'))"]),
    ('tab-control.update', "C.TabControl([C.Tab('a7', pg.Dict(k=1), name='na7'), C.Tab('b7', C.Label('z7'), name='nb7')]@B@)",
     ["v.select(1)", "v.select('nb7')", "v.append(C.Tab('c7', pg.Dict(q=2)))",
      "v.insert(0, C.Tab('c7', C.Label('y7')))", "v.extend([C.Tab('c7', pg.Dict(q=2)), C.Tab('d7', pg.Dict(q=3))])"]),
    ('progress-bar.update', "C.ProgressBar([C.SubProgress('done7', 2@B@), C.SubProgress('failed7')], total=8)",
     ["v['done7'].increment()", "v['failed7'].increment(3)", "v['done7'].update(5)"]),
    ('progress-bar.update', "C.ProgressBar([C.SubProgress('done7'@B@), C.SubProgress('failed7', 1)])",
     ["v.update(total=4)", "v.update(total=4); v['done7'].increment()"]),
]


# The same pattern in the tree view: an extension that hands its OWN symbolic
# fields (lists / dicts) to the view as option values, from its configuration
# and from a hook.  The view merges and extends option values; the fields stay
# as they are.
PRE_OWN = '''class Ow(pg.Object):
  classes: list
  cfg: dict
  paths: list
  flags: dict
  keys: list
  s: str
  l: list
  def _html_tree_view_config(self):
    return dict(css_classes=self.classes, child_config=self.cfg, uncollapse=self.paths,
                extra_flags=self.flags, exclude_keys=self.keys, collapse_level=0)
class Oh(Ow, pg.views.HtmlTreeView.Extension):
  def _html_tree_view_config(self):
    return {}
  def _html_tree_view_content(self, *, view, name=None, parent=None, root_path=None, **kwargs):
    kwargs.update(css_classes=self.classes, child_config=self.cfg, uncollapse=self.paths,
                  extra_flags=self.flags, exclude_keys=self.keys)
    return view.content(self, name=name, parent=parent, root_path=root_path, **kwargs)
'''
_OWN_ARGS = ("(['c1'], {'l': dict(css_classes=['c2'], collapse_level=None, uncollapse=['x'], extra_flags=dict(q=1))}, "
             "['l', 'l[1]'], dict(hide_frozen=False), ['keys'], @P@, [1, {'x': [@P@]}])")
OWN_EMBED = [('root', '{E}'), ('pg.Dict-value', 'pg.Dict(a={E})'), ('list-item', '[{E}, {E}]'),
             ('ref-target', 'pg.Dict(r=pg.Ref({E}))')]
OWN_OPTIONS = [
    ('default', []), ('css_classes', [('css_classes', "['top']")]), ('uncollapse', [('uncollapse', "['a.l', 'l']")]),
    ('extra_flags', [('extra_flags', 'dict(z=1)')]), ('collapse_level', [('collapse_level', 'None')]),
    ('exclude_keys', [('exclude_keys', "['flags']")]),
    ('child_config', [('child_config', "dict(a=dict(css_classes=['cc'], child_config=dict(l=dict(css_classes=['dd']))), "
                                       "l=dict(uncollapse=['[1]']))")]),
]


def drv_control_state(tier, seed):
  Plant._counter[0] = 600000
  quick = tier == 'quick'
  rec = Recorder(
      PROP, 'rendering never modifies a control: every control shape x inherited field (id / css_classes / '
            'styles / interactive, plain and with payloads) at every nesting level x entry point / embedding; '
            'render twice; render again after every update operation',
      scope='%d control shapes x %d inherited-field settings x %d entry points/embeddings (quick: alone via '
            'rotating entry point/embedding and payload per shape x setting; updates under 3 settings); '
            're-rendering of every shape x setting; %d update operations x %d settings; tree-view extensions '
            'handing their own list/dict fields to the view (config / hook) x 4 embeddings x 7 option sets'
            % (len(CONTROL_SHAPES), len(CONTROL_FIELDS), len(CONTROL_EMBED),
               sum(len(u[2]) for u in CONTROL_UPDATES), len(CONTROL_FIELDS)))
  n = rng(seed, 'c20-control-state').randrange(60)
  hot = [x for x in KEY_SAFE]
  for shape, stmpl in CONTROL_SHAPES:
    for fname, fsrc in CONTROL_FIELDS:
      n += 1
      embeds = CONTROL_EMBED if not quick else [CONTROL_EMBED[n % len(CONTROL_EMBED)]]
      for ei, (ename, etmpl, entry) in enumerate(embeds):
        pnames = [None]
        if '@P@' in fsrc:
          pnames = hot if not quick else [hot[(n * 3 + ei) % len(hot)]]
        for pname in pnames:
          plants = []
          if pname is not None:
            # a control below a pg.Ref is shown as a tree: the field is a str leaf there.
            plants = [Plant('controls.%s-field' % fname, pname, 'str' if ename == 'ref-target' else 'attr')]

          def vsrc(twin, etmpl=etmpl, stmpl=stmpl, fsrc=fsrc, plants=plants):
            b = fsrc.replace('@P@', plants[0].src(twin)) if plants else fsrc
            return etmpl.format(E=stmpl.replace('@B@', b))

          Case(rec, 'controls.state[%s]' % shape, (stmpl, fname, ename, entry, pname), PRE_CTL, vsrc,
               [] if entry == 'repr_html' else [('content_only', 'True' if (n + ei) % 2 else 'False')],
               plants, entry=entry, twin=bool(plants) and (not quick or n % 2 == 0)).run()

      # the same value rendered twice: the same document, the same value.
      if quick and '@P@' in fsrc:
        continue
      src = stmpl.replace('@B@', fsrc.replace('@P@', "'plain7'"))
      code = ('import pyglove as pg\n' + PRE_CTL + 'v = %s\nb = pg.format(v, compact=True)\ns1 = v.to_html_str()\n'
              's2 = pg.to_html_str(v)\ns3 = v.to_html_str()\n' % src)
      ns = {'__name__': '__main__', 'snap': snapshot}
      try:
        exec(code.replace('b = pg.format(v, compact=True)\n', 'b = pg.format(v, compact=True)\nsn = snap(v)\n'), ns)  # pylint: disable=exec-used
      except Exception as e:  # pylint: disable=broad-except
        _record(rec, 'controls.state[%s]/raises:%s' % (shape, type(e).__name__), (stmpl, fname), False,
                repr(e), code)
        continue
      v = ns['v']
      _record(rec, 'controls.state[%s]/value-unmodified' % shape, (stmpl, fname, 're-render'),
              snapshot(v) == ns['sn'] and pg.format(v, compact=True) == ns['b'],
              'the control differs after three renderings: %s -> %s' % (ns['b'][:200], pg.format(v, compact=True)[:200]),
              code + 'assert pg.format(v, compact=True) == b, (b, pg.format(v, compact=True))')
      _record(rec, 'controls.state[%s]/re-render-same-document' % shape, (stmpl, fname),
              ns['s1'] == ns['s2'] == ns['s3'],
              'consecutive renderings of the same unchanged control give different documents',
              code + 'assert s1 == s2 == s3')

  # tree-view extensions that hand their own fields to the view.
  for cls in ('Ow', 'Oh'):
    for ename, etmpl in OWN_EMBED:
      for oname, oset in OWN_OPTIONS:
        n += 1
        p = Plant('tree.str-leaf', PAYLOAD_NAMES[n % len(PAYLOAD_NAMES)], 'str')
        Case(rec, 'tree.own-fields-as-options[%s]' % ('config' if cls == 'Ow' else 'hook'), (cls, ename, oname),
             PRE_OWN, lambda twin, p=p, etmpl=etmpl, cls=cls: etmpl.format(E=cls + _OWN_ARGS.replace('@P@', p.src(twin))),
             oset, [p], twin=not quick).run()

  # render, operate, render again: the second rendering leaves the operated value alone
  # and is a well-formed document.
  for cid, stmpl, ops in CONTROL_UPDATES:
    for fname, fsrc in CONTROL_FIELDS:
      if '@P@' in fsrc or (fname == 'interactive' and 'interactive=True' in stmpl):
        continue
      if quick and (fname, fsrc) not in (CONTROL_FIELDS[0], CONTROL_FIELDS[5], CONTROL_FIELDS[-1]):
        continue
      if fname == 'all' and 'interactive=True' in stmpl:
        fsrc = fsrc.replace(', interactive=True', '')
      for op in ops:
        code = ('import pyglove as pg\n' + PRE_CTL + 'v = %s\ns0 = v.to_html_str()\n%s\nb = pg.format(v, compact=True)\n'
                's = v.to_html_str()\n' % (stmpl.replace('@B@', fsrc), op))
        ns = {'__name__': '__main__', 'snap': snapshot}
        try:
          exec(code.replace('\ns = v.to_html_str()', '\nsn = snap(v)\ns = v.to_html_str()'), ns)  # pylint: disable=exec-used
        except Exception as e:  # pylint: disable=broad-except
          _record(rec, 'controls.state[%s]/raises:%s' % (cid, type(e).__name__), (stmpl, fname, op), False,
                  repr(e), code)
          continue
        v = ns['v']
        _record(rec, 'controls.state[%s]/value-unmodified' % cid, (stmpl, fname, op),
                snapshot(v) == ns['sn'] and pg.format(v, compact=True) == ns['b'],
                'rendering after %s modified the control: %s -> %s' % (op, ns['b'][:200], pg.format(v, compact=True)[:200]),
                code + 'assert pg.format(v, compact=True) == b, (b, pg.format(v, compact=True))')
        doc = parse_html(ns['s'])
        _record(rec, 'controls.state[%s]/wellformed' % cid, (stmpl, fname, op), not doc.errors,
                '; '.join('%s: %s' % e for e in doc.errors[:3]), code + _W_FALLBACK)
  return rec.result()


# ---------------------------------------------------------------------------
# Driver 9: `child_config` is the configuration of the named child only.
#
# "child_config: the configs for the immediate child nodes ... to override the
# default configs for the child node": an option set for one child decides
# which keys / leaves of THAT child are rendered; its siblings -- before and
# after it -- are rendered under the options of the call.  Every option that
# selects keys or leaves (hide_default_values / hide_frozen in extra_flags,
# include_keys, exclude_keys) and a sample of the others is configured for
# the first / a middle / the last child of every kind of container, with and
# without the same kind of option given at the top level, and every key and
# leaf the documented meaning selects has to be present.
# ---------------------------------------------------------------------------

PRE_CC = '''class Ia(pg.Object):
  ks7: str
  kn7: int = 7919
  kf7: pg.typing.Str().freeze('fza')
class Ib(pg.Object):
  ks7: str
  kn7: int = 104729
  kf7: pg.typing.Str().freeze('fzb')
class Ic(pg.Object):
  ks7: str
  kn7: int = 65537
  kf7: pg.typing.Str().freeze('fzc')
class Oc(pg.Object):
  a: Ia
  b: Ib
  c: Ic
'''
_CC_CHILDREN = "Ia(@V0@), Ib(@V2@), Ic(@V3@)"
CC_ROOTS = {
    'pg.Dict': ("pg.Dict(a=Ia(@V0@), b=Ib(@V2@), c=Ic(@V3@))", ['a', 'b', 'c']),
    'dict': ("{'a': Ia(@V0@), 'b': Ib(@V2@), 'c': Ic(@V3@)}", ['a', 'b', 'c']),
    'list': ("[Ia(@V0@), Ib(@V2@), Ic(@V3@)]", [0, 1, 2]),
    'pg.Object': ("Oc(Ia(@V0@), Ib(@V2@), Ic(@V3@))", ['a', 'b', 'c']),
    'nested': ("{'top': pg.Dict(a=Ia(@V0@), b=Ib(@V2@), c=Ic(@V3@))}", ['a', 'b', 'c']),
}
# option of the child -> source of its config
CC_CHILD_OPTIONS = [
    ('extra_flags.hide_default_values', "dict(extra_flags=dict(hide_default_values=True))"),
    ('extra_flags.hide_frozen', "dict(extra_flags=dict(hide_frozen=False))"),
    ('extra_flags.user-flag', "dict(extra_flags=dict(note=@X@))"),
    ('exclude_keys', "dict(exclude_keys=['kn7'])"),
    ('include_keys', "dict(include_keys=['ks7'])"),
    ('key_style', "dict(key_style='label')"),
    ('collapse_level', "dict(collapse_level=0)"),
    ('css_classes', "dict(css_classes=['cc7'])"),
    ('tooltips', "dict(enable_summary_tooltip=False, enable_key_tooltip=False)"),
    ('uncollapse', "dict(uncollapse=['ks7'])"),
    ('child_config', "dict(child_config=dict(ks7=dict(css_classes=['cd7'])))"),
]
CC_TOP_OPTIONS = [
    ('-', []),
    ('extra_flags={}', [('extra_flags', '{}')]),
    ('extra_flags=user-flag', [('extra_flags', 'dict(zflag=1)')]),
    ('exclude_keys=fn', [('exclude_keys', 'lambda k, v, p: False')]),
    ('expand-all+css', [('collapse_level', 'None'), ('css_classes', "['top7']")]),
]


def drv_child_config(tier, seed):
  Plant._counter[0] = 700000
  quick = tier == 'quick'
  rec = Recorder(
      PROP, 'child_config configures the named child only: keys and leaves of its siblings are rendered '
            'under the options of the call',
      scope='%d containers x configured child first/middle/last x %d child options x %d top-level option '
            'sets x 2 payload loads (quick: top-level sets and loads rotate)'
            % (len(CC_ROOTS), len(CC_CHILD_OPTIONS), len(CC_TOP_OPTIONS)))
  n = rng(seed, 'c20-child-config').randrange(30)
  for root_label, (rsrc, keys) in CC_ROOTS.items():
    for ti, target in enumerate(keys):
      for cname, csrc in CC_CHILD_OPTIONS:
        n += 1
        tops = CC_TOP_OPTIONS if not quick else [CC_TOP_OPTIONS[0], CC_TOP_OPTIONS[1 + n % (len(CC_TOP_OPTIONS) - 1)]]
        for oi, (oname, oset) in enumerate(tops):
          for li, load in enumerate(('benign', 'hot-values')):
            if quick and li != (n + oi) % 2:
              continue
            fill = _Fill(n + oi, load)
            cc = 'dict([(%r, %s)])' % (target, csrc)
            if root_label == 'nested':
              cc = 'dict(top=dict(child_config=%s))' % cc
            opts = oset + [('child_config', cc)] + NOTIP

            def present(v, kw, target=target, csrc=csrc, fill=fill, root_label=root_label):
              cfg = eval(fill.subst(csrc, False), _ns(PRE_CC))  # pylint: disable=eval-used
              top = {k: x for k, x in kw.items() if k != 'child_config'}
              box = v['top'] if root_label == 'nested' else v
              items = (list(enumerate(box)) if isinstance(box, list) else
                       list(box.sym_items()) if isinstance(box, pg.Symbolic) else list(box.items()))
              out = [('key', 'top', 'key@summary-style')] if root_label == 'nested' else []
              for k, c in items:
                out.append(('token', str(k), 'index-key') if isinstance(k, int) else ('key', k, 'key@summary-style'))
                mine = dict(top)
                if k == target:
                  for ck, cx in cfg.items():
                    mine[ck] = dict(mine.get(ck) or {}, **cx) if ck == 'extra_flags' else cx
                tag = 'configured-child' if k == target else ('sibling-after' if items.index((k, c)) > [i for i, (kk, _) in enumerate(items) if kk == target][0] else 'sibling-before')
                out += [(kind, text, '%s.%s' % (tag, sfx)) for kind, text, sfx in expected_tree(c, mine)]
              return out

            # children of a sequence are named by their position (an int key of the
            # configuration): one input class of its own.
            grp = 'tree.child-config.by-position' if root_label == 'list' else 'tree.child-config[%s]' % cname
            Case(rec, grp, (root_label, cname, ti, oname, load), PRE_CC,
                 lambda twin, fill=fill, rsrc=rsrc: fill.subst(rsrc, twin), opts,
                 fill.used(rsrc, csrc), present=present, kw_present=True, fmt=fill.subst,
                 pgroup=grp, twin=(load != 'benign' and not quick)).run()
  return rec.result()


_W_TOKENS = ("t = html.unescape(re.sub(r'<[^>]*>', '\\x1f', "
             "re.sub(r'<span class=\"tooltip[^\"]*\"[^>]*>[^<]*</span>', '', s)))\n"
             "assert any(re.search(r'(?<![\\w.+\\-])' + re.escape(x) + r'(?![\\w.])', t) for x in %r), "
             "[x for x in t.split('\\x1f') if x.strip()][-12:]")

_W_THREADS = '''import pyglove as pg, threading
v = pg.Dict(a='x', b=[1])
f = lambda **k: pg.to_html_str(v, content_only=True, **k)
o = [dict(key_style='label'), dict(max_summary_len_for_str=0)]
want = [f(**o[0]), f(**o[1])]; got = [None, None]; bar = threading.Barrier(2)
def sync(k, x, p):
  try: bar.wait(0.05)
  except threading.BrokenBarrierError: pass
  return False
def work(i):
  with pg.view_options(**o[i]): got[i] = f(highlight=sync)
ts = [threading.Thread(target=work, args=(i,)) for i in (0, 1)]
[t.start() for t in ts]; [t.join() for t in ts]
assert got == want
'''

DRIVERS = [drv_positions, drv_option_pairs, drv_controls, drv_scoping, drv_leaf_identity,
           drv_building_blocks, drv_special_values, drv_control_state, drv_child_config]


def replay(rec):
  """Re-executes rec['witness']; returns (ok, message)."""
  try:
    exec(rec['witness'], {'__name__': '__main__'})  # pylint: disable=exec-used
    return True, 'witness passes'
  except Exception as e:  # pylint: disable=broad-except
    return False, f'{type(e).__name__}: {e}'
