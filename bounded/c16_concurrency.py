"""C16 -- concurrent sampling hands out each trial once and loses no feedback.

Bounded run-time oracle (never counted as proved).  THIS IS STRESS SAMPLING OF
THREAD SCHEDULES, NOT AN ENUMERATION: the claim quantifies over all
interleavings, which cannot be enumerated from inside CPython.  The driver
makes the schedules as adversarial as it can:

  * 2..8 worker threads iterate the same named `pg.sample` loop (in-memory
    backend), `sys.setswitchinterval(1e-6)`;
  * a per-thread line tracer (`sys.settrace`) forces a yield (`time.sleep` of
    0..200us) with a seeded probability at every *statement* executed inside
    pyglove/core/tuning/{local_backend,sample,protocols}.py,
    core/geno/{dna_generator,deduping}.py and Evolution._propose/_feedback/
    _evolve, more often inside the functions that hold the critical sections
    (backend constructor, next, create_trial, done, skip, _add_measurement,
    _complete_trial, propose, feedback);
  * the search algorithm is wrapped by a probe whose propose/feedback also
    yield, which records every feedback it receives, whose proposal/feedback
    counters are read and written through yielding properties (widening the
    window of `self._num_x += 1`), and which checks, at the moment a new
    trial is being created for a group, that no earlier trial of that group
    is still pending; one algorithm is an Evolution that keeps its whole
    population and whose population update takes 3 ms, so that a feedback
    whose effect is lost is visible;
  * optionally all workers finish their trials at the same moment (soft
    rendezvous), with rewards that improve with every trial;
  * all mixes of done / multi-measurement done / skip / policy driven early
    stop / worker break / end_loop, solo groups (None, str, int), co-worker
    groups (single finisher and racing finishers), shared and per-worker
    algorithm objects, staggered and barrier-released starts.

  * a second grid varies the *inputs* of the loop on the same layouts: group
    ids of every documented kind (ints from 0, the empty string, non-positive
    ints, ints and strings mixed), fewer requested trials than workers or
    groups (0, 1, W-1), finishers that call done() before a measurement exists
    and then finish properly, finishers that repeat done/skip/add_measurement
    on the trial they have finished, a hyper value as search space.

  * algorithms WITHOUT feedback (`needs_feedback` is False: the class does not
    override the `_feedback` hook, or states the property itself):
    pg.geno.Random / Sweeping / Deduping(Random) / a `pg.geno.dna_generator`
    function handed to pg.sample as they are (the window inside
    `self._num_x += 1` is opened by forced yields between the *instructions*
    of DNAGenerator.propose/feedback, sys.monitoring), subclasses of them with
    yielding counters, forwarding wrappers that override the public
    `feedback()` hook or the `needs_feedback` property and keep their record
    of the reports the way sequential code does (read, compute, write).  Such
    an algorithm's own account must show every completed trial exactly once,
    like that of an algorithm with feedback.  A fourth driver
    (`drv_algorithms_without_feedback`) runs every kind; the grids of the
    first driver mix them in (1 scenario in 4).
  * shared algorithms (and a shared early stopping policy) that are NOT set up
    when the workers start: the pg.sample call of whichever worker comes first
    sets them up (a `_setup` of 0 / 3..5 / 20..30 ms) while the others arrive.
    No worker may see an exception and the counters of the algorithm must
    account for every trial.

  * WHO MAKES THE pg.sample CALL of a worker: the worker thread itself (the
    usual way), or another thread that hands the iterator over -- the
    coordinating thread before it starts the workers (the way one writes
    `executor.map(work, [pg.sample(...) for _ in range(W)])`), a helper thread
    that is gone when the workers run, a fellow worker.  The worker is the
    thread that iterates: workers without `group` are groups of their own
    ("if `group` is not specified ... every worker will work on different
    trials"), co-workers share their pending trial, whoever made the call.
    Mixed into the grids (1 scenario in 4), two pressure scenarios, and a
    block of deterministic lock-step specs (`maker`); group and delivery
    findings of this class carry `/iterator-made-by-another-thread`.

At quiescence the invariants of the statement are checked on
`pg.poll_result(name)`, the probe's log and the per-worker logs.  Every run
uses a unique study name.  A failure found by sampling is definite; absence of
failures is only evidence.

Two further drivers use DETERMINISTIC schedules (barriers between the steps of
the workers), for what does not depend on luck:

  * `drv_lockstep_groups`: in every round all workers ask for their trial, then
    one co-worker of each group finishes it (or nobody does: the same pending
    trial must be handed out again).  Varies the values used as group ids (10
    pools: falsy ids, big ints, ids that differ in case / blanks / sign only),
    co-workers per group, groups, workers without group, N (ample, exact,
    short, 1, 0), reward signs (0.0 as the maximum), study names, DNASpec or
    hyper value, explicit backend name, leaving and re-entering the loop,
    measurement by one co-worker and done() by another (also after a too
    early done()).
  * `drv_finish_sequences`: every order of feedback operations of length <= 3
    (thorough: 4) on one trial -- add_measurement, done, skip, invalid
    add_measurement, feedback(reward), exception under skip_on_exceptions --
    followed by a proper finish, by one worker or alternately by two
    co-workers.  After every operation the trial must be in the state the
    statement allows (done() without a measurement has nothing to report, so
    it cannot complete the trial; a refused operation changes nothing; after
    completion nothing changes); after the sequence the feedback log, the
    counts of the result and the best trial are checked.
"""
import ast
import itertools
import logging
import os
import sys
import threading
import time
import traceback

import pyglove as pg
from pyglove.ext import evolution as ev
from pyvc.bounded import Recorder, rng

# ---------------------------------------------------------------------------
# Adversarial scheduling.
# ---------------------------------------------------------------------------

_SLEEPS = (0.0, 0.0, 1e-6, 1e-5, 5e-5, 2e-4)
_HOT = frozenset([
    '__init__', 'next', 'next_dna', 'create_trial', 'done', 'skip', '_add_measurement',
    '_complete_trial', 'propose', 'feedback', '_feedback', '_propose', 'get_latest_trial',
    'next_trial_id', '_create_feedback', 'end_loop', '_set_active', '__call__',
    'setup', '_setup',
])
_EVO_FUNCS = frozenset(['_propose', '_feedback', '_evolve'])


def _target_files():
  import importlib  # pylint: disable=g-import-not-at-top
  mods = [importlib.import_module(n) for n in (
      'pyglove.core.tuning.local_backend', 'pyglove.core.tuning.sample',
      'pyglove.core.tuning.protocols', 'pyglove.core.geno.dna_generator',
      'pyglove.core.geno.deduping')]
  eb = importlib.import_module('pyglove.ext.evolution.base')
  return {m.__file__ for m in mods}, eb.__file__


_FULL_FILES, _EVO_FILE = _target_files()
_tls = threading.local()


def _yield_now():
  """Forced yield used by the probe (no-op outside adversarial workers)."""
  r = getattr(_tls, 'rng', None)
  if r is not None and r.random() < _tls.p_probe:
    time.sleep(r.choice(_SLEEPS))


def _yield_counter():
  """Longer yield between the read and the write of a `+= 1` on a counter."""
  r = getattr(_tls, 'rng', None)
  if r is not None and _tls.p_probe > 0:
    time.sleep(r.choice((0.0, 2e-4, 1e-3)))


def _make_tracer(r, p_cold, p_hot):
  sleep = time.sleep
  rnd = r.random
  choice = r.choice

  def hot(frame, event, arg):
    del frame, arg
    if event == 'line' and rnd() < p_hot:
      sleep(choice(_SLEEPS))
    return hot

  def cold(frame, event, arg):
    del frame, arg
    if event == 'line' and rnd() < p_cold:
      sleep(choice(_SLEEPS))
    return cold

  def tracer(frame, event, arg):
    del event, arg
    code = frame.f_code
    fn = code.co_filename
    if fn in _FULL_FILES:
      return hot if code.co_name in _HOT else cold
    if fn == _EVO_FILE and code.co_name in _EVO_FUNCS:
      return hot
    return None

  return tracer


class _InstructionYields:
  """Forced yields between the *instructions* of DNAGenerator.propose/feedback.

  The counters of a search algorithm are kept by `self._num_x += 1` inside
  these two functions.  For algorithm objects that are handed to pg.sample
  unmodified (no probe around them) the window between the read and the write
  of the counter is opened here: adversarial workers (those with `_tls.rng`)
  sleep with a seeded probability before an instruction of the two functions.
  Needs sys.monitoring (Python >= 3.12; before that the yielding counter
  properties of the instrumented subclasses are the only such window).
  """

  def __init__(self, p=0.12):
    self.p = p
    self.tool = None
    self.codes = [pg.DNAGenerator.propose.__code__, pg.DNAGenerator.feedback.__code__]

  def __enter__(self):
    mon = getattr(sys, 'monitoring', None)
    if mon is None:
      return self
    for t in (mon.DEBUGGER_ID, 3, 4):
      if mon.get_tool(t) is None:
        self.tool = t
        break
    if self.tool is None:
      return self
    p = self.p
    sleep = time.sleep

    def before_instruction(code, offset):
      del code, offset
      r = getattr(_tls, 'rng', None)
      if r is not None and getattr(_tls, 'p_instr', 0.0) and r.random() < p:
        sleep(r.choice(_SLEEPS))

    mon.use_tool_id(self.tool, 'c16-instruction-yields')
    mon.register_callback(self.tool, mon.events.INSTRUCTION, before_instruction)
    for c in self.codes:
      mon.set_local_events(self.tool, c, mon.events.INSTRUCTION)
    return self

  def __exit__(self, *exc):
    if self.tool is not None:
      mon = sys.monitoring
      for c in self.codes:
        mon.set_local_events(self.tool, c, 0)
      mon.register_callback(self.tool, mon.events.INSTRUCTION, None)
      mon.free_tool_id(self.tool)
      self.tool = None
    return False


# ---------------------------------------------------------------------------
# Probe around the search algorithm.
# ---------------------------------------------------------------------------

_serial = itertools.count(1)


def _window():
  """Window inside the sequential code of an algorithm that is not thread-safe."""
  r = getattr(_tls, 'rng', None)
  if r is not None:
    time.sleep(r.choice((0.0, 2e-4, 1e-3)))
  else:
    w = getattr(_tls, 'window', 0.0)
    if w:
      time.sleep(w)


class _Instrumented:
  """Mixin for DNAGenerator subclasses: yielding counters, observable set-up.

  The counters of DNAGenerator are updated by `self._num_x += 1`.  Reading
  and writing them through properties that may yield in between does not
  change their meaning; it only widens the window of the read-modify-write.
  `_setup` takes `_c16_slow_setup` seconds (an algorithm that builds a model)
  and counts how often it ran.  Nothing here overrides `_feedback`,
  `feedback` or `needs_feedback`.
  """

  @property
  def _num_proposals(self):
    v = self.__dict__.get('_c16_np', 0)
    _yield_counter()
    return v

  @_num_proposals.setter
  def _num_proposals(self, v):
    self.__dict__['_c16_np'] = v

  @property
  def _num_feedbacks(self):
    v = self.__dict__.get('_c16_nf', 0)
    _yield_counter()
    return v

  @_num_feedbacks.setter
  def _num_feedbacks(self, v):
    self.__dict__['_c16_nf'] = v

  def _setup(self):
    d = self.__dict__
    d['_c16_setups'] = d.get('_c16_setups', 0) + 1
    slow = d.get('_c16_slow_setup', 0.0)
    if slow:
      time.sleep(slow)       # (before the state of the algorithm exists)
    super()._setup()


@pg.members([('inner', pg.typing.Object(pg.DNAGenerator), 'Wrapped algorithm.')])
class _ProbeBase(_Instrumented, pg.DNAGenerator):
  """Tags every proposal of the wrapped algorithm with a serial number."""

  def _setup(self):
    super()._setup()
    self.inner.setup(self.dna_spec)
    self._proposed = []
    self._fed = []

  @property
  def multi_objective(self):
    return self.inner.multi_objective

  def _propose(self):
    chk = getattr(_tls, 'on_propose', None)
    if chk is not None:
      chk()
    _yield_now()
    d = self.inner.propose()
    s = next(_serial)
    d.set_metadata('c16', s)
    self._proposed.append(s)
    _yield_now()
    return d


class C16Probe(_ProbeBase):
  """Records proposals/feedbacks; yields inside propose/feedback.

  Overrides the `_feedback` hook: `needs_feedback` is True.
  """

  def _feedback(self, dna, reward):
    _yield_now()
    self._fed.append((dna.metadata.get('c16'), reward))
    _yield_now()
    self.inner.feedback(dna, reward)
    _yield_now()


class C16HookProbe(_ProbeBase):
  """A forwarding wrapper that overrides the PUBLIC `feedback()` hook.

  It does not override `_feedback`, so pyglove's `needs_feedback` is False for
  it.  Like every DNAGenerator it is plain sequential code: its record of the
  reports is kept by read, compute, write (with a window in between).  Every
  report handed to it one at a time is in the record.
  """

  def feedback(self, dna, reward):
    _yield_now()
    fed = list(self._fed)
    _window()
    fed.append((dna.metadata.get('c16'), reward))
    self._fed = fed
    self.inner.feedback(dna, reward)
    _yield_now()
    super().feedback(dna, reward)


class C16PropertyProbe(_ProbeBase):
  """A wrapper that states `needs_feedback` itself (the way Deduping does).

  `needs_feedback` is what the wrapped algorithm says; the reports are
  recorded and forwarded in the public hook (sequential code, see above).
  """

  @property
  def needs_feedback(self):
    return self.inner.needs_feedback

  def feedback(self, dna, reward):
    fed = list(self._fed)
    _window()
    fed.append((dna.metadata.get('c16'), reward))
    self._fed = fed
    self.inner.feedback(dna, reward)
    super().feedback(dna, reward)

  def _feedback(self, dna, reward):
    pass


# pyglove's own feedback-free generators, handed to pg.sample as they are
# ('plain-*': the window inside the counters comes from _InstructionYields) or
# as subclasses with yielding counters and a slow `_setup` ('ycount-*').
class C16Random(_Instrumented, pg.geno.Random):
  pass


class C16Sweeping(_Instrumented, pg.geno.Sweeping):
  pass


class C16Deduping(_Instrumented, pg.geno.Deduping):
  pass


@pg.geno.dna_generator
def _fn_generator(dna_spec):
  import random  # pylint: disable=g-import-not-at-top
  r = random.Random(16)
  while True:
    yield pg.random_dna(dna_spec, r)


class C16Policy(pg.tuning.EarlyStoppingPolicy):
  """Stops every third trial once it has a measurement.

  Its set-up may take a while (`_c16_slow_setup` seconds); it must not be asked
  before its set-up has finished.
  """

  def setup(self, dna_spec):
    super().setup(dna_spec)
    slow = self.__dict__.get('_c16_slow_setup', 0.0)
    if slow:
      time.sleep(slow)
    self._c16_ready = True

  def should_stop_early(self, trial):
    if not self.__dict__.get('_c16_ready'):
      raise RuntimeError('C16Policy asked before its set-up has finished')
    return trial.id % 3 == 0


_SPACE_EXPR = "pg.dna_spec(pg.Dict(x=pg.oneof([1, 2, 3]), y=pg.oneof(['a', 'b', 'c', 'd'])))"
_SMALL_SPACE_EXPR = "pg.dna_spec(pg.oneof([1, 2, 3]))"
# (a hyper value instead of a DNASpec: pg.sample then decodes every trial)
_HYPER_SPACE_EXPR = "pg.Dict(x=pg.oneof([1, 2, 3]), y=pg.oneof(['a', 'b', 'c', 'd']))"

_ALGOS = {
    'random': "pg.geno.Random(seed={seed})",
    'regevo': ("ev.regularized_evolution(ev.mutators.Uniform(seed={seed}), population_size=3, "
               "tournament_size=2, seed={seed})"),
    # Keeps every DNA that was fed back (Last(1000)): a feedback whose effect is
    # lost shows up as a missing member of the population.
    'evo-keep-all': ("ev.Evolution(ev.selectors.Random(1, seed={seed}) >> ev.mutators.Uniform(seed={seed}), "
                     "population_init=(pg.geno.Random(seed={seed}), 2), "
                     "population_update=ev.selectors.Last(1000) >> ev.Lambda(slow))"),
    'dedup-auto': ("pg.geno.Deduping(ev.hill_climb(ev.mutators.Uniform(seed={seed}), batch_size=2, "
                   "init_population_size=2, seed={seed}), "
                   "hash_fn=lambda d: hash(tuple(d.to_numbers())), "
                   "auto_reward_fn=lambda rs: sum(rs) / len(rs))"),
}


def _slow_identity(dna_list):
  """Population update step that takes a while (inside Evolution's lock)."""
  if getattr(_tls, 'worker', False):
    time.sleep(3e-3)
  return dna_list


_NS = {'pg': pg, 'ev': ev, 'slow': _slow_identity, 'fn_generator': _fn_generator,
       'C16Random': C16Random, 'C16Sweeping': C16Sweeping, 'C16Deduping': C16Deduping}


_DEDUP_ARGS = "hash_fn=lambda d: hash(tuple(d.to_numbers()))"
# Algorithms whose `needs_feedback` is False ("algorithms without feedback").
# (A Sweeping and a Deduping(max_duplicates=1) never propose a DNA twice.)
_PLAIN = {
    'plain-random': "pg.geno.Random(seed={seed})",
    'plain-sweeping': "pg.geno.Sweeping()",
    'plain-dedup-random': "pg.geno.Deduping(pg.geno.Random(seed={seed}), " + _DEDUP_ARGS + ")",
    'plain-fn': "fn_generator()",
    'ycount-random': "C16Random(seed={seed})",
    'ycount-sweeping': "C16Sweeping()",
    'ycount-dedup-random': "C16Deduping(pg.geno.Random(seed={seed}), " + _DEDUP_ARGS + ")",
}
_DISTINCT_DNA = frozenset(['plain-sweeping', 'plain-dedup-random', 'ycount-sweeping',
                           'ycount-dedup-random'])
# (wrappers around an algorithm of _ALGOS, see the probe classes)
_WRAPPERS = {'hook': 'C16HookProbe', 'prop': 'C16PropertyProbe'}
_NOFB_KINDS = (
    'hook-random', 'plain-random', 'ycount-sweeping', 'hook-evo-keep-all', 'plain-dedup-random',
    'ycount-random', 'prop-random', 'plain-sweeping', 'hook-regevo', 'plain-fn',
    'ycount-dedup-random')
_WIDE_SPACE_EXPR = ("pg.dna_spec(pg.Dict(x=pg.oneof([1, 2, 3, 4, 5]), "
                    "y=pg.oneof(['a', 'b', 'c', 'd', 'e', 'f'])))")


def _make_algo(kind, seed):
  if kind in _PLAIN:
    return eval(_PLAIN[kind].format(seed=seed), _NS)  # pylint: disable=eval-used
  cls = C16Probe
  head = kind.split('-', 1)[0]
  if head in _WRAPPERS and kind not in _ALGOS:
    cls = globals()[_WRAPPERS[head]]
    kind = kind.split('-', 1)[1]
  return cls(eval(_ALGOS[kind].format(seed=seed), _NS))  # pylint: disable=eval-used


def _recording(kind):
  """Does the algorithm object tag its proposals and record its reports?"""
  return kind not in _PLAIN


# ---------------------------------------------------------------------------
# One run of one scenario.
# ---------------------------------------------------------------------------

_run_counter = itertools.count(1)
_STUCK_SECS = 2.0


def _reward(cfg, tid):
  if cfg['rewards'] == 'increasing':
    return float(tid)      # every completion improves on the best so far
  if cfg['rewards'] == 'decreasing':
    return float(1000 - tid)   # the first trial stays the best: a later one must never replace it
  base = float((tid * 7 + cfg['salt']) % 5)
  if cfg['rewards'] == 'negative':
    return -1.0 - base     # an infeasible trial (reward 0.0) would look best
  return base


class _Rendezvous:
  """Soft barrier: lets the workers finish their trials at the same moment."""

  def __init__(self, n):
    self.n = n
    self.count = 0
    self.cv = threading.Condition()

  def wait(self, timeout):
    with self.cv:
      self.count += 1
      target = ((self.count - 1) // self.n + 1) * self.n
      if self.count >= target:
        self.cv.notify_all()
      else:
        self.cv.wait_for(lambda: self.count >= target, timeout)


def _action(cfg, tid, widx):
  """What a finisher does with trial `tid`."""
  acts = cfg['actions']
  i = tid * 3 + cfg['salt']
  if cfg['layout'] == 'racing-mixed':
    i += widx
  return acts[i % len(acts)]


# Values used as worker-group ids.  The documented type of `group` is "a string
# or an integer"; every value of that type names a group, including 0 and ''.
# (No pool holds two ids with the same str().)
_GID_POOLS = {
    'int-from-zero': lambda i: i,
    'str-empty-first': lambda i: ('' if i == 0 else f'g{i}'),
    'int-non-positive': lambda i: -i,
    'mixed-int-str': lambda i: (0, 'zero', '', 7, ' ', -1, 'None', 3)[i % 8],
}


def _gid_class(g):
  if g is None:
    return 'none'
  if isinstance(g, (int, str)) and not g:
    return 'zero-or-empty'
  return 'int' if isinstance(g, int) else 'str'


def _groups(cfg):
  base = _default_groups(cfg)
  style = cfg.get('gids', 'default')
  if style == 'default':
    return base
  order = []
  for g in base:
    if g is not None and g not in order:
      order.append(g)
  pool = _GID_POOLS[style]
  return [None if g is None else pool(order.index(g)) for g in base]


def _default_groups(cfg):
  w = cfg['W']
  lay = cfg['layout']
  if lay == 'none':
    return [None] * w
  if lay == 'names':
    return [f'g{i}' for i in range(w)]
  if lay == 'ints':
    return list(range(w))
  if lay in ('pairs-single', 'pairs-racing', 'racing-mixed'):
    return [f'p{i // 2}' for i in range(w)]
  if lay == 'one-racing':
    return ['all'] * w
  if lay == 'mixed-racing':
    # first two workers solo (None / named), the others in pairs.
    return [None, 'solo'] + [f'p{i // 2}' for i in range(w - 2)]
  raise ValueError(lay)


def _scenario(cfg):
  lay = cfg['layout']
  if lay in ('none', 'names', 'ints'):
    return 'solo-groups'
  if lay == 'pairs-single':
    return 'co-workers-single-finisher'
  return 'co-workers-racing-finishers'


class _RunLog:

  def __init__(self):
    self.tick = itertools.count(1)
    self.events = []      # per worker lists of (tick, kind, tid, extra)
    self.errors = []
    self.trial_objs = {}  # id(trial) -> trial, as delivered
    self.group_trials = {}  # group -> {trial id: trial} as delivered
    self.overlaps = []    # (group, still pending trial, newly delivered trial)
    self.rendezvous = None
    self.stop = False
    self.early_bad = []   # (trial, status) after a done() that had nothing to report
    self.policy = None    # the early stopping policy, if the workers share one


def _make_loop(cfg, group, algo, space, name, log):
  """The pg.sample call of one worker (by the worker itself or on its behalf)."""
  policy = (log.policy or C16Policy()) if cfg['policy'] else None
  return iter(pg.sample(space, algo, num_examples=cfg['N'], early_stopping_policy=policy,
                        name=name, group=group))


def _worker(cfg, widx, group, leader, algo, space, name, log, evs, start_evt, first_evt, r,
            loop=None):
  try:
    if cfg['trace'] or cfg['probe_yield']:
      _tls.rng = r
      _tls.p_probe = 0.5 if cfg['probe_yield'] else 0.0
      _tls.p_instr = 1.0
    if cfg['trace']:
      f = r.choice((0.3, 1.0, 2.5))
      sys.settrace(_make_tracer(r, min(0.9, cfg['p_cold'] * f), min(0.9, cfg['p_hot'] * f)))
    _tls.worker = True
    gkey = group if group is not None else ('thread', widx)

    asked = [0]

    def check_group(new, below=None):
      # A new trial exists (or is being created) for this group: every trial
      # handed to the group before must have left PENDING.  'sequential': the
      # group's latest trial is pending and had been delivered before this
      # worker even began its next() call.  'racing': the next() calls of two
      # co-workers overlap (or the trial was orphaned by such an overlap).
      known = [(pid, v) for pid, v in list(log.group_trials.get(gkey, {}).items())
               if below is None or pid < below]
      if not known:
        return
      latest = max(pid for pid, _ in known)
      for pid, (prev, rt) in known:
        if prev.status == 'PENDING' and (pid, new) not in reported:
          reported.add((pid, new))
          # (Only the creator of the new trial knows when it was created.)
          kind = ('sequential' if (new == 'new' and pid == latest and rt < asked[0])
                  else 'racing')
          log.overlaps.append((kind, str(gkey), pid, new))

    reported = set()

    def on_propose():
      check_group('new')

    _tls.on_propose = on_propose
    if start_evt is not None:
      start_evt.wait()
    racing = _scenario(cfg) == 'co-workers-racing-finishers'
    single = _scenario(cfg) == 'co-workers-single-finisher'
    tick = log.tick
    done_n = 0
    last_seen = None
    since = 0.0
    # (`loop`: the iterator was made for this worker by another thread)
    it = loop if loop is not None else _make_loop(cfg, group, algo, space, name, log)
    while True:
      asked[0] = next(tick)
      try:
        _, fb = next(it)
      except StopIteration:
        break
      tid = fb.id
      trial = fb.get_trial()
      now = next(tick)
      evs.append((now, 'recv', tid, id(trial)))
      log.trial_objs[id(trial)] = trial
      # Trials handed to this group earlier must be finished by now: a new
      # trial is only created for a group whose latest trial is not pending,
      # and a finished trial never becomes pending again.
      mine = log.group_trials.setdefault(gkey, {})
      check_group(tid, below=tid)
      if tid not in mine:
        mine[tid] = (trial, now)
      if first_evt is not None:
        first_evt.set()
      if log.stop:
        break
      rew = _reward(cfg, tid)
      if single and not leader:
        # Follower: reports a measurement once, never finishes the trial.
        if last_seen != tid:
          last_seen = tid
          since = time.time()
          with fb.ignore_race_condition():
            fb.add_measurement(rew, step=0)
        elif time.time() - since > _STUCK_SECS:
          # Nobody finishes this trial any more (the finisher has left).
          evs.append((next(tick), 'stuck', tid, None))
          break
        time.sleep(0)
        continue
      act = _action(cfg, tid, widx)
      if racing:
        # "Evaluation" takes a moment, so that a co-worker that is wrongly
        # handed a fresh trial meanwhile is seen by the per-group check.
        time.sleep(r.choice((0.0, 1e-4, 4e-4)))
      evs.append((next(tick), 'pre', tid, act))
      if log.rendezvous is not None:
        log.rendezvous.wait(0.02)

      def finish():
        if act == 'done':
          fb(rew)
        elif act == 'done2':
          # (co-workers may interleave their measurements: same reward then)
          fb.add_measurement(rew if (racing or single) else rew - 1.0, step=1)
          fb.add_measurement(rew, step=2)
          fb.done()
        elif act == 'skip':
          fb.skip()
        elif act == 'skip-m':
          fb.add_measurement(rew, step=1)
          fb.skip()
        elif act == 'policy':
          fb.add_measurement(rew, step=1)
          if fb.should_stop_early():
            fb.skip()
          else:
            fb.done()
        elif act == 'early':
          # done() before any measurement exists cannot complete the trial
          # (there is nothing to report): whatever it does, the proper finish
          # that follows must complete and report the trial.  (A co-worker
          # may have added its measurement already: same reward then.)
          try:
            fb.done()
          except pg.tuning.RaceConditionError:
            raise
          except Exception:  # pylint: disable=broad-except
            pass
          if not (racing or single) and fb.get_trial().status != 'PENDING':
            log.early_bad.append((tid, fb.get_trial().status))   # (nobody else holds it)
          fb(rew)
        elif act == 'redo':
          # operations on a trial this worker has finished change nothing.
          fb(rew)
          for op in (fb.done, fb.skip,
                     lambda: fb.add_measurement(rew + 100.0, step=9), fb.done):
            try:
              op()
            except Exception:  # pylint: disable=broad-except
              pass
        else:
          raise ValueError(act)

      if racing or single:
        with fb.ignore_race_condition():
          finish()
      else:
        finish()
      evs.append((next(tick), 'post', tid, act))
      done_n += 1
      if cfg['end_at'] is not None and tid == cfg['end_at']:
        fb.end_loop()
        evs.append((next(tick), 'end_loop', tid, None))
      if widx in cfg['breakers'] and done_n >= cfg['breakers'][widx]:
        break
    evs.append((next(tick), 'exit', None, None))
  except BaseException as e:  # pylint: disable=broad-except
    tb = traceback.extract_tb(e.__traceback__)
    where = ' <- '.join(f'{os.path.basename(f.filename)}:{f.lineno}:{f.name}' for f in tb[-4:])
    log.errors.append((widx, f'{type(e).__name__}: {e} [{where}]'))
  finally:
    sys.settrace(None)
    _tls.rng = None
    _tls.p_instr = 0.0
    _tls.on_propose = None
    _tls.worker = False
    if first_evt is not None:
      first_evt.set()     # (a loop of 0 trials never delivers a first trial)


def run_scenario(cfg, seed_tag):
  """Runs the scenario once; returns a dict of observations."""
  name = f'c16-{os.getpid()}-{next(_run_counter)}-{seed_tag}'
  space = eval(cfg['space'], _NS)  # pylint: disable=eval-used
  w = cfg['W']
  groups = _groups(cfg)
  dna_spec = space if isinstance(space, pg.DNASpec) else pg.dna_spec(space)
  if cfg['algos'] == 'shared':
    algos = [_make_algo(cfg['algo'], cfg['salt'])] * w
  else:
    algos = [_make_algo(cfg['algo'], cfg['salt'] + i) for i in range(w)]
  for a in {id(a): a for a in algos}.values():
    if cfg.get('slow_setup'):
      a._c16_slow_setup = cfg['slow_setup']  # pylint: disable=protected-access
    if cfg.get('presetup', cfg['algos'] == 'shared'):
      # Set up in the main thread.  With presetup=False the algorithm is set
      # up by the pg.sample call of whichever worker comes first (the others
      # arrive while that set-up is going on).
      a.setup(dna_spec)
  log = _RunLog()
  if cfg['policy'] and cfg.get('policy_shared'):
    # one policy object for all workers, set up like the shared algorithm.
    log.policy = C16Policy()
    if cfg.get('slow_setup'):
      log.policy._c16_slow_setup = cfg['slow_setup']  # pylint: disable=protected-access
    if cfg.get('presetup', True):
      log.policy.setup(dna_spec)
  if cfg['sync']:
    log.rendezvous = _Rendezvous(w)
  leaders = {}
  for i, g in enumerate(groups):
    leaders.setdefault(g if g is not None else ('solo', i), i)
  start_evt = threading.Event() if cfg['start'] == 'simultaneous' else None
  first_evt = threading.Event() if cfg['start'] == 'staggered' else None
  # Who makes the pg.sample call of a worker: the worker thread itself, or
  # another thread that hands the iterator over (this thread, the way one
  # writes `executor.map(work, [pg.sample(...) for _ in range(W)])`, or a
  # helper thread that is gone when the workers run).  A worker is whoever
  # iterates: which thread made the call says nothing about its group.
  maker = cfg.get('maker', 'own')
  loops = [None] * w
  if maker != 'own':
    def make_all():
      try:
        for i in range(w):
          loops[i] = _make_loop(cfg, groups[i], algos[i], space, name, log)
      except BaseException as e:  # pylint: disable=broad-except
        tb = traceback.extract_tb(e.__traceback__)
        where = ' <- '.join(f'{os.path.basename(f.filename)}:{f.lineno}:{f.name}' for f in tb[-4:])
        log.errors.append(('maker', f'{type(e).__name__}: {e} [{where}]'))
    if maker == 'coordinator':
      make_all()
    else:
      ht = threading.Thread(target=make_all, daemon=True)
      ht.start()
      ht.join(30.0)
      if ht.is_alive():
        log.errors.append(('maker', 'the thread making the pg.sample calls is stuck'))
    if log.errors:
      return dict(cfg=cfg, name=name, groups=groups, algos=algos, log=log, hung=[], result=None)
  threads = []
  for i in range(w):
    evs = []
    log.events.append(evs)
    g = groups[i]
    leader = leaders[g if g is not None else ('solo', i)] == i
    r = rng(seed_tag, f'c16-worker-{i}')
    t = threading.Thread(
        target=_worker,
        args=(cfg, i, g, leader, algos[i], space, name, log, evs,
              start_evt, first_evt if i == 0 else None, r, loops[i]),
        daemon=True)
    threads.append(t)
  if cfg['start'] == 'staggered':
    threads[0].start()
    first_evt.wait(10.0)
    for t in threads[1:]:
      t.start()
  else:
    for t in threads:
      t.start()
    time.sleep(0.002)
    start_evt.set()
  deadline = time.time() + 30.0
  hung = []
  for i, t in enumerate(threads):
    t.join(max(0.0, deadline - time.time()))
    if t.is_alive():
      hung.append(i)
  if hung:
    log.stop = True
  try:
    result = pg.poll_result(name)
  except ValueError:
    result = None
  return dict(cfg=cfg, name=name, groups=groups, algos=algos, log=log, hung=hung,
              result=result)


# ---------------------------------------------------------------------------
# Invariants at quiescence.  Returns {case_id: (ok, message)}.
# ---------------------------------------------------------------------------

def _only_formatting_race(errors):
  return bool(errors) and all('dictionary changed size during iteration' in e[1] for e in errors)


def check_run(obs):
  cfg = obs['cfg']
  log = obs['log']
  scen = _scenario(cfg)
  out = {}

  def put(cid, ok, msg=''):
    if cid in out and not out[cid][0]:
      return
    out[cid] = (bool(ok), msg)

  put('liveness.all-workers-terminate', not obs['hung'],
      f'workers {obs["hung"]} still running after 30 s')
  # --- delivery to exactly one group -------------------------------------------
  # (A worker whose pg.sample call was made by another thread is an input class
  # of its own.  What goes wrong there is looked at first: workers that are
  # wrongly given one trial run into each other, the rest are consequences.)
  msfx = '' if cfg.get('maker', 'own') == 'own' else '/iterator-made-by-another-thread'
  groups = obs['groups']
  delivered, holders = {}, {}
  for wi, evs in enumerate(list(log.events)):
    g = groups[wi] if groups[wi] is not None else ('thread', wi)
    for e in list(evs):
      if e[1] == 'recv':
        delivered.setdefault(e[2], set()).add(g)
        holders.setdefault((e[2], e[3]), set()).add(g)     # (the trial object)
  multi = {t: sorted(map(str, gs)) for t, gs in delivered.items() if len(gs) > 1}
  if msfx:
    multi_obj = {k[0]: sorted(map(str, gs)) for k, gs in holders.items() if len(gs) > 1}
    put(f'delivery.exactly-one-group{msfx}', not multi_obj,
        f'groups {groups} (None: a worker of its own); trials delivered to several groups: '
        f'{dict(sorted(multi_obj.items())[:6])}')
    if multi_obj:
      return out
  # (Known on the unchanged tree, about 1 run in 900 with racing co-workers:
  # building the RaceConditionError message formats the trial while the
  # co-worker's feedback updates the DNA metadata -> RuntimeError.)
  if 'early' in cfg['actions'] and scen == 'solo-groups':
    put('finish.too-early-done-leaves-the-trial-pending/solo-groups', not log.early_bad,
        '(trial, status) right after its only worker called done() before any measurement '
        f'existed (nothing to report, so it cannot be complete): {log.early_bad[:4]}')
    if log.early_bad:
      return out
  uniq = list({id(a): a for a in obs['algos']}.values())
  # (a shared algorithm that the workers' pg.sample calls set up themselves is
  # an input class of its own: what goes wrong only there gets its own ids.)
  lazy = cfg['algos'] == 'shared' and not cfg.get('presetup', True)
  ssfx = '/shared-algorithm-set-up-by-the-workers' if lazy else ''
  setups = [a.__dict__.get('_c16_setups') for a in uniq]
  maker_err = [e for e in log.errors if e[0] == 'maker']
  if maker_err:
    put(f'worker.no-unexpected-exception/{scen}{msfx}', False,
        f'the pg.sample calls made on behalf of the workers failed: {maker_err[:2]}')
    return out
  early_policy = [e for e in log.errors if 'C16Policy asked before' in e[1]]
  if early_policy:
    put(f'worker.no-unexpected-exception/{scen}/shared-policy-set-up-by-the-workers', False,
        f'worker errors: {early_policy[:3]}')
    return out
  # (the race of formatting a trial, see above, has nothing to do with who sets
  # up the algorithm: it keeps the id it has in all scenarios.)
  esfx = '' if _only_formatting_race(log.errors) else ssfx
  put(f'worker.no-unexpected-exception/{scen}{esfx}', not log.errors,
      f'worker errors: {log.errors[:3]}' + (f'; _setup ran {setups} time(s)' if lazy else ''))
  result = obs['result']
  if obs['hung'] or log.errors or result is None:
    if result is None and not obs['hung'] and not log.errors:
      put('result.poll', False, 'pg.poll_result(name) does not know the study')
    return out
  trials = list(result.trials)
  by_obj = {id(t) for t in trials}
  # --- get-or-create of the named study -----------------------------------
  private = [t for k, t in log.trial_objs.items() if k not in by_obj]
  cid = 'study.one-study-per-name/' + cfg['start'] + '-start'
  put(cid, not private,
      f'{len(private)} delivered trial(s) (ids {sorted(t.id for t in private)[:8]}) do not belong '
      f'to pg.poll_result(name), which has {len(trials)} trials: simultaneous first callers '
      'ended up with private studies')
  if private:
    return out
  n = cfg['N']
  ids = [t.id for t in trials]
  events = sorted(e for evs in log.events for e in evs)
  widx_of = {}
  for wi, evs in enumerate(log.events):
    for e in evs:
      widx_of[e[0]] = wi
  end_ticks = [e[0] for e in events if e[1] == 'end_loop']
  first_recv = {}
  for e in events:
    if e[1] == 'recv' and e[2] not in first_recv:
      first_recv[e[2]] = e[0]
  # --- number of trials and ids --------------------------------------------
  breakers_all = len(cfg['breakers']) >= cfg['W']
  if cfg['end_at'] is None and not breakers_all:
    put('trials.count', len(trials) == n, f'{len(trials)} trials created, {n} requested')
  else:
    put('trials.count', len(trials) <= n, f'{len(trials)} trials created, {n} requested')
  if end_ticks:
    late = [t for t, k in first_recv.items() if k > end_ticks[0]]
    put('end_loop.stops-creation', len(late) <= cfg['W'] - 1,
        f'{len(late)} trials were first delivered after end_loop() had returned '
        f'({cfg["W"]} workers)')
    put('end_loop.result-inactive', not result.is_active, 'result.is_active after end_loop()')
  put('trials.ids-1..N-each-once', sorted(ids) == list(range(1, len(ids) + 1)),
      f'trial ids {ids}')
  recording = _recording(cfg['algo'])
  if recording:
    put('trials.distinct-dna-proposals',
        len({t.dna.metadata.get('c16') for t in trials}) == len(trials),
        'two trials share one proposal of the algorithm: '
        f'{[t.dna.metadata.get("c16") for t in trials]}')
  elif cfg['algo'] in _DISTINCT_DNA and len(uniq) == 1:
    # (a sweep / a deduping generator proposes every point once: the same DNA
    # in two trials is one proposal handed out twice.)
    dnas = [tuple(t.dna.to_numbers()) for t in trials]
    put('trials.distinct-dna-proposals', len(set(dnas)) == len(dnas),
        f'two trials share one proposal of {cfg["algo"]}, which never proposes a DNA twice: {dnas}')
  # --- delivery (see above) ------------------------------------------------------
  put(f'delivery.exactly-one-group{msfx}', not multi, f'trials delivered to several groups: {multi}')
  auto = {t.id for t in trials if t.metadata.get('client_evaluation_skipped')}
  undelivered = [t for t in ids if t not in delivered and t not in auto]
  put('delivery.every-trial-delivered', not undelivered,
      f'trials {undelivered} were created but never delivered to a worker')
  if scen == 'solo-groups':
    bad = []
    for wi, evs in enumerate(log.events):
      seq = [e[2] for e in evs if e[1] == 'recv']
      if any(b <= a for a, b in zip(seq, seq[1:])):
        bad.append((wi, seq))
    put('worker.ids-strictly-increasing', not bad, f'(worker, received ids): {bad}')
  # --- one pending trial per group at a time ----------------------------------
  # (recorded by the workers: at delivery of a trial and whenever the algorithm
  # is asked to propose for a new trial of the group, all trials handed to the
  # group before must have left the PENDING state.)
  seq = [o[1:] for o in log.overlaps if o[0] == 'sequential']
  race = [o[1:] for o in log.overlaps if o[0] == 'racing']
  stuck = [(widx_of[e[0]], e[2]) for e in events if e[1] == 'stuck']
  # (runs whose group ids are not the plain names get their own ids: a defect
  # in how a group id *value* is treated is not a defect of the locking.)
  gsfx = '' if cfg.get('gids', 'default') == 'default' else '/group-ids=' + cfg['gids']
  put(f'group.one-pending-trial-shared/{scen}/pending-before-the-next-call-began{gsfx}', not seq,
      '(group, pending trial, new trial): a worker asked for its next trial after a co-worker '
      f'had been handed a trial that is still pending, and got a fresh one: {seq[:5]}')
  put(f'group.one-pending-trial-shared/{scen}/overlapping-next-calls{gsfx}', not race and not stuck,
      '(group, pending trial, new trial): two workers of a group asking at the same time were '
      f'given different new trials: {race[:5]}; (worker, trial) left alone with a pending '
      f'trial because its finisher was told that the loop is over: {stuck[:5]}')
  if (seq or race or stuck) and (scen == 'co-workers-single-finisher' or gsfx):
    return out    # the extra trial has no finisher: later checks are consequences
  # --- expected completion per trial -------------------------------------------
  fed = {}
  for a in uniq:
    for s, rwd in list(getattr(a, '_fed', None) or []):
      fed.setdefault(s, []).append(rwd)
  try:
    nofb = not any(a.needs_feedback for a in uniq)
  except Exception:  # pylint: disable=broad-except
    nofb = False
  # (ids of the algorithm's account for algorithms "without feedback", i.e.
  # whose needs_feedback is False, and for algorithms set up by the workers)
  asfx = ('/needs_feedback=False' if nofb else '') + ssfx
  summary = ast.literal_eval(result.format(compact=True))
  m = len(trials)
  infeasible_n = sum(1 for t in trials if t.infeasible)
  status_ok = (summary.get('status') == {'COMPLETED': f'{m}/{m}'} if m else True)
  infeasible_ok = (summary.get('infeasible') == (f'{infeasible_n}/{m}' if infeasible_n else None))
  double = []
  for t in trials:
    cnt = len(fed.get(t.dna.metadata.get('c16'), []))
    if cnt > 1 or (cnt >= 1 and t.infeasible):
      double.append((t.id, cnt, t.infeasible))
  if scen == 'co-workers-racing-finishers':
    # Racing done()/skip() of co-workers must complete a trial once.
    evidence = bool(double) or not status_ok or not infeasible_ok
    put('completion.exactly-once/co-workers-racing-finishers', not evidence,
        f'(trial, feedbacks, infeasible): {double[:5]}; summary {summary.get("status")}, '
        f'infeasible {summary.get("infeasible")} (trials: {m}, infeasible trials: {infeasible_n})')
    if evidence:
      return out
  not_completed = [t.id for t in trials if t.status != 'COMPLETED']
  put('bookkeeping.all-trials-completed', not not_completed,
      f'trials {not_completed} are not COMPLETED at quiescence')
  put('bookkeeping.status-counts', status_ok,
      f'summary status {summary.get("status")}, expected COMPLETED {m}/{m}')
  put('bookkeeping.infeasible-count', infeasible_ok,
      f'summary infeasible {summary.get("infeasible")}, infeasible trials {infeasible_n}/{m}')
  wrong_fb, wrong_state = [], []
  done_ids = []
  for t in trials:
    got = fed.get(t.dna.metadata.get('c16'), [])
    if t.id in auto:
      want_fb = [t.final_measurement.reward] if t.final_measurement else ['?']
      want_inf = False
    else:
      planned = {_action(cfg, t.id, wi) for wi in range(cfg['W'])} \
          if cfg['layout'] == 'racing-mixed' else {_action(cfg, t.id, 0)}
      skips = set()
      for act in planned:
        if act in ('skip', 'skip-m'):
          skips.add(True)
        elif act == 'policy':
          skips.add(t.id % 3 == 0)
        else:
          skips.add(False)
      if len(skips) > 1:
        want_inf = t.infeasible     # either finisher may win the race
      else:
        want_inf = skips.pop()
      want_fb = [] if want_inf else [_reward(cfg, t.id)]
    if recording and got != want_fb:
      wrong_fb.append((t.id, got, want_fb))
    fm = t.final_measurement
    if (t.infeasible != want_inf or fm is None
        or fm.reward != (0.0 if want_inf else want_fb[0])):
      wrong_state.append((t.id, t.infeasible, fm and fm.reward))
    if not want_inf:
      done_ids.append(t.id)
  if recording:
    put(f'feedback.exactly-once-with-final-reward{asfx}', not wrong_fb,
        f'(trial, rewards in the algorithm\'s record of its reports, expected): {wrong_fb[:5]}')
  put('bookkeeping.trial-outcome', not wrong_state,
      f'(trial, infeasible, final reward) inconsistent with what the worker did: {wrong_state[:5]}')
  def count(objs, attr):
    try:
      return sum(getattr(a, attr) for a in objs)
    except Exception as e:  # pylint: disable=broad-except
      return f'<{type(e).__name__}: {e}>'

  inners = [a.inner for a in uniq if hasattr(a, 'inner')]
  np_, nf_ = count(uniq, 'num_proposals'), count(uniq, 'num_feedbacks')
  inp, inf_ = count(inners, 'num_proposals'), count(inners, 'num_feedbacks')
  put(f'algorithm.num_proposals-counter{asfx}',
      np_ == m and (not inners or inp == m or cfg['algo'] == 'dedup-auto'),
      f'algorithm.num_proposals={np_} (wrapped algorithm: {inp if inners else None}), trials={m}'
      + (f'; _setup ran {setups} time(s)' if lazy else ''))
  put(f'algorithm.num_feedbacks-counter{asfx}',
      nf_ == len(done_ids) and (not inners or inf_ == len(done_ids)),
      f'algorithm.num_feedbacks={nf_} (wrapped algorithm: {inf_ if inners else None}), but '
      f'{len(done_ids)} trials were completed with a reward and each is reported exactly once'
      + (f'; _setup ran {setups} time(s)' if lazy else ''))
  if cfg['algo'].endswith('evo-keep-all'):
    pop = sorted(d.metadata.get('c16') for a in uniq for d in a.inner.population)
    want_pop = sorted(t.dna.metadata.get('c16') for t in trials if t.id in done_ids)
    put(f'algorithm.population-has-every-feedback{asfx}', pop == want_pop,
        f'population of an Evolution that keeps everything holds proposals {pop}, '
        f'fed back were {want_pop}')
  # --- best trial ----------------------------------------------------------------
  best = result.best_trial
  feas = [t for t in trials if not t.infeasible and t.final_measurement is not None]
  if not feas:
    put('best.none-without-feasible-trial', best is None, f'best trial {best and best.id}')
  else:
    mx = max(t.final_measurement.reward for t in feas)
    put('best.never-infeasible', best is not None and not best.infeasible,
        f'best trial {best and best.id} infeasible={best and best.infeasible}')
    put('best.has-maximal-reward',
        best is not None and best.final_measurement.reward == mx and id(best) in by_obj,
        f'best trial {best and best.id} has reward '
        f'{best and best.final_measurement and best.final_measurement.reward}, maximum is {mx}')
    sb = summary.get('best_trial') or {}
    put('best.summary-consistent', best is not None and sb.get('id') == best.id
        and sb.get('reward') == best.final_measurement.reward,
        f'summary best_trial {sb}, result.best_trial id {best and best.id}')
  return out


# ---------------------------------------------------------------------------
# Scenario enumeration.
# ---------------------------------------------------------------------------

_MIXES = [
    # (actions, policy, end_loop, breakers)
    (('done',), False, False, False),
    (('done', 'done2', 'skip'), False, False, False),
    (('done', 'policy', 'done2'), True, False, False),
    (('done', 'done2'), False, True, False),
    (('done', 'skip-m', 'policy', 'skip'), True, True, False),
    (('done', 'done2'), False, False, True),
    (('done2', 'skip', 'done'), False, True, True),
    (('policy', 'done', 'skip-m'), True, True, True),
    (('skip', 'skip-m'), False, False, False),
]
_SOLO = ['none', 'names', 'ints']
_COW = ['pairs-single', 'pairs-racing', 'one-racing', 'racing-mixed', 'mixed-racing']


def _pressure(seed):
  """Scenarios in which all workers finish their trials at the same moment."""
  base = dict(policy=False, end_at=None, breakers={}, algos='shared', space=_SPACE_EXPR,
              start='staggered', probe_yield=True, p_cold=0.03, p_hot=0.3,
              rewards='increasing', sync=True)
  return [
      dict(base, W=4, N=12, layout='none', actions=('done',), algo='random', trace=True,
           salt=seed),
      # (no tracer: a lost population update needs feedbacks a few ms apart)
      dict(base, W=6, N=18, layout='names', actions=('done', 'done2'), algo='evo-keep-all',
           trace=False, salt=seed + 1),
      dict(base, W=3, N=9, layout='ints', actions=('done',), algo='regevo', trace=False,
           salt=seed + 2),
      dict(base, W=8, N=24, layout='none', actions=('done',), algo='evo-keep-all', trace=False,
           salt=seed + 3),
      # One round only, the first trial is the best (with increasing rewards
      # "the last completion wins" looks right; here it does not).  Cheap: run
      # more often, see _scenarios.
      dict(base, W=8, N=8, layout='none', actions=('done',), algo='random', trace=False,
           salt=seed + 4, rewards='decreasing'),
      # The pg.sample calls are made for the workers by another thread (by the
      # coordinator that starts them / by a helper thread that is gone by then).
      # Workers without `group` are groups of their own all the same.
      dict(base, W=4, N=12, layout='none', actions=('done', 'done2', 'skip'), algo='random',
           trace=True, salt=seed + 5, maker='coordinator'),
      dict(base, W=7, N=14, layout='none', actions=('done',), algo='regevo', trace=False,
           salt=seed + 6, maker='helper-thread', start='simultaneous', rewards='mod5'),
  ]


def _scenarios(tier, seed):
  """Yields (cfg, repeats): pressure scenarios, then the two grids interleaved."""
  for cfg in _pressure(seed):
    many = cfg['rewards'] == 'decreasing'
    if cfg.get('maker'):
      yield cfg, (2 if tier == 'quick' else 6)
      continue
    yield cfg, ((12 if many else 5) if tier == 'quick' else (30 if many else 8))
  g1, g2 = _grid1(tier, seed), _grid2(tier, seed)
  while g1 is not None or g2 is not None:
    for which in (1, 2):
      g = g1 if which == 1 else g2
      if g is None:
        continue
      try:
        yield next(g)
      except StopIteration:
        if which == 1:
          g1 = None
        else:
          g2 = None


def _vary_algorithm(cfg, r2):
  """Algorithms without feedback and shared algorithms set up by the workers.

  (Drawn from a generator of its own, so that the other features of the
  scenarios of a seed stay what they were.)
  """
  u, kind, v = r2.random(), r2.choice(_NOFB_KINDS), r2.random()
  slow = r2.choice((0.0, 0.003, 0.02))
  if u < 0.25 and cfg['algo'] != 'dedup-auto' and cfg['space'] == _SPACE_EXPR:
    cfg['algo'] = kind
    cfg['space'] = _WIDE_SPACE_EXPR
  if v < 0.2 and cfg['algos'] == 'shared':
    cfg['presetup'] = False
    cfg['slow_setup'] = slow
    cfg['policy_shared'] = True


_MAKERS = ('coordinator', 'helper-thread')


def _vary_maker(cfg, r3):
  """In 1 scenario of 4 the pg.sample calls are made by another thread.

  (Drawn from a generator of its own, like _vary_algorithm.)
  """
  u, mk = r3.random(), r3.choice(_MAKERS)
  if u < 0.25:
    cfg['maker'] = mk


def _grid1(tier, seed):
  r = rng(seed, 'c16-scenarios')
  r2 = rng(seed, 'c16-scenarios-algorithms')
  r3 = rng(seed, 'c16-scenarios-makers')
  quick = tier == 'quick'
  k = 0
  for w in range(2, 9):
    for acts, policy, endl, brk in _MIXES:
      for lay in _SOLO + _COW:
        if lay == 'mixed-racing' and w < 4:
          continue
        if lay == 'pairs-single' and (endl or brk):
          continue   # a finisher that leaves would strand the follower's trial
        k += 1
        n = w + r.randrange(0, 6)
        algo = r.choice(('random', 'regevo', 'regevo', 'evo-keep-all', 'evo-keep-all', 'dedup-auto'))
        if lay in _COW and algo == 'dedup-auto' and lay != 'pairs-racing':
          algo = 'regevo'
        adv = r.choice(((0.03, 0.3), (0.1, 0.15), (0.01, 0.5), (0.05, 0.3)))
        cfg = dict(
            W=w, N=n, layout=lay, actions=acts, policy=policy,
            end_at=(max(1, n - r.randrange(1, 4)) if endl else None),
            breakers=({i: 1 + r.randrange(2) for i in range(1, w, 2)} if brk else {}),
            algo=algo,
            algos=('per-worker' if (algo == 'random' and r.random() < 0.3) else 'shared'),
            space=(_SMALL_SPACE_EXPR if algo == 'dedup-auto' else _SPACE_EXPR),
            # (single finisher: a private study would strand every follower)
            start=('simultaneous' if (r.random() < 0.35 and lay != 'pairs-single')
                   else 'staggered'),
            trace=(r.random() < 0.8), probe_yield=(r.random() < 0.5),
            p_cold=adv[0], p_hot=adv[1],
            rewards=r.choice(('mod5', 'negative', 'increasing')),
            # all workers finish their trials at the same moment
            sync=(lay != 'pairs-single' and not brk and r.random() < 0.4),
            salt=r.randrange(1000))
        _vary_algorithm(cfg, r2)
        _vary_maker(cfg, r3)
        if quick and (k + seed) % _QUICK_STRIDE != 0:
          continue
        yield cfg, (1 if quick else 2)


_QUICK_STRIDE = 12

# Second grid: the same layouts with (a) group ids of every documented kind
# (ints from 0, the empty string, negative ints, ints and strings mixed),
# (b) fewer requested trials than workers / groups (0, 1, W-1), (c) finishers
# that call done() before a measurement exists and then finish properly, or
# that repeat done/skip/add_measurement on the trial they have finished,
# (d) now and then a hyper value as the search space.  One feature is the subject of a
# scenario; the others are mixed in with a seeded probability.
_MIXES2 = [
    (('early',), False, False, False),
    (('early', 'redo', 'done2'), False, False, False),
    (('redo', 'skip', 'early', 'policy'), True, False, False),
    (('early', 'skip-m', 'redo'), False, True, True),
    (('redo', 'early'), False, True, False),
]
_FEATURES2 = ('group-ids', 'small-N', 'refused-and-repeated-finish')
_QUICK_STRIDE2 = 5


def _grid2(tier, seed):
  r = rng(seed, 'c16-scenarios-grid2')
  r2 = rng(seed, 'c16-scenarios-grid2-algorithms')
  r3 = rng(seed, 'c16-scenarios-grid2-makers')
  quick = tier == 'quick'
  k = 0
  for w in (2, 3, 4, 5, 6, 8):
    for lay in _SOLO + _COW:
      for feat in _FEATURES2:
        if lay == 'mixed-racing' and w < 4:
          continue
        if lay == 'none' and feat == 'group-ids':
          continue
        k += 1
        acts, policy, endl, brk = r.choice(
            _MIXES2 if (feat == 'refused-and-repeated-finish' or r.random() < 0.3) else _MIXES)
        if lay == 'pairs-single':
          endl = brk = False
        gids = (r.choice(sorted(_GID_POOLS)) if (feat == 'group-ids' or r.random() < 0.3)
                else 'default')
        if feat == 'small-N':
          n = r.choice((0, 1, 1, w - 1, max(1, len(set(_default_groups(dict(W=w, layout=lay)))) - 1)))
        else:
          n = w + r.randrange(0, 6)
        algo = r.choice(('random', 'regevo', 'evo-keep-all'))
        adv = r.choice(((0.03, 0.3), (0.1, 0.15), (0.01, 0.5), (0.05, 0.3)))
        cfg = dict(
            W=w, N=n, layout=lay, actions=acts, policy=policy,
            end_at=(max(1, n - r.randrange(1, 4)) if endl else None),
            breakers=({i: 1 + r.randrange(2) for i in range(1, w, 2)} if brk else {}),
            algo=algo,
            algos=('per-worker' if (algo == 'random' and r.random() < 0.3) else 'shared'),
            # (decoding every trial is slow under a 1us switch interval: the
            # lock-step driver below uses hyper values throughout)
            space=(_HYPER_SPACE_EXPR if r.random() < 0.12 else _SPACE_EXPR),
            start=('simultaneous' if (r.random() < 0.35 and lay != 'pairs-single')
                   else 'staggered'),
            trace=(r.random() < 0.7), probe_yield=(r.random() < 0.5),
            p_cold=adv[0], p_hot=adv[1],
            rewards=r.choice(('mod5', 'negative', 'increasing')),
            sync=(lay != 'pairs-single' and not brk and r.random() < 0.3),
            salt=r.randrange(1000), gids=gids, feature=feat)
        _vary_algorithm(cfg, r2)
        _vary_maker(cfg, r3)
        if quick and (k + seed) % _QUICK_STRIDE2 != 0:
          continue
        yield cfg, (1 if quick else 2)


def _witness(cfg, case_id):
  return ('import bounded.c16_concurrency as m\n'
          f'cfg = {cfg!r}\n'
          f'm.witness(cfg, {case_id!r}, repeats=150)  # stress sampling: may need more repeats')


def witness(cfg, case_id, repeats=150):
  """Re-runs the scenario; raises AssertionError if `case_id` is violated."""
  old = sys.getswitchinterval()
  sys.setswitchinterval(1e-6)
  try:
    with _InstructionYields():
      for i in range(repeats):
        res = check_run(run_scenario(cfg, f'w{i}'))
        if case_id in res and not res[case_id][0]:
          raise AssertionError(f'{case_id} (repeat {i}): {res[case_id][1]}')
  finally:
    sys.setswitchinterval(old)


def drv_concurrent_sampling(tier, seed):
  rec = Recorder(
      'C16', 'concurrent pg.sample on the in-memory backend (stress sampling of schedules)',
      scope=('STRESS SAMPLING OF THREAD SCHEDULES, NOT ENUMERATION. 2..8 worker threads on one named '
             'pg.sample loop; N = W..W+5 trials; switch interval 1us; seeded forced yields at statement '
             'granularity (sys.settrace) inside tuning/local_backend.py, sample.py, protocols.py, '
             'geno/dna_generator.py, deduping.py, Evolution._propose/_feedback/_evolve, plus yields '
             'inside a probe wrapping propose/feedback; mixes of done / multi-measurement done / skip / '
             'early-stopping policy / worker break / end_loop; groups: None, str, int, co-worker '
             'pairs (single finisher, racing finishers, done-vs-skip races), one group, mixed; '
             'algorithms Random(seed), regularized_evolution, an Evolution that keeps its whole population, '
             'Deduping(hill_climb, auto_reward_fn); '
             'in 1 grid scenario of 4 an algorithm whose needs_feedback is False instead (see the fourth driver); '
             'shared (set up beforehand; in 1 grid scenario of 5 by the workers, _setup 0 / 3 / 20 ms) or one per '
             'worker; in 1 grid scenario of 4 and in 2 more pressure scenarios the pg.sample calls of the '
             'workers are made by the coordinating thread or by a helper thread and the iterators handed '
             'over; staggered and barrier-released starts; optional '
             'rendezvous so that all workers finish their trials at the same moment; 5 such pressure '
             'scenarios always (5 resp. 8 runs each; 12 resp. 30 of the one with decreasing rewards); '
             + (f'quick: 1 run of every {_QUICK_STRIDE}th scenario of the grid W x mix x layout (offset by seed)'
                if tier == 'quick' else 'thorough: 2 runs of every scenario of the grid')
             + f'; second grid W in (2,3,4,5,6,8) x layout x feature (group ids 0 / empty string / '
             'non-positive / mixed int and str; N in 0, 1, W-1, groups-1; too early done() then proper '
             'finish, repeated done/skip/add_measurement after the finish; sometimes a hyper value as '
             'space): '
             + (f'quick: 1 run of every {_QUICK_STRIDE2}th' if tier == 'quick' else 'thorough: 2 runs of each')
             + '; invariants checked at quiescence on pg.poll_result, the probe log and per-worker '
             'logs. A failure is definite; absence of failures is evidence only.'))
  old = sys.getswitchinterval()
  sys.setswitchinterval(1e-6)
  t0 = time.time()
  budget = 55.0 if tier == 'quick' else 560.0
  try:
    with _InstructionYields():
      for si, (cfg, reps) in enumerate(_scenarios(tier, seed)):
        for rep in range(reps):
          if time.time() - t0 > budget:
            break
          obs = run_scenario(cfg, f'{seed}-{si}-{rep}')
          res = check_run(obs)
          key = (si, rep, cfg['W'], cfg['N'], cfg['layout'], cfg['actions'], cfg['algo'],
                 cfg['start'], cfg['trace'], cfg.get('presetup', True), cfg.get('maker', 'own'))
          for cid, (ok, msg) in res.items():
            rec.case(cid, key, ok, msg, _witness(cfg, cid))
  finally:
    sys.setswitchinterval(old)
  return rec.result()


# ---------------------------------------------------------------------------
# Algorithms without feedback; shared algorithms set up by the workers.
# ---------------------------------------------------------------------------

_LAZY_KINDS = ('random', 'regevo', 'evo-keep-all', 'dedup-auto') + _NOFB_KINDS


def _nofb_scenarios(tier, seed):
  """Yields (cfg, repeats)."""
  quick = tier == 'quick'
  r = rng(seed, 'c16-nofb')
  r3 = rng(seed, 'c16-nofb-makers')
  for cfg, reps in _nofb_scenarios0(tier, seed, r):
    _vary_maker(cfg, r3)
    yield cfg, reps


def _nofb_scenarios0(tier, seed, r):
  quick = tier == 'quick'
  base = dict(algos='shared', probe_yield=True, p_cold=0.03, p_hot=0.3, space=_WIDE_SPACE_EXPR)
  mixes = [_MIXES[0], _MIXES[0], _MIXES[1], _MIXES[2], _MIXES[5], _MIXES[4]]
  # (a) every kind of algorithm whose needs_feedback is False, shared by
  # workers that (mostly) finish their trials at the same moment.
  for i, kind in enumerate(_NOFB_KINDS):
    for j in range(2 if quick else 6):
      w = 2 + (i + seed + 3 * j) % 7
      lay = r.choice(_SOLO + ['pairs-racing', 'one-racing', 'mixed-racing' if w >= 4 else 'ints'])
      acts, policy, endl, brk = mixes[(i + j + seed) % len(mixes)]
      n = min(28, 2 * w + r.randrange(0, 4))
      yield dict(
          base, W=w, N=n, layout=lay, actions=acts, policy=policy,
          end_at=(max(1, n - r.randrange(1, 4)) if endl else None),
          breakers=({k: 1 + r.randrange(2) for k in range(1, w, 2)} if brk else {}),
          algo=kind, start=r.choice(('staggered', 'staggered', 'simultaneous')),
          policy_shared=(j % 2 == 0), trace=(r.random() < 0.5), rewards=r.choice(('mod5', 'negative', 'increasing', 'decreasing')),
          sync=(not brk and r.random() < 0.8), salt=r.randrange(1000)), (1 if quick else 2)
  # (b) a shared algorithm of every kind that is NOT set up when the workers
  # start: the pg.sample call of whichever worker comes first sets it up, the
  # others arrive meanwhile; `_setup` takes 0 / 5 / 30 ms.
  for i, kind in enumerate(_LAZY_KINDS):
    for j in range(1 if quick else 4):
      w = 2 + (2 * i + seed + 3 * j) % 7
      lay = r.choice(_SOLO + ['pairs-racing'])
      if kind != 'dedup-auto':
        lay = r.choice([lay, 'one-racing', 'mixed-racing' if w >= 4 else 'names'])
      acts, policy, endl, brk = mixes[(i + j + seed) % 4]
      n = min(28, w + r.randrange(0, 6))
      yield dict(
          base, W=w, N=n, layout=lay, actions=acts, policy=policy, end_at=None, breakers={},
          algo=kind, space=(_SMALL_SPACE_EXPR if kind == 'dedup-auto' else _WIDE_SPACE_EXPR),
          start=('staggered' if (i + j + seed) % 5 == 4 else 'simultaneous'),
          presetup=False, slow_setup=(0.0, 0.005, 0.03)[(i + j + seed) % 3], policy_shared=True,
          trace=(r.random() < 0.6), rewards=r.choice(('mod5', 'negative', 'increasing')),
          sync=(r.random() < 0.3), salt=r.randrange(1000)), (1 if quick else 2)


def drv_algorithms_without_feedback(tier, seed):
  rec = Recorder(
      'C16', 'concurrent pg.sample: algorithms without feedback, algorithms set up by the workers '
      '(stress sampling of schedules)',
      scope=('STRESS SAMPLING OF THREAD SCHEDULES, NOT ENUMERATION (same workers, yields and invariants as '
             'the first driver). (a) one shared algorithm whose needs_feedback is False, of every kind: '
             'pg.geno.Random / Sweeping / Deduping(Random) / a pg.geno.dna_generator function as they are '
             '(forced yields between the instructions of DNAGenerator.propose/feedback via sys.monitoring), '
             'subclasses of the first three with yielding counters, a forwarding wrapper that overrides the '
             'public feedback() hook (around Random, regularized_evolution, an Evolution that keeps '
             'everything) and one that overrides the needs_feedback property; their records are plain '
             'sequential code (read, compute, write); W = 2..8, N = 2W..2W+3, solo and racing layouts, '
             '6 mixes of done/skip/policy/break/end_loop, workers mostly finishing at the same moment; '
             + ('quick: 2 seeded scenarios per kind' if tier == 'quick' else 'thorough: 6 x 2 runs per kind')
             + '. (b) one shared algorithm of every kind (with and without feedback) that is not set up '
             'when the workers start (nor is the early stopping policy they share, where the mix has one), '
             '_setup taking 0 / 5 / 30 ms, barrier-released (4 of 5) or staggered starts; ' + ('quick: 1 scenario per kind' if tier == 'quick' else 'thorough: 4 x 2 runs per kind')
             + '. A failure is definite; absence of failures is evidence only.'))
  old = sys.getswitchinterval()
  sys.setswitchinterval(1e-6)
  t0 = time.time()
  budget = 40.0 if tier == 'quick' else 400.0
  try:
    with _InstructionYields():
      for si, (cfg, reps) in enumerate(_nofb_scenarios(tier, seed)):
        for rep in range(reps):
          if time.time() - t0 > budget:
            break
          obs = run_scenario(cfg, f'{seed}-nf{si}-{rep}')
          res = check_run(obs)
          key = (si, rep, cfg['W'], cfg['N'], cfg['layout'], cfg['actions'], cfg['algo'],
                 cfg['start'], cfg['trace'], cfg.get('presetup', True), cfg.get('slow_setup'),
                 cfg.get('maker', 'own'))
          for cid, (ok, msg) in res.items():
            rec.case(cid, key, ok, msg, _witness(cfg, cid))
  finally:
    sys.setswitchinterval(old)
  return rec.result()


# ---------------------------------------------------------------------------
# Deterministic (lock-step) drivers.  The schedules are fixed by barriers, so
# these cases do not depend on luck: they cover the *inputs* of the loop (the
# values used as group ids, the name, N, the kind of search space, re-entering
# the loop) and the *order of operations* on one trial (refused operations,
# operations after completion, measurement by one co-worker and done() by
# another).
# ---------------------------------------------------------------------------

_BARRIER_SECS = 20.0


def _fed_by_serial(probes):
  fed = {}
  for a in {id(a): a for a in probes}.values():
    for s, rwd in list(getattr(a, '_fed', None) or []):
      fed.setdefault(s, []).append(rwd)
  return fed


def _check_books(put, prefix, result, probes, outcome, asfx=''):
  """Quiescence invariants of the statement; `outcome`: trial id -> ('ok', r) | ('skip',).

  `asfx`: suffix of the ids about the algorithm's account of its reports (the
  class of the algorithm: without feedback, set up by the workers).
  """
  trials = list(result.trials)
  m = len(trials)
  ids = [t.id for t in trials]
  put(f'{prefix}/ids-1..N-each-once', sorted(ids) == list(range(1, m + 1)), f'trial ids {ids}')
  serials = [t.dna.metadata.get('c16') for t in trials]
  put(f'{prefix}/distinct-dna-proposals', len(set(serials)) == m,
      f'two trials share one proposal of the algorithm: {serials}')
  unfinished = [t.id for t in trials if t.status != 'COMPLETED']
  put(f'{prefix}/all-trials-completed', not unfinished,
      f'trials {unfinished} are not COMPLETED at quiescence')
  unknown = [t.id for t in trials if t.id not in outcome]
  put(f'{prefix}/every-trial-delivered-and-finished', not unknown,
      f'trials {unknown} exist but no worker was handed them / finished them')
  fed = _fed_by_serial(probes)
  wrong_state, wrong_fb = [], []
  for t in trials:
    if t.id not in outcome:
      continue
    o = outcome[t.id]
    want_inf = o[0] == 'skip'
    fm = t.final_measurement
    if (t.infeasible != want_inf or fm is None
        or fm.reward != (0.0 if want_inf else o[1])):
      wrong_state.append((t.id, t.status, t.infeasible, fm and fm.reward, o))
    got = fed.get(t.dna.metadata.get('c16'), [])
    if got != ([] if want_inf else [o[1]]):
      wrong_fb.append((t.id, got, o))
  put(f'{prefix}/trial-outcome', not wrong_state,
      f'(trial, status, infeasible, final reward, what the workers did): {wrong_state[:4]}')
  put(f'{prefix}/feedback-exactly-once-with-final-reward{asfx}', not wrong_fb,
      f'(trial, rewards in the algorithm\'s record of its reports, what the workers did): '
      f'{wrong_fb[:4]}')
  summary = ast.literal_eval(result.format(compact=True))
  inf_n = sum(1 for t in trials if t.infeasible)
  put(f'{prefix}/status-counts',
      (summary.get('status') == {'COMPLETED': f'{m}/{m}'}) if m else not summary.get('status'),
      f'summary status {summary.get("status")}, expected COMPLETED {m}/{m}; trial statuses '
      f'{[t.status for t in trials][:12]}')
  put(f'{prefix}/infeasible-count',
      summary.get('infeasible') == (f'{inf_n}/{m}' if inf_n else None),
      f'summary infeasible {summary.get("infeasible")}, infeasible trials {inf_n}/{m}')
  uniq = list({id(a): a for a in probes}.values())
  n_ok = sum(1 for t in trials if outcome.get(t.id, ('skip',))[0] == 'ok')
  try:
    np_ = sum(a.num_proposals for a in uniq)
    nf_ = sum(a.num_feedbacks for a in uniq)
  except Exception as e:  # pylint: disable=broad-except
    np_ = nf_ = f'<{type(e).__name__}: {e}>'
  put(f'{prefix}/algorithm-counters{asfx}', np_ == m and nf_ == n_ok,
      f'algorithm.num_proposals={np_} (trials: {m}), num_feedbacks={nf_} '
      f'(trials completed with a reward: {n_ok})')
  best = result.best_trial
  feas = [t for t in trials if not t.infeasible and t.final_measurement is not None]
  if not feas:
    put(f'{prefix}/best-none-without-feasible-trial', best is None,
        f'best trial {best and best.id}')
  else:
    mx = max(t.final_measurement.reward for t in feas)
    sb = summary.get('best_trial') or {}
    put(f'{prefix}/best-is-feasible-with-maximal-reward',
        best is not None and not best.infeasible and best.final_measurement is not None
        and best.final_measurement.reward == mx and any(best is t for t in trials)
        and sb.get('id') == best.id and sb.get('reward') == mx,
        f'best trial {best and best.id} (infeasible={best and best.infeasible}, reward '
        f'{best and best.final_measurement and best.final_measurement.reward}), summary {sb}; '
        f'maximal reward of a feasible trial is {mx}')


# --- (1) groups, names, N, re-entry ------------------------------------------

_LS_GIDS = {
    'str': ['a', 'b', 'c'],
    'int-positive': [1, 2, 3],
    'int-from-zero': [0, 1, 2],
    'str-empty-first': ['', 'a', 'b'],
    'int-non-positive': [-1, 0, -2],
    'mixed-int-str': ['', 0, 'zero'],
    'odd-str': [' ', 'None', '0.0'],
    'big-int': [2 ** 63, -2 ** 31, 10 ** 20],
    # distinct ids that a normalisation (case, blanks, sign) would merge
    'str-near-duplicates': ['a', 'A', ' a'],
    'int-sign-pairs': [1, -1, 2],
}
_LS_HYPER_EXPR = "pg.oneof([1, 2, 3, 4, 5])"    # (a small one: decoding is slow)
_LS_NAMES = ('plain', ' ', '0', 'a/b c', 'None', 'é中')
_LS_ACTS = ('call', 'add2-done', 'skip', 'split', 'early-split', 'skip-m', 'race-all')


def _ls_worst_class(gs):
  order = ['zero-or-empty', 'none', 'int', 'str']
  return min((_gid_class(g) for g in gs), key=order.index)


def _ls_make_loops(spec, g, name, algo, space):
  """All pg.sample calls one lock-step worker of group `g` needs (entry + re-entries)."""
  return [iter(pg.sample(space, algo, num_examples=spec['N'], name=name, group=g, **spec['kw']))
          for _ in range(spec['rounds'] // 2 + 1)]


def _ls_worker(spec, widx, g, k, kk, name, algo, space, shared):
  """One lock-step worker: co-worker `k` of `kk` of group `g`."""
  barrier, rec, outcome, errors = (shared['barrier'], shared['rec'], shared['outcome'],
                                   shared['errors'])
  try:
    _tls.window = 2e-3      # (inside the sequential code of the probes' public hooks)
    kw = dict(spec['kw'])
    maker = spec.get('maker', 'worker')
    if maker == 'peer':
      # every worker makes the pg.sample calls of its neighbour and hands the
      # iterators over; nobody iterates before all are handed over.
      members = shared['members']
      tgt = (widx + 1) % len(members)
      shared['loops'][tgt] = _ls_make_loops(spec, members[tgt][0], name, algo, space)
      barrier.wait()

    def loop():
      if maker != 'worker':
        return shared['loops'][widx].pop(0)     # made for this worker by another thread
      return iter(pg.sample(space, algo, num_examples=spec['N'], name=name, group=g, **kw))

    it = loop()
    exhausted = False
    for rnd in range(spec['rounds']):
      fb = None
      if not exhausted:
        try:
          _, fb = next(it)
        except StopIteration:
          exhausted = True
      rec[(widx, rnd)] = None if fb is None else (fb.id, fb.get_trial())
      barrier.wait()                                     # everybody holds its trial
      finishing = spec['finish'][rnd]
      act = _LS_ACTS[(rnd + spec['salt'] + (0 if g is None else spec['gids'].index(g))) % len(_LS_ACTS)]
      fin = (rnd + spec['salt']) % kk                     # the co-worker that finishes
      other = (fin + 1) % kk
      # ('non-positive': trial 1 has reward 0.0, the maximum; all others are negative)
      rew = None if fb is None else (
          0.0 - 10.0 * (fb.id - 1) if spec.get('rewards') == 'non-positive' else float(fb.id * 10 + rnd))
      if (fb is not None and finishing and act == 'early-split' and kk > 1 and k == fin):
        # phase 0: the 'evaluator' is too early.  With no measurement there is
        # nothing to report, so the trial cannot be completed by this call.
        try:
          fb.done()
        except Exception:  # pylint: disable=broad-except
          pass
      barrier.wait()                                     # phase 0 is over
      if fb is not None and finishing:
        if act in ('split', 'early-split') and kk > 1:
          # phase A: the 'trainer' reports the measurement.
          if k == other:
            try:
              fb.add_measurement(rew, step=1)
            except pg.tuning.RaceConditionError as e:
              if act == 'split':
                raise
              shared['notes'].append(
                  ('finish.too-early-done-leaves-the-trial-pending/lock-step/co-workers',
                   f'trial {fb.id}: a co-worker called done() before any measurement existed; '
                   f'afterwards the measurement of the other co-worker is rejected: '
                   f'{type(e).__name__}: {str(e)[:60]}... status={fb.get_trial().status}, '
                   f'final_measurement={fb.get_trial().final_measurement}'))
          if k == fin:
            outcome[fb.id] = ('ok', rew)
        elif act == 'race-all' and kk > 1:
          with fb.ignore_race_condition():
            fb(rew)
          outcome[fb.id] = ('ok', rew)
        elif k == fin:
          if act == 'skip':
            fb.skip()
            outcome[fb.id] = ('skip',)
          elif act == 'skip-m':
            fb.add_measurement(rew, step=1)
            fb.skip()
            outcome[fb.id] = ('skip',)
          elif act == 'add2-done':
            fb.add_measurement(rew - 1.0, step=1)
            fb.add_measurement(rew, step=2)
            fb.done()
            outcome[fb.id] = ('ok', rew)
          else:
            fb(rew)
            outcome[fb.id] = ('ok', rew)
      barrier.wait()                                     # phase A is over
      if (fb is not None and finishing and act in ('split', 'early-split') and kk > 1
          and k == fin):
        fb.done()                                        # phase B: the 'evaluator' closes
      barrier.wait()                                     # the round is over
      if spec['reenter'] and rnd % 2 == 1 and not exhausted:
        it = loop()                                      # leave the loop and enter it again
  except threading.BrokenBarrierError:
    pass
  except BaseException as e:  # pylint: disable=broad-except
    tb = traceback.extract_tb(e.__traceback__)
    where = ' <- '.join(f'{os.path.basename(f.filename)}:{f.lineno}:{f.name}' for f in tb[-3:])
    errors.append((widx, f'{type(e).__name__}: {e} [{where}]'))
    barrier.abort()


def run_lockstep(spec, tag):
  """Runs one lock-step scenario; returns {case_id: (ok, message)}."""
  name = f'c16ls-{os.getpid()}-{next(_run_counter)}-{tag}-{spec["name"]}'
  space = eval(spec['space'], _NS)  # pylint: disable=eval-used
  algo = _make_algo(spec.get('algo', 'random'), spec['salt'])
  if spec.get('slow_setup'):
    algo._c16_slow_setup = spec['slow_setup']  # pylint: disable=protected-access
  if spec.get('presetup', True):
    algo.setup(space if isinstance(space, pg.DNASpec) else pg.dna_spec(space))
  members = []          # (group id, co-worker index, co-workers in the group)
  for g in spec['gids']:
    members.extend((g, k, spec['K']) for k in range(spec['K']))
  members.extend((None, 0, 1) for _ in range(spec['solos']))
  shared = dict(barrier=threading.Barrier(len(members), timeout=_BARRIER_SECS),
                rec={}, outcome={}, errors=[], notes=[], members=members, loops={})
  maker = spec.get('maker', 'worker')
  # (the class "the pg.sample call of a worker was made by another thread" has
  # its own ids for what concerns groups and delivery)
  msfx = '' if maker == 'worker' else '/iterator-made-by-another-thread'
  if maker == 'coordinator':
    # this thread makes the calls and hands every worker its iterators.
    try:
      for i, (g, _, _) in enumerate(members):
        shared['loops'][i] = _ls_make_loops(spec, g, name, algo, space)
    except Exception as e:  # pylint: disable=broad-except
      tb = traceback.extract_tb(e.__traceback__)
      where = ' <- '.join(f'{os.path.basename(f.filename)}:{f.lineno}:{f.name}' for f in tb[-3:])
      return {f'worker.no-unexpected-exception/lock-step{msfx}': (
          False, f'pg.sample(...) called on behalf of the workers: {type(e).__name__}: {e} [{where}]')}
  threads = [threading.Thread(target=_ls_worker, daemon=True,
                              args=(spec, i, g, k, kk, name, algo, space, shared))
             for i, (g, k, kk) in enumerate(members)]
  for t in threads:
    t.start()
  for t in threads:
    t.join(3 * _BARRIER_SECS)
  out = {}

  def put(cid, ok, msg=''):
    if cid in out and not out[cid][0]:
      return
    out[cid] = (bool(ok), msg)

  hung = [i for i, t in enumerate(threads) if t.is_alive()]
  put('liveness.all-workers-terminate/lock-step', not hung, f'workers {hung} still running')
  if hung:
    return out
  try:
    result = pg.poll_result(name)
  except ValueError:
    put('worker.no-unexpected-exception/lock-step'
        + ('' if spec.get('presetup', True) else '/shared-algorithm-set-up-by-the-workers'),
        not shared['errors'], f'worker errors: {shared["errors"][:3]}')
    put('result.poll/lock-step', False, f'pg.poll_result({name!r}) does not know the study')
    return out
  ssfx = '' if spec.get('presetup', True) else '/shared-algorithm-set-up-by-the-workers'
  entry_failed = bool(ssfx and shared['errors'] and not _only_formatting_race(shared['errors']))
  if entry_failed and not msfx:
    # (a worker that fails on entry breaks the barriers: the rest follows from it)
    put(f'worker.no-unexpected-exception/lock-step{ssfx}', False,
        f'worker errors: {shared["errors"][:3]}; _setup ran {algo.__dict__.get("_c16_setups")} time(s)')
    return out
  rec = shared['rec']
  gkey = [g if g is not None else ('thread', i) for i, (g, _, _) in enumerate(members)]
  # demand of the schedule: a group asks for a new trial whenever it holds none.
  demand = 0
  for _ in set(gkey):
    pending = False
    for rnd in range(spec['rounds']):
      if not pending:
        demand += 1
        pending = True
      if spec['finish'][rnd]:
        pending = False
  want_n = min(spec['N'], demand)
  ncls = ('zero' if spec['N'] == 0 else 'fewer-than-asked-for' if spec['N'] < demand
          else 'as-asked-for' if spec['N'] == demand else 'ample')
  bad_share, bad_disjoint, bad_keep, bad_new, foreign = [], [], [], [], []
  owner = {}
  prev = {}
  for rnd in range(spec['rounds']):
    per_group = {}
    for i, gk in enumerate(gkey):
      v = rec.get((i, rnd))
      per_group.setdefault(gk, []).append(None if v is None else v[0])
      if v is not None and not any(v[1] is t for t in result.trials):
        foreign.append((rnd, i, v[0]))
    for gk, tids in per_group.items():
      if len(set(tids)) != 1:
        bad_share.append((rnd, gk, tids))
        continue
      tid = tids[0]
      if tid is None:
        continue
      if owner.setdefault(tid, gk) != gk:
        bad_disjoint.append((rnd, tid, owner[tid], gk))
      if gk in prev:
        ptid, finished = prev[gk]
        if not finished and tid != ptid:
          bad_keep.append((rnd, gk, ptid, tid))
        if finished and tid <= ptid:
          bad_new.append((rnd, gk, ptid, tid))
      prev[gk] = (tid, spec['finish'][rnd])
  gcls = _ls_worst_class(spec['gids']) if spec['gids'] else 'none'
  if msfx:
    # (first: one trial in the hands of two groups makes the workers run into
    # each other, everything else follows from it)
    # workers without `group` are groups of their own (('thread', i) here)
    # whichever thread made their pg.sample call.
    if foreign:
      put('study.one-study-per-name/lock-step', False,
          f'(round, worker, trial) delivered trials that are not in pg.poll_result(name): {foreign[:4]}')
      return out
    solo = [b for b in bad_disjoint if isinstance(b[2], tuple) and isinstance(b[3], tuple)]
    rest = [b for b in bad_disjoint if b not in solo]
    if spec['solos'] and spec['gids']:
      put(f'delivery.exactly-one-group/lock-step/group-ids=none{msfx}', not solo,
          f'(round, trial, first group, other group) among the workers without group: {solo[:4]}')
      put(f'delivery.exactly-one-group/lock-step/group-ids={gcls}{msfx}', not rest,
          f'(round, trial, first group, other group): {rest[:4]}')
    else:
      put(f'delivery.exactly-one-group/lock-step/group-ids={gcls}{msfx}', not bad_disjoint,
          f'(round, trial, first group, other group): {bad_disjoint[:4]}')
    if bad_disjoint:
      return out
    if entry_failed:
      put(f'worker.no-unexpected-exception/lock-step{ssfx}', False,
          f'worker errors: {shared["errors"][:3]}; _setup ran {algo.__dict__.get("_c16_setups")} time(s)')
      return out
  put('study.one-study-per-name/lock-step', not foreign,
      f'(round, worker, trial) delivered trials that are not in pg.poll_result(name): {foreign[:4]}')
  put(f'group.co-workers-share-pending-trial/lock-step/group-ids={gcls}{msfx}', not bad_share,
      f'groups {members}: (round, group, trial ids handed to its co-workers): {bad_share[:4]}')
  if not msfx:
    put(f'delivery.exactly-one-group/lock-step/group-ids={gcls}', not bad_disjoint,
        f'(round, trial, first group, other group): {bad_disjoint[:4]}')
  put(f'group.pending-trial-kept-until-finished/lock-step/group-ids={gcls}{msfx}', not bad_keep,
      f'(round, group, pending trial, trial handed out instead): {bad_keep[:4]}')
  put(f'group.new-trial-after-finish/lock-step{msfx}', not bad_new,
      f'(round, group, finished trial, trial handed out next): {bad_new[:4]}')
  if foreign or bad_share or bad_disjoint or bad_keep or bad_new:
    return out      # (worker errors and wrong counts are consequences then)
  put('finish.too-early-done-leaves-the-trial-pending/lock-step/co-workers', not shared['notes'],
      '; '.join(n[1] for n in shared['notes'][:2]))
  if shared['notes']:
    return out
  put('worker.no-unexpected-exception/lock-step'
      + ('' if _only_formatting_race(shared['errors']) else ssfx), not shared['errors'],
      f'worker errors: {shared["errors"][:3]}')
  if shared['errors']:
    return out
  put(f'trials.count/lock-step/requested={ncls}', len(result.trials) == want_n,
      f'{len(result.trials)} trials created; requested {spec["N"]}, the workers asked for {demand}')
  try:
    nofb = not algo.needs_feedback
  except Exception:  # pylint: disable=broad-except
    nofb = False
  _check_books(put, 'books/lock-step', result, [algo], shared['outcome'],
               asfx=('/needs_feedback=False' if nofb else '') + ssfx)
  return out


_LS_ALGOS = ('random', 'hook-random', 'prop-random', 'prop-regevo', 'hook-regevo', 'hook-random')


def _lockstep_specs(tier, seed):
  """Specs; the algorithm and who sets it up alternate over the specs."""
  for i, spec in enumerate(_lockstep_specs0(tier, seed)):
    j = i + seed
    spec['algo'] = _LS_ALGOS[j % len(_LS_ALGOS)]
    if j % 3 == 1:
      # the workers' pg.sample calls (all at the same moment) set it up.
      spec['presetup'] = False
      spec['slow_setup'] = (0.0, 0.005, 0.03)[(j // 3) % 3]
    yield spec


def _lockstep_specs0(tier, seed):
  r = rng(seed, 'c16-lockstep')
  for pool in sorted(_LS_GIDS):
    for kk, ng in ((1, 2), (2, 1), (2, 2), (1, 3), (2, 3), (3, 2)) + (
        () if tier == 'quick' else ((1, 1), (3, 1), (3, 3))):
      if True:  # pylint: disable=using-constant-test
        for rep in range(1 if tier == 'quick' else 4):
          rounds = r.choice((3, 4, 5))
          finish = [r.random() < 0.6 for _ in range(rounds)]
          finish[-1] = True
          solos = r.choice((0, 0, 1, 2)) if kk * ng <= 6 else 0
          gids = list(_LS_GIDS[pool][:ng])
          r.shuffle(gids)
          demand = (ng + solos) * (1 + sum(finish[:-1]))
          n = r.choice((demand + 3, demand + 3, demand, max(0, demand - 1),
                        max(0, demand - ng), 1, 0))
          kw = r.choice(({}, {}, {'backend': 'in-memory'}))
          yield dict(gids=gids, K=kk, solos=solos, rounds=rounds, finish=finish, N=n,
                     salt=r.randrange(100), reenter=r.random() < 0.4, kw=kw,
                     name=r.choice(_LS_NAMES),
                     space=r.choice((_LS_HYPER_EXPR, _SMALL_SPACE_EXPR, _SPACE_EXPR)), pool=pool,
                     rewards=r.choice(('positive', 'non-positive')))
  # only solo workers (group=None): each is a group of its own.
  for solos in (1, 2, 5):
    rounds = 4
    finish = [True, False, True, True]
    yield dict(gids=[], K=1, solos=solos, rounds=rounds, finish=finish,
               N=r.choice((3 * solos, 3 * solos + 2, solos)), salt=r.randrange(100),
               reenter=True, kw={}, name='solo', space=_LS_HYPER_EXPR, pool='none')
  # The pg.sample calls of the workers are made by another thread and the
  # iterators are handed over: by the coordinating thread before it starts the
  # workers (`executor.map(work, [pg.sample(...) for _ in range(W)])`), or by
  # a fellow worker.  The worker is the thread that iterates: workers without
  # `group` are groups of their own, co-workers share their trial, as before.
  r = rng(seed, 'c16-lockstep-handover')
  shapes = ((1, 0, 2), (1, 0, 4), (1, 2, 2), (2, 1, 2), (2, 2, 1), (1, 3, 0), (3, 1, 3)) + (
      () if tier == 'quick' else ((1, 0, 7), (2, 2, 0), (2, 3, 3), (1, 1, 1)))
  for maker in ('coordinator', 'peer'):
    for kk, ng, solos in shapes:
      for rep in range(1 if tier == 'quick' else 3):
        pool = r.choice(sorted(_LS_GIDS))
        rounds = r.choice((3, 4, 5))
        finish = [r.random() < 0.6 for _ in range(rounds)]
        finish[-1] = True
        gids = list(_LS_GIDS[pool][:ng])
        r.shuffle(gids)
        demand = (ng + solos) * (1 + sum(finish[:-1]))
        n = r.choice((demand + 3, demand + 3, demand, max(0, demand - 1), 1))
        yield dict(gids=gids, K=kk, solos=solos, rounds=rounds, finish=finish, N=n,
                   salt=r.randrange(100), reenter=r.random() < 0.5,
                   kw=r.choice(({}, {}, {'backend': 'in-memory'})), name=r.choice(_LS_NAMES),
                   space=r.choice((_LS_HYPER_EXPR, _SMALL_SPACE_EXPR, _SPACE_EXPR)),
                   pool=(pool if ng else 'none'), rewards=r.choice(('positive', 'non-positive')),
                   maker=maker)


def _ls_witness(spec, cid):
  return ('import bounded.c16_concurrency as m\n'
          f'spec = {spec!r}\n'
          f'res = m.run_lockstep(spec, "w")\n'
          f'assert res.get({cid!r}, (True, ""))[0], res[{cid!r}][1]')


def drv_lockstep_groups(tier, seed):
  rec = Recorder(
      'C16', 'named pg.sample loop, barrier-driven schedules: group ids, names, N, re-entry',
      scope=('deterministic lock-step schedules (barriers) of 1..9 worker threads on one named in-memory '
             'loop: 1..3 groups x 1..3 co-workers (quick: 6 of the 9 shapes) + 0..2 workers without group; group ids from 10 pools of '
             'the documented type (str, positive ints, ints from 0, empty string, non-positive ints, ints and '
             'strings mixed, odd strings, big ints, strings differing in case/blanks, ints differing in sign); 3..5 rounds, in every round all workers ask for their '
             'trial, then one co-worker finishes it (call / 2 measurements + done / skip / measurement + skip '
             '/ measurement by one co-worker and done() by another, also after a too early done() / all '
             'co-workers at once) or, in some rounds, nobody does (the trial must be handed out again); '
             'N ample, exactly the demand, less, 1, 0; rewards positive or 0.0 and negative; odd study names; hyper value or DNASpec as space; '
             'default and explicit in-memory backend; workers that leave the loop and re-enter it; '
             'the shared algorithm alternates over the specs between a probe with a _feedback hook and '
             'forwarding wrappers whose needs_feedback is False (public feedback() hook overridden, around '
             'Random and regularized_evolution; needs_feedback property overridden, around Random: False, '
             'around regularized_evolution: True), whose record of the '
             'reports is plain sequential code with a 2 ms window (groups finish at the same moment); in every '
             'third spec the algorithm is set up by the pg.sample calls of the workers, which all start at '
             'the same moment (_setup takes 0 / 5 / 30 ms); plus a block of specs (7 shapes, thorough 11, '
             'x 2) in which the pg.sample calls of the workers (entry and re-entries) are made by the '
             'coordinating thread before the workers start, or by a fellow worker, and the iterators are '
             'handed over: 2..7 workers without group alone or next to 1..3 groups of 1..3 co-workers; '
             + ('quick: 1 seeded draw per (pool, co-workers, groups)' if tier == 'quick'
                else 'thorough: 4 seeded draws per (pool, co-workers, groups)')))
  for si, spec in enumerate(_lockstep_specs(tier, seed)):
    res = run_lockstep(spec, f'{seed}-{si}')
    key = (si, spec['pool'], spec['K'], len(spec['gids']), spec['solos'], spec['N'],
           tuple(spec['finish']), spec['reenter'], spec['name'], spec['algo'],
           spec.get('presetup', True), spec.get('maker', 'worker'))
    for cid, (ok, msg) in res.items():
      rec.case(cid, key, ok, msg, _ls_witness(spec, cid))
  return rec.result()


# --- (2) order of operations on one trial --------------------------------------

_SEQ_OPS = ('add', 'done', 'skip', 'bad-add', 'call', 'skip-exc')
_SEQ_CLOSE = ('add', 'done')      # the proper finish that ends every sequence


def _seq_reward(tid, i):
  if tid % 3 == 0:
    return float(i) - 1.0       # small ones, among them 0.0 and -1.0
  return float(tid * 100 + i)


def _seq_model(ops, tid):
  """What the statement allows.

  Returns (outcome, finisher, steps); steps[i] = (operation class, must take
  effect, status after it, infeasible after it).
  """
  pending, ms, outcome, finisher = True, [], None, None
  infeasible = False
  steps = []
  for i, op in enumerate(ops):
    if not pending:
      cls, eff = 'operation-after-completion', False
    elif op == 'add':
      ms.append(_seq_reward(tid, i))
      cls, eff = 'add_measurement', True
    elif op == 'bad-add':
      cls, eff = 'invalid-add_measurement', False      # refused: changes nothing
    elif op == 'done':
      if ms:
        pending, outcome, finisher = False, ('ok', ms[-1]), 'done'
        cls, eff = 'done', True
      else:
        # nothing to report: the trial cannot be completed by this call.
        cls, eff = 'done-without-measurement', False
    elif op == 'call':
      ms.append(_seq_reward(tid, i))
      pending, outcome, finisher = False, ('ok', ms[-1]), 'call'
      cls, eff = 'call', True
    elif op in ('skip', 'skip-exc'):
      pending, outcome, infeasible = False, ('skip',), True
      finisher = 'skip' if op == 'skip' else 'skip_on_exceptions'
      cls, eff = finisher, True
    else:
      raise ValueError(op)
    steps.append((cls, eff, 'PENDING' if pending else 'COMPLETED', infeasible))
  assert not pending
  return outcome, finisher, steps


def _seq_exec(fb, op, tid, i):
  """Executes one operation; returns the exception it raised (or None)."""
  r = _seq_reward(tid, i)
  try:
    if op == 'add':
      fb.add_measurement(r, step=i + 1)
    elif op == 'bad-add':
      # invalid measurements: no reward / a metric only / 2 rewards for 1 goal
      if i % 3 == 0:
        fb.add_measurement(None, step=i + 1)
      elif i % 3 == 1:
        fb.add_measurement(metrics={'other': r}, step=i + 1)
      else:
        fb.add_measurement([r, r], step=i + 1)
    elif op == 'done':
      fb.done()
    elif op == 'skip':
      fb.skip()
    elif op == 'call':
      fb(r, step=i + 1)
    elif op == 'skip-exc':
      with fb.skip_on_exceptions((KeyError,)):
        raise KeyError('c16')
    else:
      raise ValueError(op)
  except Exception as e:  # pylint: disable=broad-except
    return e
  return None


def _seq_counts(summary):
  st = summary.get('status') or {}
  out = {k: int(str(st.get(k, '0/0')).split('/')[0]) for k in ('PENDING', 'COMPLETED')}
  out['infeasible'] = int(str(summary.get('infeasible') or '0/0').split('/')[0])
  return out


def _seq_sequences(tier, seed):
  depth = 3 if tier == 'quick' else 4
  seqs = []
  for n in range(0, depth + 1):
    seqs.extend(itertools.product(_SEQ_OPS, repeat=n))
  rng(seed, 'c16-seq').shuffle(seqs)
  return [tuple(q) + _SEQ_CLOSE for q in seqs]


_SEQ_ALGO = {'solo': 'random', 'alternate-0': 'hook-random', 'alternate-1': 'random'}


def run_sequences(seqs, mode, tag, group=None):
  """One named loop with one trial per sequence.

  mode 'solo': one worker executes every operation.  mode 'alternate-0/1':
  two co-workers of one group hold every trial; operation i is executed by
  co-worker (i + phase) % 2, a barrier separates the operations.
  Returns a list of (case_id, key, ok, message).
  """
  name = f'c16seq-{os.getpid()}-{next(_run_counter)}-{tag}'
  space = eval(_SMALL_SPACE_EXPR, _NS)  # pylint: disable=eval-used
  # (alternate-0: an algorithm whose needs_feedback is False -- a forwarding
  # wrapper that overrides the public feedback() hook)
  algo = _make_algo(_SEQ_ALGO.get(mode, 'random'), 7)
  algo.setup(space)
  asfx = '' if algo.needs_feedback else '/needs_feedback=False'
  nw = 1 if mode == 'solo' else 2
  phase = 1 if mode.endswith('1') else 0
  barrier = threading.Barrier(nw, timeout=_BARRIER_SECS)
  found = []
  errors = []
  got = {}
  state = {}

  def note(cid, key, ok, msg):
    found.append((cid, key, bool(ok), msg))

  def verify(t_index, ops, fb, raised, states):
    tid = t_index + 1
    outcome, finisher, steps = _seq_model(ops, tid)
    key = (mode, ops)
    # the first operation after which the trial is not in the state the
    # statement allows names the case; what follows it is a consequence.
    for i, (cls, eff, status, infeasible) in enumerate(steps):
      if eff and raised[i] is not None:
        e = raised[i]
        note(f'finish-sequence/operation-accepted/{cls}', key, False,
             f'{ops} on trial {tid}: operation {i} ({ops[i]}) must take effect on the pending trial '
             f'but raised {type(e).__name__}: {str(e)[:80]}')
        return
      if states[i] != (status, infeasible):
        note(f'finish-sequence/trial-state-after/{cls}', key, False,
             f'{ops} on trial {tid}: after operation {i} ({ops[i]}) the trial is (status, infeasible) '
             f'{states[i]}, the statement allows only {(status, infeasible)} (exceptions so far: '
             f'{[type(e).__name__ if e else None for e in raised[:i + 1]]})')
        return
    for cls in sorted({st[0] for st in steps}):
      note(f'finish-sequence/trial-state-after/{cls}', key, True, '')
    pre = f'finish-sequence/finished-by={finisher}'
    trial = fb.get_trial()
    fm = trial.final_measurement
    want_inf = outcome[0] == 'skip'
    ok_state = (fb.id == tid and trial.status == 'COMPLETED' and trial.infeasible == want_inf
                and fm is not None and fm.reward == (0.0 if want_inf else outcome[1]))
    note(f'{pre}/final-measurement', key, ok_state,
         f'{ops} on trial {tid}: status={trial.status}, infeasible={trial.infeasible}, final reward '
         f'{fm and fm.reward}; expected COMPLETED, '
         + ('infeasible' if want_inf else f'reward {outcome[1]}')
         + f' (exceptions: {[type(e).__name__ if e else None for e in raised]})')
    fed = _fed_by_serial([algo]).get(trial.dna.metadata.get('c16'), [])
    note(f'{pre}/reported-to-the-algorithm-exactly-once{asfx}', key,
         fed == ([] if want_inf else [outcome[1]]),
         f'{ops} on trial {tid}: rewards fed back {fed}, expected '
         f'{[] if want_inf else [outcome[1]]}')
    # counts and best trial: compared with the snapshot taken when the trial
    # had just been handed out (so that one bad trial is not blamed on the
    # sequences that follow it).
    before = state['before']
    result = pg.poll_result(name)
    summary = ast.literal_eval(result.format(compact=True))
    after = _seq_counts(summary)
    want = dict(before)
    want['PENDING'] -= 1
    want['COMPLETED'] += 1
    want['infeasible'] += 1 if want_inf else 0
    note(f'{pre}/result-counts-add-up', key, after == want and len(result.trials) == tid,
         f'after {ops} on trial {tid}: counts {after} ({len(result.trials)} trials); when the trial '
         f'was handed out: {before}; expected now: {want}')
    best = result.best_trial
    sb = summary.get('best_trial') or {}
    pb = state['best_before']      # (id, reward) or None
    if not want_inf and (pb is None or outcome[1] > pb[1]):
      wb = (tid, outcome[1])
    else:
      wb = pb
    gb = None if best is None else (best.id, best.final_measurement and best.final_measurement.reward)
    if not want_inf and pb is not None and outcome[1] == pb[1] and gb == (tid, outcome[1]):
      wb = gb                      # (a tie: either trial is one with maximal reward)
    note(f'{pre}/best-trial', key,
         gb == wb and (None if not sb else (sb.get('id'), sb.get('reward'))) == wb,
         f'after {ops} on trial {tid}: best trial (id, reward) {gb}, summary {sb}; before: {pb}; '
         f'expected {wb}')

  def snapshot():
    result = pg.poll_result(name)
    state['before'] = _seq_counts(ast.literal_eval(result.format(compact=True)))
    b = result.best_trial
    state['best_before'] = None if b is None else (
        b.id, b.final_measurement and b.final_measurement.reward)

  def worker(k):
    try:
      it = iter(pg.sample(space, algo, num_examples=len(seqs), name=name, group=group))
      for t_index, ops in enumerate(seqs):
        _, fb = next(it)
        got[(k, t_index)] = fb.id
        barrier.wait()
        if k == 0:
          snapshot()
        if nw > 1:
          barrier.wait()
        raised = [None] * len(ops)
        states = [None] * len(ops)
        for i, op in enumerate(ops):
          if (i + phase) % nw == k:
            raised[i] = _seq_exec(fb, op, t_index + 1, i)
            tr = fb.get_trial()
            states[i] = (tr.status, bool(tr.infeasible))
          if nw > 1:
            barrier.wait()
        if nw > 1:
          shared_raised[(k, t_index)] = (raised, states)
          barrier.wait()
        if k == 0:
          if nw > 1:
            o, os_ = shared_raised[(1, t_index)]
            raised = [a if a is not None else b for a, b in zip(raised, o)]
            states = [a if a is not None else b for a, b in zip(states, os_)]
          verify(t_index, ops, fb, raised, states)
        if nw > 1:
          barrier.wait()
      try:
        _, fb = next(it)
        errors.append((k, f'a trial ({fb.id}) beyond the {len(seqs)} requested was handed out'))
      except StopIteration:
        pass
    except threading.BrokenBarrierError:
      pass
    except BaseException as e:  # pylint: disable=broad-except
      tb = traceback.extract_tb(e.__traceback__)
      where = ' <- '.join(f'{os.path.basename(f.filename)}:{f.lineno}:{f.name}' for f in tb[-3:])
      errors.append((k, f'{type(e).__name__}: {e} [{where}]'))
      barrier.abort()

  shared_raised = {}
  threads = [threading.Thread(target=worker, args=(k,), daemon=True) for k in range(nw)]
  # (skip_on_exceptions logs a warning with a traceback for every skipped trial)
  old_logger = pg.logging.get_logger()
  quiet = logging.getLogger('c16-quiet')
  quiet.setLevel(logging.CRITICAL)
  quiet.propagate = False
  pg.logging.set_logger(quiet)
  try:
    for t in threads:
      t.start()
    for t in threads:
      t.join(120.0)
  finally:
    pg.logging.set_logger(old_logger)
  hung = [i for i, t in enumerate(threads) if t.is_alive()]
  note('liveness.all-workers-terminate/finish-sequence', (mode,), not hung,
       f'workers {hung} still running')
  bad = [f for f in found if not f[2]]
  if not bad:
    # (after a failed trial everything else is a consequence)
    note('worker.no-unexpected-exception/finish-sequence', (mode,), not errors,
         f'worker errors: {errors[:3]}')
    if nw > 1:
      differ = [(t, got.get((0, t)), got.get((1, t))) for t in range(len(seqs))
                if got.get((0, t)) != got.get((1, t))]
      note('group.co-workers-share-pending-trial/finish-sequence', (mode,), not differ,
           f'(sequence, trial of co-worker 0, trial of co-worker 1): {differ[:4]}')
  return found


def _seq_witness(ops, mode, cid):
  return ('import bounded.c16_concurrency as m\n'
          f'res = m.run_sequences([{ops!r}], {mode!r}, "w", group=("pair" if {mode!r} != "solo" else None))\n'
          f'bad = [f for f in res if f[0] == {cid!r} and not f[2]]\n'
          'assert not bad, bad[0][3]')


def drv_finish_sequences(tier, seed):
  rec = Recorder(
      'C16', 'named pg.sample loop: every order of feedback operations on one trial',
      scope=('one named in-memory loop per mode, one trial per sequence; all sequences of length 0..3 '
             '(thorough: 0..4) over {add_measurement, done, skip, invalid add_measurement (no reward / metric '
             'only / two rewards), feedback(reward), exception inside skip_on_exceptions}, each followed by '
             'a proper finish (add_measurement; done); modes: one worker / two co-workers of a group that '
             'execute the operations alternately (either one first; in one of the two modes the algorithm is '
             'a forwarding wrapper whose needs_feedback is False), separated by barriers; after every '
             'trial (a quiescent point) the trial, the feedback log of the algorithm, the counts of the '
             'result and the best trial are compared with the outcome of the first operation that can '
             'complete the trial (done() without a measurement cannot: there is nothing to report)'))
  seqs = _seq_sequences(tier, seed)
  for mode, group in (('solo', None), ('alternate-0', 'pair'), ('alternate-1', 0)):
    for cid, key, ok, msg in run_sequences(seqs, mode, f'{seed}', group=group):
      ops = key[1] if len(key) > 1 else seqs[0]
      rec.case(cid, key, ok, msg, _seq_witness(ops, mode, cid))
  return rec.result()


DRIVERS = [drv_concurrent_sampling, drv_lockstep_groups, drv_finish_sequences,
           drv_algorithms_without_feedback]


def replay(rec):
  """Re-executes rec['witness']; returns (ok, message)."""
  try:
    exec(rec['witness'], {})  # pylint: disable=exec-used
    return True, 'witness passes'
  except Exception as e:  # pylint: disable=broad-except
    return False, f'{type(e).__name__}: {e}'
